"""C14 — changing representation does not change the data.

Basis-expansion statistics vs the same statistics of the evaluated curves,
to_basis∘to_grid vs P-spline smoothing, long format, CSV loading.
"""
import math
import os
import shutil
import tempfile
import warnings
from fractions import Fraction

import numpy as np

from common import F, Rng, close, digest, err_class, fl, mat, pmat, pvec, rs, vec

PROP = "C14"
MODULES = ["FDAProofs.Props.C14"]
DRIVER = "Drivers/C14.lean"
PARALLEL = True
RULE = (
    "seeded structured cases: 1-D basis data (families fourier/legendre/wiener/bsplines and explicit dyadic bases, "
    "1..5 functions, 3..12 non-uniform grid points, 1..7 observations, coefficient matrices random/centred/constant/"
    "with zero rows), 2-D tensor bases with DIFFERENT sizes per dimension, every BasisFunctionalData method vs the same "
    "method on .to_grid(); spline spaces (n_segments 1..6, degree 1..3, penalties incl. 0, curves in/out of the space, "
    "1-D and 2-D); long format of dense/irregular 1-D/2-D data with cell-identifying values; real CSV files (integer, "
    "non-integer, mixed headers, any missing pattern with >= 1 value per row). Non-trivial: not all-zero data; "
    "distinct by content hash"
)
PARTIAL = [
    "pandas' CSV parser and the conversion of ONE column label to an integer are trusted (the model starts from the parsed "
    "header classes); the label RULE (all integers -> labels, else np.arange fallback; dense iff complete) is re-read from "
    "FDApy/misc/loader.py by the translator and proved equal to the model; write∘read = identity is proved on the model",
    "basis families are taken from the implementation as exact values of the float arrays (their analytic form is C18's)",
    "to_basis∘to_grid = P-spline smoothing and exact recovery: proved over an abstract basis matrix / normal equations, "
    "tied to PSplines differentially (the B-spline/P-spline model itself is C05/C18's)",
    "square roots (norm, normalize, standardize) compared through squares / on the implementation only",
    "Basis.inner_product: Cholesky test not modelled; when it fails the statsmodels fallback is absent (classified, skipped)",
]
TRUSTED_EXTRA = ["pandas.read_csv / DataFrame.to_csv round trip of decimal literals",
                 "harness/c14_translate.py + lean/FDAModel/Core/NpMat.lean: syntactic reading of the coefficient-space formulas "
                 "(np.einsum subscripts, @ / .T / np.mean / np.diag with symbolic shapes; numpy.isclose as |a-b| <= atol + rtol|b|), ~250 lines",
                 "harness/c14.py parse_csv_rule: syntactic reading of read_csv's label rule"]

FAMILIES = ["fourier", "legendre", "wiener", "bsplines", "given"]


# --------------------------------------------------------------------------
# translator: the header rule of read_csv, read off FDApy/misc/loader.py
# --------------------------------------------------------------------------

import ast  # noqa: E402

import common  # noqa: E402

GEN_FILE = os.path.join(common.LEAN_DIR, "FDAModel", "Generated", "CsvRule.lean")
TRANSLATOR_NOTE = []


class _NotRecognised(Exception):
    pass


def _calls(node, attr):
    return [n for n in ast.walk(node) if isinstance(n, ast.Call) and
            ((isinstance(n.func, ast.Attribute) and n.func.attr == attr) or (isinstance(n.func, ast.Name) and n.func.id == attr))]


def _int_literal(node):
    if isinstance(node, ast.Constant) and isinstance(node.value, int) and not isinstance(node.value, bool):
        return node.value
    if isinstance(node, ast.UnaryOp) and isinstance(node.op, ast.USub) and isinstance(node.operand, ast.Constant):
        return -node.operand.value
    raise _NotRecognised("non-literal argument of arange")


def parse_csv_rule(path):
    """(integer_labels, start, step, dense_when_complete) of `read_csv`, from the source.

    Recognised shape (wherever it sits in the module, inline or in a helper): a `try` whose body converts
    the column labels with `.astype(<int64|int>)`, an `except ValueError` handler that builds
    `arange([start,] n[, step])` with literal start/step; and one `if` on `….isna()….any()` (possibly
    negated or through one variable) choosing between a `*dense*` and an `*irregular*` callee."""
    tree = ast.parse(open(path).read())
    rule = None
    for t in [n for n in ast.walk(tree) if isinstance(n, ast.Try)]:
        conv = [c for stmt in t.body for c in _calls(stmt, "astype")]
        if not conv:
            continue
        arg = ast.unparse(conv[0].args[0]) if conv[0].args else ""
        if arg.replace("np.", "").replace("numpy.", "").strip("\"'") not in ("int64", "int", "int_", "intp"):
            raise _NotRecognised(f"labels converted with astype({arg})")
        hs = [h for h in t.handlers if h.type is not None and "ValueError" in ast.unparse(h.type)]
        if len(hs) != 1 or len(t.handlers) != 1:
            raise _NotRecognised("fallback is not a single `except ValueError`")
        ar = [c for stmt in hs[0].body for c in _calls(stmt, "arange")]
        if len(ar) != 1 or ar[0].keywords:
            raise _NotRecognised("fallback is not one positional np.arange(...)")
        a = ar[0].args
        if len(a) == 1:
            start, step = 0, 1
        elif len(a) == 2:
            start, step = _int_literal(a[0]), 1
        elif len(a) == 3:
            start, step = _int_literal(a[0]), _int_literal(a[2])
        else:
            raise _NotRecognised("np.arange arity")
        if "len(" not in ast.unparse(a[0] if len(a) == 1 else a[1]):
            raise _NotRecognised("fallback length is not len(columns)")
        if rule is not None:
            raise _NotRecognised("two label-conversion blocks")
        rule = (True, start, step)
    if rule is None:
        raise _NotRecognised("no try/astype block")
    # dense iff complete
    isna_vars = set()
    for n in ast.walk(tree):
        if isinstance(n, ast.Assign) and "isna()" in ast.unparse(n.value) and "any()" in ast.unparse(n.value):
            if "not " in ast.unparse(n.value):
                raise _NotRecognised("negated missing-value flag")
            isna_vars |= {t_.id for t_ in n.targets if isinstance(t_, ast.Name)}
    dense_when_complete = None
    for n in ast.walk(tree):
        if not isinstance(n, ast.If):
            continue
        test, neg = n.test, False
        if isinstance(test, ast.UnaryOp) and isinstance(test.op, ast.Not):
            test, neg = test.operand, True
        src = ast.unparse(test)
        if not (("isna()" in src and "any()" in src) or (isinstance(test, ast.Name) and test.id in isna_vars)):
            continue
        body = " ".join(ast.unparse(x) for x in n.body)
        if ("dense" in body) == ("irregular" in body):
            raise _NotRecognised("branch callee not recognised")
        val = ("dense" in body) if neg else ("irregular" in body)
        if dense_when_complete is not None and dense_when_complete != val:
            raise _NotRecognised("two inconsistent missing-value branches")
        dense_when_complete = val
    if dense_when_complete is None:
        raise _NotRecognised("no missing-value branch")
    return rule + (dense_when_complete,)


def csv_rule_lean(rule):
    _, start, step, dwc = rule
    return f"""/-
GENERATED by harness/c14.py `translate()` from FDApy/misc/loader.py (`read_csv`: label rule).
Do not edit: regenerated on every run of `./check C14`.
-/
import FDAModel.Tabular

namespace FDA.Generated.CsvRule
open FDA.Tab

/-- `np.arange(start, len(columns), step)` of the `except ValueError` fallback. -/
def fallbackStart : Int := {start}
def fallbackStep : Int := {step}

/-- The abscissae as the SOURCE computes them: the labels when all convert to integers,
otherwise the fallback range. -/
def abscissae (hs : List Header) : List Int :=
  match hs.mapM Header.toInt? with
  | some zs => zs
  | none => (List.range hs.length).map fun (j : Nat) => fallbackStart + fallbackStep * Int.ofNat j

/-- The source loads a table without missing cell as dense data (and irregular otherwise). -/
def denseWhenComplete : Bool := {"true" if dwc else "false"}

end FDA.Generated.CsvRule
"""


import c14_translate  # noqa: E402

GEN_FORMULAS = os.path.join(common.LEAN_DIR, "FDAModel", "Generated", "CoefSpaceFormulas.lean")


def _translate_formulas():
    """Generated/CoefSpaceFormulas.lean from the coefficient-space methods of BasisFunctionalData; an unrecognised shape is
    not an alarm: the reference translation kept beside the translator is used and the evidence says so."""
    path = os.path.join(common.REPO, "FDApy", "representation", "functional_data.py")
    try:
        src = c14_translate.lean_source(path)
        TRANSLATOR_NOTE.append("translator: coefficient-space formulas of BasisFunctionalData regenerated from the source and re-proved "
                               "equal to the model (C14.basis_formulas_match_source)")
    except (ValueError, SyntaxError, IndexError, AttributeError, KeyError, TypeError) as e:
        note = f"translator: shape of the BasisFunctionalData methods not recognised, tie rests on the correspondence only ({e})"
        TRANSLATOR_NOTE.append(note)
        print("note:", note)
        src = open(os.path.join(os.path.dirname(os.path.abspath(__file__)), "c14_basisformulas_reference.lean")).read()
    except OSError as e:
        raise common.InfraError(f"translator: cannot read {path}: {e}")
    if not os.path.exists(GEN_FORMULAS) or open(GEN_FORMULAS).read() != src:
        with open(GEN_FORMULAS, "w") as fh:
            fh.write(src)


def translate():
    del TRANSLATOR_NOTE[:]
    _translate_formulas()
    path = os.path.join(common.REPO, "FDApy", "misc", "loader.py")
    try:
        src = csv_rule_lean(parse_csv_rule(path))
    except (_NotRecognised, SyntaxError, OSError) as e:
        # an unrecognised source shape is not an alarm: keep the last generated file
        TRANSLATOR_NOTE.append(f"translator: source shape not recognised ({e}), tie rests on the correspondence only")
        if os.path.exists(GEN_FILE):
            return
        src = csv_rule_lean((True, 0, 1, True))
        TRANSLATOR_NOTE.append("translator: no previous generated file, the model's own rule was written")
    old = open(GEN_FILE).read() if os.path.exists(GEN_FILE) else None
    if old != src:
        os.makedirs(os.path.dirname(GEN_FILE), exist_ok=True)
        with open(GEN_FILE, "w") as fh:
            fh.write(src)


def extra_coverage(cases, impls, models):
    return dict(translator=list(TRANSLATOR_NOTE) + ["translator: read_csv label rule regenerated from FDApy/misc/loader.py and proved equal to the model (C14.read_csv_rule_matches_source)"])


# --------------------------------------------------------------------------
# generation
# --------------------------------------------------------------------------

def _grid(rng: Rng, m, unit=False):
    if unit:
        return rng.grid(m, lo=0, scale=1)
    lo = rng.choice([0, 0, -1, 1, Fraction(-7, 2), 10])
    scale = rng.choice([1, 1, 2, Fraction(1, 2), 5])
    return rng.grid(m, lo=lo, scale=scale)


LAYOUTS = ["C", "C", "F", "T", "strided", "rolled"]
# explicit numeric parameters (weights, penalties, noise variances) are probed at every scale, 1e-12 … 1e12:
# exact guards (`== 0`) must not be replaced by tolerances
SCALES = [Fraction(2), Fraction(1, 4), Fraction(9), Fraction(1, 2 ** 40), Fraction(1, 2 ** 30), Fraction(1, 2 ** 27),
          Fraction(1, 2 ** 20), Fraction(2 ** 20), Fraction(2 ** 30), Fraction(2 ** 40)]


def _coef(rng: Rng, N, K):
    kind = rng.choice(["rand", "rand", "rand", "centred", "const", "zero_row", "small", "offset", "offset", "tiny", "huge"])
    if kind == "offset":
        # huge column means, tiny spread (exact dyadics): algebraically equal but fragile formulas lose everything here
        lev = [Fraction(2) ** rng.choice([16, 20, 24]) * rng.choice([1, 3, -5]) for _ in range(K)]
        C = [[lev[k] + rng.dyadic(-1, 1, 6) for k in range(K)] for _ in range(N)]
        return C, kind
    if kind in ("tiny", "huge"):
        f = Fraction(2) ** (rng.choice([20, 30, 40]) * (-1 if kind == "tiny" else 1))
        return [[f * x for x in rng.dyadics(K, -6, 6, 3)] for _ in range(N)], kind
    if kind == "const":
        row = rng.dyadics(K, -4, 4, 3)
        C = [list(row) for _ in range(N)]
    elif kind == "small":
        C = [rng.dyadics(K, -1, 1, 6) for _ in range(N)]
    else:
        C = [rng.dyadics(K, -6, 6, 3) for _ in range(N)]
    if kind == "centred" and N >= 1:
        for k in range(K):
            s = sum(C[i][k] for i in range(N))
            C[0][k] -= s  # column sums are exactly zero
    if kind == "zero_row" and N >= 1:
        C[rng.randrange(N)] = [Fraction(0)] * K
    return C, kind


def _S(M):
    return [[rs(x) for x in r] for r in M]


def gen_cases(rng: Rng, tier):
    n = dict(quick=190, thorough=2200)[tier]
    kinds = ["basis1", "basis1", "basis1", "basis2", "basis2", "tolong", "csv", "csv", "ps", "ps"]
    for k in range(n):
        kind = kinds[k % len(kinds)]
        if kind == "basis1":
            fam = FAMILIES[(k // len(kinds)) % len(FAMILIES)] if rng.random() < 0.7 else rng.choice(FAMILIES)
            K = rng.randint(1, 5)
            m = rng.randint(max(3, K + 1), 12)
            N = rng.choice([1, 2, 2, 3, 4, 5, 6, 7])
            if k % 40 == 11:
                # sizes just above powers of two / typical block sizes, everything else tiny
                N, K = rng.choice([33, 65, 129] if tier == "quick" else [33, 65, 129, 129, 201, 257]), rng.randint(1, 2)
                m = rng.randint(max(3, K + 1), 4)
            C, ck = _coef(rng, N, K)
            case = dict(kind=kind, lay=rng.choice(LAYOUTS), dtype=rng.choice(["float", "float", "float", "int"]), fam=fam, K=K, t=[rs(x) for x in _grid(rng, m, unit=(fam in ("wiener",)))],
                        C=_S(C), ck=ck, w0=rs(rng.choice(SCALES)),
                        degree=rng.randint(1, 3), stand=rng.random() < 0.3,
                        normalized=(rng.random() < 0.25 and m >= 5), intercept=rng.random() >= 0.2)
            if fam == "given":
                case["Phi"] = _S([rng.dyadics(m, -3, 3, 3) for _ in range(K)])
            yield case
        elif kind == "basis2":
            fams = (rng.choice(FAMILIES[:4] + ["given"]), rng.choice(FAMILIES[:4] + ["given"]))
            K1, K2 = rng.randint(1, 3), rng.randint(1, 3)
            if rng.random() < 0.25:
                m1 = m2 = rng.randint(max(3, K1 + 1, K2 + 1), 5)  # square grid (the unrepaired layout is coherent only here)
            else:
                m1, m2 = rng.randint(max(3, K1 + 1), 5), rng.randint(max(3, K2 + 1), 6)
            N = rng.choice([1, 2, 3, 4, 5])
            C, ck = _coef(rng, N, K1 * K2)
            case = dict(kind=kind, lay=rng.choice(LAYOUTS), fams=list(fams), K1=K1, K2=K2, t1=[rs(x) for x in _grid(rng, m1, True)],
                        t2=[rs(x) for x in _grid(rng, m2, True)], C=_S(C), ck=ck, degree=rng.randint(1, 2),
                        w0=rs(rng.choice(SCALES)))
            for d, (f, K_, m_) in enumerate(zip(fams, (K1, K2), (m1, m2))):
                if f == "given":
                    case[f"Phi{d + 1}"] = _S([rng.dyadics(m_, -3, 3, 2) for _ in range(K_)])
            yield case
        elif kind == "tolong":
            sub = rng.choice(["dense1", "dense2", "irr1", "irr2"])
            if sub == "dense1":
                big = rng.random() < 0.15
                yield dict(kind=kind, sub=sub, n=rng.randint(1, 6), shape=[rng.choice([257, 513, 700]) if big else rng.randint(1, 7)],
                           reindex=rng.random() < 0.5, lay=rng.choice(LAYOUTS), dtype=rng.choice(["float", "int", "float32"]))
            elif sub == "dense2":
                yield dict(kind=kind, sub=sub, n=rng.randint(1, 4), shape=[rng.randint(1, 4), rng.randint(1, 5)], reindex=False,
                           lay=rng.choice(LAYOUTS), dtype=rng.choice(["float", "int", "float32"]))
            else:
                nobs = rng.randint(1, 5)
                shapes, masks = [], []
                for _ in range(nobs):
                    sh = [rng.randint(1, 6)] if sub == "irr1" else [rng.randint(1, 3), rng.randint(1, 4)]
                    size = int(np.prod(sh))
                    mk = [1 if rng.random() < 0.7 else 0 for _ in range(size)]
                    if rng.random() < 0.3:
                        mk = [1] * size
                    if sum(mk) == 0:
                        mk[rng.randrange(size)] = 1
                    shapes.append(sh)
                    masks.append(mk)
                yield dict(kind=kind, sub=sub, shapes=shapes, masks=masks, reindex=rng.random() < 0.5,
                           labels=rng.choice(["range", "range", "gaps"]), lay=rng.choice(LAYOUTS))
        elif kind == "csv":
            ncol = rng.randint(1, 7)
            nrow = rng.randint(1, 6)
            hk = rng.choice(["int", "int", "int_unsorted", "neg_int", "float", "floatint", "quarter", "text", "mixed"])
            if hk == "int":
                hs = [str(x) for x in sorted(rng.sample(range(0, 40), ncol))]
            elif hk == "int_unsorted":
                hs = [str(x) for x in rng.sample(range(0, 400), ncol)]
            elif hk == "neg_int":
                hs = [str(x) for x in sorted(rng.sample(range(-20, 20), ncol))]
            elif hk == "float":
                hs = [f"{x}.5" for x in sorted(rng.sample(range(0, 40), ncol))]
            elif hk == "floatint":
                hs = [f"{x}.0" for x in sorted(rng.sample(range(1, 40), ncol))]  # numeric, integer-valued, not integer literals
            elif hk == "quarter":
                hs = [_dec(Fraction(x, 4)) for x in sorted(rng.sample(range(1, 60), ncol))]
                if all("." not in h for h in hs):
                    hs[0] = hs[0] + ".0"
            elif hk == "text":
                hs = [f"c{x}" for x in range(ncol)]
            else:
                hs = [str(x) for x in sorted(rng.sample(range(0, 40), ncol))]
                hs[rng.randrange(ncol)] = rng.choice(["t", "3.25", "day"])
            mk = rng.choice(["none", "none", "some", "some", "heavy"])
            cells = []
            for _ in range(nrow):
                row = []
                for _ in range(ncol):
                    v = rng.choice([rng.dyadic(-50, 50, 3), Fraction(rng.randint(-9, 9)), rng.dyadic(-2, 2, 6)])
                    row.append(rs(v))
                if mk != "none":
                    p = 0.25 if mk == "some" else 0.7
                    keep = rng.randrange(ncol)
                    row = [c if (j == keep or rng.random() > p) else "n" for j, c in enumerate(row)]
                cells.append(row)
            # pandas options forwarded through **kwargs: the file is RENDERED so that reading it with the option
            # yields exactly the table (headers, cells) above; the oracle and the model only see that table
            variant = rng.choice(["plain", "plain", "index_first", "index_first", "index_name", "index_last", "skiprows",
                                  "comment", "usecols", "decimal", "na_values", "header_none", "nrows"])
            if variant == "header_none":
                hs, hk = [str(j) for j in range(ncol)], "positions(header=None)"
            idk = rng.choice(["unique_text", "repeated_text", "repeated_int", "unsorted_int", "repeated_int"])
            if idk == "unique_text":
                ids = [f"s{j}" for j in range(nrow)]
            elif idk == "repeated_text":
                ids = [rng.choice(["a", "b"]) for _ in range(nrow)]
            elif idk == "repeated_int":
                ids = [str(rng.choice([3, 7])) for _ in range(nrow)]
            else:
                ids = [str(x) for x in rng.sample(range(100), nrow)]
            yield dict(kind=kind, headers=hs, hk=hk, cells=cells, sep=rng.choice([",", ",", ";", "\t"]), variant=variant, ids=ids, idk=idk,
                       junk=sorted(rng.sample(range(ncol + 1), rng.randint(1, 2))))
        elif kind == "ps":
            dim = 1 if rng.random() < 0.7 else 2
            if dim == 1:
                nseg, deg = rng.randint(1, 6), rng.randint(1, 3)
                defaults = rng.random() < 0.15
                if defaults:
                    nseg, deg = 10, 3  # the defaults of PSplines, not passed: 13 functions
                short = rng.random() < 0.3
                # short grids: fewer points than functions (the settings asked for must still be used)
                m = rng.randint(2, nseg + deg) if short else rng.randint(nseg + deg + 1, nseg + deg + 9)
                N = rng.randint(1, 4)
                sub = rng.choice(["rand", "inspace", "inspace", "smoothish"])
                pen = rng.choice([0, 0, Fraction(1, 2), 1, 4, Fraction(1, 2 ** 30), Fraction(2 ** 30), Fraction(1, 2 ** 40)]) if sub != "inspace" else 0
                case = dict(kind=kind, amp=rng.choice([0, 0, -40, -30, -20, 20, 40]), defaults=defaults, short=short, penspell=rng.choice(["tuple", "list", "int", "float", "np", "array"]), lay=rng.choice(LAYOUTS), dim=1, nseg=nseg, deg=deg, t=[rs(x) for x in _grid(rng, m)], N=N, sub=sub,
                            pen=rs(pen), Y=_S([rng.dyadics(m, -4, 4, 3) for _ in range(N)]),
                            G=_S([rng.dyadics(nseg + deg, -3, 3, 2) for _ in range(N)]), pts=rng.random() < 0.3)
                if rng.random() < 0.5:
                    # the same curves as IRREGULAR data (both encodings): to_basis∘to_grid vs smooth on the irregular class
                    mk = []
                    for _ in range(N):
                        r = [1 if rng.random() < 0.75 else 0 for _ in range(m)]
                        if rng.random() < 0.5:
                            r[0] = 0
                        while sum(r) < min(m, nseg + deg + 1):
                            r[rng.randrange(m)] = 1
                        mk.append(r)
                    for j in range(m):
                        if not any(r[j] for r in mk):
                            mk[rng.randrange(N)][j] = 1
                    case["irrmask"] = mk
            else:
                nseg, deg = rng.choice([1, 2, 3, 3, 6]), rng.randint(1, 2)
                m1 = rng.randint(nseg + deg + 1, nseg + deg + 4)
                m2 = rng.randint(nseg + deg + 1, nseg + deg + 5)
                if rng.random() < 0.3:
                    m2 = rng.randint(2, nseg + deg)  # short second axis (e.g. 12 x 7 with 6 segments)
                N = rng.randint(1, 2)
                sub = rng.choice(["rand", "inspace"])
                pen = rng.choice([0, 1, Fraction(1, 2)]) if sub != "inspace" else 0
                case = dict(kind=kind, amp=rng.choice([0, 0, -40, -30, 30]), penspell=rng.choice(["tuple", "list", "array", "mixed0", "mixed1"]), lay=rng.choice(LAYOUTS), dim=2, nseg=nseg, deg=deg, t1=[rs(x) for x in _grid(rng, m1)],
                            t2=[rs(x) for x in _grid(rng, m2)], N=N, sub=sub, pen=rs(pen),
                            Y=_S([rng.dyadics(m1 * m2, -4, 4, 3) for _ in range(N)]),
                            G=_S([rng.dyadics((nseg + deg) ** 2, -3, 3, 2) for _ in range(N)]))
            yield case


def search_cases(rng, tier):
    yield from gen_cases(rng, "quick")


W_UNCENTRED = dict(kind="basis1", fam="given", K=1, t=["0", "1"], C=[["1"]], ck="witness", w0="2", degree=1,
                   stand=False, Phi=[["1", "1"]])
W_RESCALE2D = dict(kind="basis2", fams=["given", "given"], K1=1, K2=1, t1=["0", "1", "2"], t2=["0", "1"],
                   C=[["1"], ["3"]], ck="witness", degree=1, w0="2", Phi1=[["1", "1", "1"]], Phi2=[["1", "2"]])


W_TOLONG = dict(kind="tolong", sub="irr1", shapes=[[2], [3]], masks=[[1, 1], [1, 0, 1]], reindex=False, labels="gaps")


def witness_cases():
    return [dict(W_UNCENTRED), dict(W_RESCALE2D), dict(W_TOLONG)]


# --------------------------------------------------------------------------
# implementation side
# --------------------------------------------------------------------------

def _Fv(v):
    return [F(x) for x in v]


def _Fm(m):
    return [[F(x) for x in r] for r in m]


def _lst(a):
    return np.asarray(a, dtype=float).tolist()


def _lay(a, how):
    """The same array in another memory layout (equal values, equal shape): Fortran order, a transposed
    buffer, a strided view of a larger buffer, a moveaxis view.  Methods must not depend on it."""
    a = np.array(a)
    if how == "F":
        return np.asfortranarray(a)
    if how == "T" and a.ndim >= 2:
        return np.ascontiguousarray(a.T).T
    if how == "strided" and a.ndim >= 1 and a.shape[-1] > 0:
        big = np.zeros(a.shape[:-1] + (2 * a.shape[-1],), dtype=a.dtype)
        big[..., ::2] = a
        return big[..., ::2]
    if how == "rolled" and a.ndim >= 2:
        return np.moveaxis(np.ascontiguousarray(np.moveaxis(a, 0, -1)), -1, 0)
    return a


def _try(out, key, fn):
    try:
        with warnings.catch_warnings():
            warnings.simplefilter("ignore")
            out[key] = fn()
    except ModuleNotFoundError:
        out[key] = "skip:cholesky-fallback"
    except Exception as e:  # the error class is an observable
        out[key] = "error:" + err_class(e)


def _marginal(fam, t, K, degree, given):
    from FDApy.representation.basis import _simulate_basis

    if fam == "given":
        return np.array(fl(_Fm(given)), dtype=float)
    kw = dict(degree=degree) if fam == "bsplines" else {}
    if fam == "bsplines":
        K = max(K, degree + 1)
    return np.asarray(_simulate_basis(fam, np.array(t, dtype=float), K, False, True, **kw), dtype=float)


def _exact(a):
    return [[rs(Fraction(float(x))) for x in r] for r in np.asarray(a, dtype=float).reshape(len(a), -1)]


KW_VALUES = dict(squared=True, method_integration="simpson", use_argvals_stand=True)
# Keywords the basis class HONOURS are compared across the two representations.  Keywords it documents as "Not used here"
# (use_argvals_stand in norm/normalize, the smoothing keywords of mean/center/covariance) or that ask the grid twin for
# another estimator (method_smoothing, a non-zero noise_variance in inner_product) are outside the property: for those
# the check is only that passing them changes nothing on the basis side.
KW_IGNORED = [("norm", dict(use_argvals_stand=True), {}), ("norm", dict(use_argvals_stand=True, squared=True), dict(squared=True)),
              ("norm", dict(use_argvals_stand=True, method_integration="simpson"), dict(method_integration="simpson")),
              ("normalize", dict(use_argvals_stand=True), {}), ("normalize", dict(use_argvals_stand=True, squared=True), dict(squared=True)),
              ("mean", dict(method_smoothing="PS"), {}), ("center", dict(method_smoothing="PS"), {}),
              ("covariance", dict(method_smoothing="LP"), {}), ("inner_product", dict(noise_variance=0.5), {}),
              ("inner_product", dict(method_smoothing="LP"), {})]


def _subsets(keys, upto=2):
    import itertools

    for r in range(0, min(upto, len(keys)) + 1):
        for ks in itertools.combinations(keys, r):
            yield ks


def _keyword_sweep(bf, g, N, w0, two):
    def val(r):
        if isinstance(r, tuple):
            return dict(w=float(r[1]), v=_lst(np.asarray(val(r[0])).reshape(N, -1)))
        if hasattr(r, "to_grid"):
            return np.asarray(r.to_grid().values, dtype=float).reshape(r.n_obs, -1).tolist()
        if hasattr(r, "values"):
            return np.asarray(r.values, dtype=float).reshape(len(r.values), -1).tolist()
        return np.asarray(r, dtype=float).tolist()

    calls = []
    for ks in _subsets(["squared", "method_integration"]):
        kw = {k: KW_VALUES[k] for k in ks}
        calls += [("norm", kw, None, None), ("normalize", kw, None, None)]
    for ks in _subsets(["method_integration", "use_argvals_stand"]):
        kw = {k: KW_VALUES[k] for k in ks}
        calls += [("rescale", kw, None, None), ("rescale", dict(kw, weights=w0), None, None)]
    calls += [("standardize", dict(center=False), None, None), ("standardize", dict(center=True), None, None)]
    # the Gram matrix of CENTRED data with another integration rule (grid twin: noise_variance=0, as the property observes it)
    calls += [("inner_product", dict(method_integration="simpson"), "center", dict(noise_variance=0))]
    res = []
    for meth, kw, pre, gextra in calls:
        row = dict(meth=meth, kw={k: (v if not isinstance(v, float) else float(v)) for k, v in kw.items()})
        for side, obj in (("b", bf), ("g", g)):
            try:
                with warnings.catch_warnings():
                    warnings.simplefilter("ignore")
                    o = getattr(obj, pre)() if (pre and side == "b") else obj
                    k2 = dict(kw)
                    if side == "g" and gextra:
                        k2.update(gextra)
                    row[side] = val(getattr(o, meth)(**k2))
            except ModuleNotFoundError:
                row[side] = "skip:cholesky-fallback"
            except Exception as e:
                row[side] = "error:" + err_class(e)
        res.append(row)
    # documented-ignored keywords: passing them must change nothing on the basis side
    for meth, kw, base in KW_IGNORED:
        row = dict(meth=meth, kw=dict(kw), mode="self")
        for side, k2 in (("b", kw), ("g", base)):
            try:
                with warnings.catch_warnings():
                    warnings.simplefilter("ignore")
                    row[side] = val(getattr(bf, meth)(**k2))
            except ModuleNotFoundError:
                row[side] = "skip:cholesky-fallback"
            except Exception as e:
                row[side] = "error:" + err_class(e)
        res.append(row)
    return res


def _run_basis(case):
    from FDApy.representation.argvals import DenseArgvals
    from FDApy.representation.basis import Basis
    from FDApy.representation.functional_data import BasisFunctionalData
    from FDApy.representation.values import DenseValues

    out = {}
    two = case["kind"] == "basis2"
    C = np.array(fl(_Fm(case["C"])), dtype=float)
    lay = case.get("lay", "C")
    if not two:
        t = np.array(fl(_Fv(case["t"])))
        arg = DenseArgvals({"input_dim_0": t})
        fam = case["fam"]
        if fam == "given":
            basis = Basis(name="given", argvals=arg, values=DenseValues(_marginal(fam, t, case["K"], 0, case.get("Phi"))))
        else:
            K = case["K"]
            kw = {}
            if fam == "bsplines":
                K = max(K, case["degree"] + 1)
                kw = dict(degree=case["degree"])
            basis = Basis(name=fam, n_functions=K, argvals=arg, is_normalized=bool(case.get("normalized", False)),
                          add_intercept=bool(case.get("intercept", True)), **kw)
        if basis.values.shape[0] != C.shape[1]:
            # bsplines need at least degree + 1 functions: pad the coefficients deterministically
            extra = basis.values.shape[0] - C.shape[1]
            C = np.hstack([C, np.tile(np.arange(1, extra + 1, dtype=float) / 4, (C.shape[0], 1))])
            out["C_used"] = [[rs(Fraction(float(x))) for x in r] for r in C]
    else:
        t1 = np.array(fl(_Fv(case["t1"])))
        t2 = np.array(fl(_Fv(case["t2"])))
        arg = DenseArgvals({"input_dim_0": t1, "input_dim_1": t2})
        f1, f2 = case["fams"]
        if "given" in (f1, f2):
            # explicit marginals: the tensor basis is formed as Basis.__init__ does
            A = _marginal(f1, t1, case["K1"], case["degree"], case.get("Phi1"))
            B = _marginal(f2, t2, case["K2"], case["degree"], case.get("Phi2"))
            vals = np.kron(A, B).reshape((A.shape[0] * B.shape[0], len(t1), len(t2)))
            basis = Basis(name="given", argvals=arg, values=DenseValues(vals))
        else:
            K1 = max(case["K1"], case["degree"] + 1) if f1 == "bsplines" else case["K1"]
            K2 = max(case["K2"], case["degree"] + 1) if f2 == "bsplines" else case["K2"]
            basis = Basis(name=(f1, f2), n_functions=(K1, K2), argvals=arg, degree=case["degree"])
            A = _marginal(f1, t1, K1, case["degree"], None)
            B = _marginal(f2, t2, K2, case["degree"], None)
        out["A"], out["B"] = _exact(A), _exact(B)
        Kt = basis.values.shape[0]
        if Kt != C.shape[1]:
            if Kt > C.shape[1]:
                C = np.hstack([C, np.tile(np.arange(1, Kt - C.shape[1] + 1, dtype=float) / 4, (C.shape[0], 1))])
            else:
                C = C[:, :Kt]
            out["C_used"] = [[rs(Fraction(float(x))) for x in r] for r in C]
    if not np.all(np.isfinite(basis.values)):
        # e.g. is_normalized=True where Simpson's rule on a coarse non-uniform grid gives a non-positive
        # squared norm (the basis families are C18's): nothing to compare
        return {"skipped": "non-finite basis values"}
    out["phi"] = _exact(basis.values)
    out["phi_shape"] = list(basis.values.shape)
    N = C.shape[0]
    if case.get("dtype") == "int" and np.all(C == np.round(C)) and np.abs(C).max() < 2 ** 52:
        C = C.astype(np.int64)
    C = _lay(C, lay)
    C0 = np.array(C, dtype=float, order="C", copy=True)
    if case.get("fam") == "given" or "given" in case.get("fams", []):
        basis.values = DenseValues(_lay(np.asarray(basis.values), lay))
    bf = BasisFunctionalData(basis, C)
    g = bf.to_grid()
    out["grid"] = _lst(g.values.reshape(N, -1))
    _try(out, "mean_b", lambda: _lst(bf.mean().to_grid().values.reshape(1, -1)))
    _try(out, "mean_g", lambda: _lst(g.mean().values.reshape(1, -1)))
    _try(out, "center_b", lambda: _lst(bf.center().to_grid().values.reshape(N, -1)))
    _try(out, "center_g", lambda: _lst(g.center().values.reshape(N, -1)))
    _try(out, "G", lambda: _lst(basis.inner_product()))
    _try(out, "ip_b", lambda: _lst(bf.inner_product()))
    _try(out, "ip_bc", lambda: _lst(bf.center().inner_product()))
    _try(out, "ip_g", lambda: _lst(g.inner_product(noise_variance=0)))
    _try(out, "nsq_b", lambda: _lst(bf.norm(squared=True)))
    _try(out, "n_b", lambda: _lst(bf.norm()))
    _try(out, "nsq_g", lambda: _lst(g.norm(squared=True)))
    _try(out, "n_g", lambda: _lst(g.norm()))
    _try(out, "normalize_b", lambda: _lst(bf.normalize().to_grid().values.reshape(N, -1)))
    _try(out, "normalize_g", lambda: _lst(g.normalize().values.reshape(N, -1)))
    w0 = float(F(case["w0"]))

    def resc(obj, **kw):
        r, w = obj.rescale(**kw)
        v = r.to_grid().values if hasattr(r, "to_grid") else r.values
        return dict(w=float(w), v=_lst(np.asarray(v).reshape(N, -1)))

    _try(out, "rescale_b", lambda: resc(bf))
    _try(out, "rescale_g", lambda: resc(g))
    _try(out, "rescale_w_b", lambda: resc(bf, weights=w0))
    _try(out, "rescale_w_g", lambda: resc(g, weights=w0))
    if case.get("stand"):
        _try(out, "rescale_s_b", lambda: resc(bf, use_argvals_stand=True))
        _try(out, "rescale_s_g", lambda: resc(g, use_argvals_stand=True))
    _try(out, "cov_b", lambda: _lst(np.asarray(bf.covariance().to_grid().values[0]).reshape(-1)))
    _try(out, "cov_b_shape", lambda: list(bf.covariance().basis.values.shape))
    _try(out, "cov_b_argvals", lambda: [np.asarray(v, dtype=float).tolist() for _, v in sorted(bf.covariance().to_grid().argvals.items())])
    out["grid_argvals"] = [np.asarray(v, dtype=float).tolist() for _, v in sorted(g.argvals.items())]
    if not two:
        _try(out, "cov_g", lambda: _lst(g.covariance().values[0].reshape(-1)))
    # non-default options: the same option on both routes
    _try(out, "nsq_b_simpson", lambda: _lst(bf.norm(squared=True, method_integration="simpson")))
    _try(out, "nsq_g_simpson", lambda: _lst(g.norm(squared=True, method_integration="simpson")))
    _try(out, "rescale_b_simpson", lambda: resc(bf, method_integration="simpson"))
    _try(out, "rescale_g_simpson", lambda: resc(g, method_integration="simpson"))
    # every keyword of every method compared across the two representations, with non-default values, singly and in
    # pairs: basis -> op -> to_grid must equal basis -> to_grid -> op (or both raise the same class)
    out["kw"] = _keyword_sweep(bf, g, N, w0, two)
    # history on ONE object: same call again after the calls above, then after replacing the coefficients
    _try(out, "nsq_b_again", lambda: _lst(bf.norm(squared=True)))
    _try(out, "ip_b_again", lambda: _lst(bf.inner_product()))
    _try(out, "mean_g_again", lambda: _lst(g.mean().values.reshape(1, -1)))
    out["coef_after"] = bool(np.array_equal(np.asarray(bf.coefficients, dtype=float), C0))
    C2 = C[::-1] * 2.0 + 1.0
    try:
        bf.coefficients = C2
        fresh = BasisFunctionalData(basis, C2.copy())
        _try(out, "hist_grid", lambda: _lst(bf.to_grid().values.reshape(N, -1)))
        _try(out, "hist_grid_fresh", lambda: _lst(fresh.to_grid().values.reshape(N, -1)))
        _try(out, "hist_nsq", lambda: _lst(bf.norm(squared=True)))
        _try(out, "hist_nsq_fresh", lambda: _lst(fresh.norm(squared=True)))
        _try(out, "hist_cov", lambda: _lst(np.asarray(bf.covariance().to_grid().values[0]).reshape(-1)))
        _try(out, "hist_cov_fresh", lambda: _lst(np.asarray(fresh.covariance().to_grid().values[0]).reshape(-1)))
        _try(out, "hist_nsq_g", lambda: _lst(bf.to_grid().norm(squared=True)))
    except Exception as e:
        out["hist_error"] = err_class(e)
    # standardisation last (on the unrepaired tree it overwrites the shared basis: C16's defect)
    bs = BasisFunctionalData(basis, C.copy())
    _try(out, "standardize_b", lambda: _lst(bs.standardize().to_grid().values.reshape(N, -1)))
    _try(out, "standardize_g", lambda: _lst(g.standardize().values.reshape(N, -1)))
    # the operations must not have changed the operand
    out["phi_after"] = bool(np.array_equal(basis.values.reshape(len(out["phi"]), -1),
                                           np.array([[float(F(x)) for x in r] for r in out["phi"]])))
    return out


def _run_tolong(case):
    from FDApy.representation.argvals import DenseArgvals, IrregularArgvals
    from FDApy.representation.functional_data import DenseFunctionalData, IrregularFunctionalData
    from FDApy.representation.values import DenseValues, IrregularValues

    out = {}
    sub = case["sub"]

    def axes(sh, off):
        # distinct abscissae per axis so that a point identifies its index
        return [np.array([off + 10 * d + 0.5 * j for j in range(s)]) for d, s in enumerate(sh)]

    def decode(df, axlist):
        rows = []
        cols = [c for c in df.columns if c.startswith("input_dim_")]
        for _, r in df.iterrows():
            pt = [int(np.flatnonzero(axlist[d] == r[c])[0]) for d, c in enumerate(cols)]
            rows.append([int(r["id"]), r["values"], pt])
        return rows

    if sub.startswith("dense"):
        n, sh = case["n"], case["shape"]
        ax = axes(sh, 0)
        dt = dict(float=float, int=np.int64, float32=np.float32).get(case.get("dtype", "float"), float)
        vals = _lay(np.arange(n * int(np.prod(sh)), dtype=dt).reshape((n, *sh)), case.get("lay", "C"))
        out["contiguous"] = bool(vals.flags["C_CONTIGUOUS"])
        try:
            fd = DenseFunctionalData(DenseArgvals({f"input_dim_{d}": a for d, a in enumerate(ax)}), DenseValues(vals))
            df = fd.to_long(reindex=case["reindex"])
            out["rows"] = [[i, int(v)] + pt for i, v, pt in decode(df, ax)]
            out["columns"] = list(df.columns)
        except Exception as e:
            out["error"] = err_class(e)
    else:
        shapes, masks = case["shapes"], case["masks"]
        labels = list(range(len(shapes)))
        if case.get("labels") == "gaps":
            labels = [3 * i + 1 for i in labels]
        av, vv = {}, {}
        for lab, sh, mk in zip(labels, shapes, masks):
            ax = axes(sh, 0)
            v = _lay(np.array([float(p) if b else np.nan for p, b in enumerate(mk)]).reshape(sh), case.get("lay", "C"))
            av[lab] = DenseArgvals({f"input_dim_{d}": a for d, a in enumerate(ax)})
            vv[lab] = v
        try:
            fd = IrregularFunctionalData(IrregularArgvals(av), IrregularValues(vv))
            df = fd.to_long(reindex=case["reindex"])
            mx = [max(sh[d] for sh in shapes) for d in range(len(shapes[0]))]
            axall = axes(mx, 0)
            out["rows"] = [[i, int(v)] + pt for i, v, pt in decode(df, axall)]
            out["labels"] = labels
            out["has_nan"] = bool(df.isna().values.any())
        except Exception as e:
            out["error"] = err_class(e)
    return out


def _dec(q: Fraction) -> str:
    """Decimal literal of a dyadic rational (exact)."""
    if q.denominator == 1:
        return str(q.numerator)
    k = q.denominator.bit_length() - 1
    s = f"{abs(q.numerator) * 5 ** k:0{k + 1}d}"
    return ("-" if q < 0 else "") + s[:-k] + "." + s[-k:]


def _run_csv(case):
    from FDApy.misc.loader import read_csv
    from FDApy.representation.functional_data import DenseFunctionalData, IrregularFunctionalData

    out = {}
    d = tempfile.mkdtemp(prefix="verif_c14_")
    try:
        path = os.path.join(d, "data.csv")
        sep = case.get("sep", ",")
        variant = case.get("variant", "plain")
        kw = {} if sep == "," else dict(sep=sep)
        if variant == "decimal":
            sep, kw = ";", dict(sep=";", decimal=",")
        num = (lambda q: _dec(q).replace(".", ",")) if variant == "decimal" else _dec
        miss = "-999" if variant == "na_values" else ""
        head = list(case["headers"])
        body = [[miss if c == "n" else num(F(c)) for c in row] for row in case["cells"]]
        ids = case.get("ids", [])
        if variant in ("index_first", "index_name"):
            head, body = ["id"] + head, [[i] + r for i, r in zip(ids, body)]
            kw["index_col"] = 0 if variant == "index_first" else "id"
        elif variant == "index_last":
            head, body = head + ["id"], [r + [i] for i, r in zip(ids, body)]
            kw["index_col"] = len(head) - 1
        elif variant == "usecols":
            keep = []
            nh, nb = [], [[] for _ in body]
            for j in range(len(head) + 1):
                if j in case.get("junk", []):
                    nh.append(f"zz{j}")
                    for r in nb:
                        r.append("77")
                if j < len(head):
                    keep.append(len(nh))
                    nh.append(head[j])
                    for r, r0 in zip(nb, body):
                        r.append(r0[j])
            head, body, kw["usecols"] = nh, nb, keep
        elif variant == "na_values":
            kw["na_values"] = [-999]
        lines = [] if variant == "header_none" else [sep.join(head)]
        lines += [sep.join(r) for r in body]
        if variant == "header_none":
            kw["header"] = None
        if variant == "skiprows":
            lines = ["exported by the lab", "second line; with, separators"] + lines
            kw["skiprows"] = 2
        if variant == "comment":
            lines = ["# a comment line"] + lines[:1] + ["# another one"] + lines[1:]
            kw["comment"] = "#"
        if variant == "nrows":
            lines += [sep.join(["1"] * len(head)), sep.join(["2"] * len(head))]
            kw["nrows"] = len(body)
        with open(path, "w") as fh:
            fh.write("\n".join(lines) + "\n")
        out["kwargs"] = repr(kw)
        try:
            with warnings.catch_warnings():
                warnings.simplefilter("ignore")
                fd = read_csv(path, **kw)  # keywords forwarded to pandas
            if isinstance(fd, DenseFunctionalData):
                out["cls"] = "dense"
                out["args"] = [float(x) for x in fd.argvals["input_dim_0"]]
                out["args_int"] = bool(np.issubdtype(np.asarray(fd.argvals["input_dim_0"]).dtype, np.integer))
                out["vals"] = _lst(fd.values)
            elif isinstance(fd, IrregularFunctionalData):
                out["cls"] = "irregular"
                out["rows"] = [[[float(x), float(y)] for x, y in zip(fd.argvals[i]["input_dim_0"], fd.values[i])]
                               for i in fd.argvals.keys()]  # observations in the order the object lists them (= file order)
                out["labels"] = [int(i) if isinstance(i, (int, np.integer)) else str(i) for i in fd.argvals.keys()]
            else:
                out["cls"] = type(fd).__name__
        except Exception as e:
            out["error"] = err_class(e)
    finally:
        shutil.rmtree(d, ignore_errors=True)
    return out


def _spell(pen, dim, how):
    """The same penalty in every spelling the entry points accept (a zero penalty is falsy in some of them)."""
    p = float(pen)
    if dim == 1:
        if how == "int" and p == int(p):
            return int(p)
        if how == "float":
            return p
        if how == "np":
            return np.float64(p)
        if how == "list":
            return [p]
        if how == "array":
            return np.array([p])
        return (p,)
    if how == "list":
        return [p, p]
    if how == "array":
        return np.array([p, p])
    if how == "mixed0":
        return (0, p)
    if how == "mixed1":
        return (p, 0.0)
    return (p, p)


def _run_ps(case):
    from FDApy.misc.basis import _basis_bsplines
    from FDApy.representation.argvals import DenseArgvals
    from FDApy.representation.functional_data import DenseFunctionalData
    from FDApy.representation.values import DenseValues

    out = {}
    nseg, deg = case["nseg"], case["deg"]
    K = nseg + deg
    pen = float(F(case["pen"]))
    amp = 2.0 ** int(case.get("amp", 0))  # the curves are scaled by an exact power of two
    out["amp"] = amp
    if case["dim"] == 1:
        t = np.array(fl(_Fv(case["t"])))
        B = _basis_bsplines(t, K, deg)
        if case["sub"] == "inspace":
            Gm = np.array(fl(_Fm(case["G"])))
            Y = Gm @ B
            out["gamma"] = Gm.tolist()
        else:
            Y = np.array(fl(_Fm(case["Y"])))
            if case["sub"] == "smoothish":
                Y = np.cumsum(Y, axis=1) / 4
        Y0 = Y
        Y = Y * amp
        fd = DenseFunctionalData(DenseArgvals({"input_dim_0": t}), DenseValues(_lay(Y, case.get("lay", "C"))))
        fd0 = DenseFunctionalData(DenseArgvals({"input_dim_0": t}), DenseValues(Y0.copy()))
        penalty = _spell(pen, 1, case.get("penspell", "tuple"))
        canon = (pen,)
        out["rank"] = int(np.linalg.matrix_rank(B))
        out["cond"] = float(np.linalg.cond(B @ B.T)) if pen == 0 else 0.0
    else:
        t1 = np.array(fl(_Fv(case["t1"])))
        t2 = np.array(fl(_Fv(case["t2"])))
        B1, B2 = _basis_bsplines(t1, K, deg), _basis_bsplines(t2, K, deg)
        if case["sub"] == "inspace":
            Gm = np.array(fl(_Fm(case["G"])))
            Y = np.einsum("nkl,ka,lb->nab", Gm.reshape(-1, K, K), B1, B2)
            out["gamma"] = Gm.tolist()
        else:
            Y = np.array(fl(_Fm(case["Y"]))).reshape(-1, len(t1), len(t2))
        Y0 = Y
        Y = Y * amp
        fd = DenseFunctionalData(DenseArgvals({"input_dim_0": t1, "input_dim_1": t2}), DenseValues(_lay(Y, case.get("lay", "C"))))
        fd0 = DenseFunctionalData(DenseArgvals({"input_dim_0": t1, "input_dim_1": t2}), DenseValues(Y0.copy()))
        penalty = _spell(pen, 2, case.get("penspell", "tuple"))
        canon = tuple(float(x) for x in penalty)
        out["rank"] = int(min(np.linalg.matrix_rank(B1), np.linalg.matrix_rank(B2)))
        BB = np.kron(B1, B2)
        out["cond"] = float(np.linalg.cond(BB @ BB.T)) if pen == 0 else 0.0
    out["K"] = K
    out["Y"] = Y.reshape(len(Y), -1).tolist()
    if "gamma" in out:
        out["gamma"] = (np.array(out["gamma"]) * amp).tolist()
    if case.get("irrmask") and case["dim"] == 1:
        from FDApy.representation.argvals import IrregularArgvals
        from FDApy.representation.functional_data import IrregularFunctionalData
        from FDApy.representation.values import IrregularValues

        Mb = np.array(case["irrmask"], dtype=bool)
        enc = {
            "nan": IrregularFunctionalData(IrregularArgvals({i: DenseArgvals({"input_dim_0": t.copy()}) for i in range(len(Y))}),
                                           IrregularValues({i: np.where(Mb[i], Y[i], np.nan) for i in range(len(Y))})),
            "rag": IrregularFunctionalData(IrregularArgvals({i: DenseArgvals({"input_dim_0": t[Mb[i]].copy()}) for i in range(len(Y))}),
                                           IrregularValues({i: Y[i][Mb[i]].copy() for i in range(len(Y))})),
        }
        out["irr"] = {}
        for key, fi in enc.items():
            with warnings.catch_warnings():
                warnings.simplefilter("ignore")
                try:
                    bi = fi.to_basis(penalty=penalty, n_segments=nseg, degree=deg)
                    out["irr"][key] = dict(tb=bi.to_grid().values.tolist(), sm=fi.smooth(method="PS", penalty=penalty, n_segments=nseg, degree=deg).values.tolist(),
                                           coefs=bi.coefficients.tolist())
                except Exception as e:
                    out["irr"][key] = "error:" + err_class(e)
    kw = {} if case.get("defaults") else dict(n_segments=nseg, degree=deg)
    with warnings.catch_warnings():
        warnings.simplefilter("ignore")
        try:
            bf = fd.to_basis(penalty=penalty, **kw)
            out["coefs"] = bf.coefficients.tolist()
            out["basis_shape"] = list(bf.basis.values.shape)
            out["tb_grid"] = bf.to_grid().values.reshape(len(Y), -1).tolist()
            sm = fd.smooth(method="PS", penalty=penalty, **kw)
            out["smooth"] = sm.values.reshape(len(Y), -1).tolist()
            # the same penalty in its canonical spelling (a tuple of floats)
            out["smooth_canon"] = fd.smooth(method="PS", penalty=canon, **kw).values.reshape(len(Y), -1).tolist()
            out["coefs_canon"] = fd.to_basis(penalty=canon, **kw).coefficients.tolist()
            out["pen_used"] = repr(penalty)
            if amp != 1.0:
                # the unchanged tree is scale-equivariant: op(a·X) == a·op(X) for a power of two
                out["smooth_base"] = fd0.smooth(method="PS", penalty=penalty, **kw).values.reshape(len(Y), -1).tolist()
                out["coefs_base"] = fd0.to_basis(penalty=penalty, **kw).coefficients.tolist()
            out["pen_all_zero"] = bool(all(float(x) == 0 for x in np.atleast_1d(np.asarray(penalty, dtype=float))))
            out["same_argvals"] = bool(bf.to_grid().argvals == fd.argvals)
        except Exception as e:
            out["error"] = err_class(e) + ":" + str(e)[:120]
    return out


def run_impl(case):
    kind = case["kind"]
    if kind in ("basis1", "basis2"):
        return _run_basis(case)
    if kind == "tolong":
        return _run_tolong(case)
    if kind == "csv":
        return _run_csv(case)
    if kind == "ps":
        return _run_ps(case)
    return {}


# --------------------------------------------------------------------------
# model side
# --------------------------------------------------------------------------

def _M(m):
    return ";".join(",".join(r) for r in m) if m else "-"


def model_lines(case, impl):
    kind = case["kind"]
    if "__crash__" in impl or "skipped" in impl:
        return []
    if kind == "basis1":
        t = ",".join(case["t"])
        P = _M(impl["phi"])
        C = _M(impl.get("C_used", case["C"]))
        return [f"togrid {P} {C}", f"meanb {P} {C}", f"centerb {P} {C}", f"gramb {t} {P}",
                f"innerb {t} {P} {C} 0", f"innerb {t} {P} {C} 1", f"gramd {t} {P} {C}", f"normd {t} {P} {C}",
                f"covb {P} {C}", f"covd {P} {C}", f"weights {t} {P} {C}"]
    if kind == "basis2":
        t1, t2 = ",".join(case["t1"]), ",".join(case["t2"])
        P = _M(impl["phi"])
        C = _M(impl.get("C_used", case["C"]))
        m1, m2 = len(case["t1"]), len(case["t2"])
        return [f"kron {_M(impl['A'])} {_M(impl['B'])}", f"togrid {P} {C}", f"meanb {P} {C}", f"centerb {P} {C}",
                f"innerb2 {t1} {t2} {P} {C} 0", f"innerb2 {t1} {t2} {P} {C} 1", f"gramd2 {t1} {t2} {P} {C}",
                f"cov2 {m1} {m2} {P} {C} new", f"cov2 {m1} {m2} {P} {C} spec", f"cov2 {m1} {m2} {P} {C} old",
                f"weight2 {t1} {t2} {P} {C}"]
    if kind == "tolong":
        if case["sub"].startswith("dense"):
            return [f"tolong {case['n']} {','.join(str(s) for s in case['shape'])}"]
        sh = ";".join(",".join(str(s) for s in x) for x in case["shapes"])
        mk = ";".join(",".join(str(b) for b in x) for x in case["masks"])
        return [f"tolongirr {sh} {mk}"]
    if kind == "csv":
        hs = ",".join(h if _is_int(h) else "x" for h in case["headers"])
        return [f"csv {hs} {_M(case['cells'])}"]
    return []


def _is_int(h):
    try:
        int(h)
        return "." not in h and "_" not in h and h.strip() == h
    except ValueError:
        return False


def parse_model(case, outs):
    return dict(outs=outs)


def _scale(*arrs):
    s = 1.0
    for a in arrs:
        a = np.asarray(a, dtype=float)
        if a.size:
            s = max(s, float(np.nanmax(np.abs(a))))
    return s


def _cmp_mat(name, impl_val, q, scale, rtol=1e-9):
    """impl value (nested list) vs exact matrix string."""
    if isinstance(impl_val, str):
        return [f"{name}: implementation gave {impl_val}, model {q[:40]}"] if not impl_val.startswith("skip:") else []
    if q.startswith("error") or q in ("bad", "bad-op"):
        return [f"{name}: model answered {q}"]
    Q = [x for r in pmat(q) for x in r]
    f = np.asarray(impl_val, dtype=float).reshape(-1).tolist()
    if len(f) != len(Q):
        return [f"{name}: size {len(f)} vs model {len(Q)}"]
    for i, (a, b) in enumerate(zip(f, Q)):
        if not close(a, b, scale, rtol):
            return [f"{name}[{i}]: impl {a!r} vs exact {float(b)!r} (scale {scale:.3g})"]
    return []


def compare(case, impl, model):
    if "__crash__" in impl:
        return [f"implementation crashed: {impl['__crash__']} {impl.get('msg')}"]
    kind = case["kind"]
    o = model["outs"]
    ds = []
    if kind in ("basis1", "basis2"):
        C = np.array([[float(F(x)) for x in r] for r in impl.get("C_used", case["C"])])
        P = np.array([[float(F(x)) for x in r] for r in impl["phi"]])
        # scales conditioned on the data: `lin` = size of the evaluated curves, `linc` = size of the CENTRED
        # curves; with δ = 512·eps·lin (what two-pass centring in floats can lose) a centred value is accepted
        # within rtol·linc + δ and a centred product within rtol·linc² + 2·linc·δ + δ², never relative to lin²
        tiny = 1e-150
        lin = max(tiny, float(np.abs(C).sum(axis=1).max()) * float(np.abs(P).max()))
        Cc = C - C.mean(axis=0)
        linc = max(tiny, float(np.abs(Cc).sum(axis=1).max()) * float(np.abs(P).max()))
        dlt = 512 * 2.3e-16 * lin                   # what centring in floats can lose on a value of size lin
        cen1 = linc + dlt / 1e-8                    # centred, linear
        cen2 = linc * linc + (2 * linc * dlt + dlt * dlt) / 1e-8   # centred, quadratic (covariances)
        if kind == "basis1":
            t = np.array(fl(_Fv(case["t"])))
            span = max(float(t[-1] - t[0]), tiny)
            quad = lin * lin * span
            gs = max(tiny, float(np.abs(P).max()) ** 2 * span)
            ds += _cmp_mat("to_grid", impl["grid"], o[0], lin)
            ds += _cmp_mat("mean (coefficient route)", impl["mean_b"], o[1], lin)
            ds += _cmp_mat("center (coefficient route)", impl["center_b"], o[2], cen1, 1e-8)
            ds += _cmp_mat("mean (grid route)", impl["mean_g"], o[1], lin)
            ds += _cmp_mat("center (grid route)", impl["center_g"], o[2], cen1, 1e-8)
            ds += _cmp_mat("Basis.inner_product", impl["G"], o[3], gs)
            if not isinstance(impl["ip_b"], str):
                d0 = _cmp_mat("inner_product (coefficient route)", impl["ip_b"], o[4], quad, 1e-8)
                if d0 and not _cmp_mat("ip", impl["ip_b"], o[5], quad, 1e-8):
                    d0 = []  # the code centres (proposed repair applied): accepted, the oracle decides
                ds += d0
                ds += _cmp_mat("inner_product of centred coefficients", impl["ip_bc"], o[5], cen2 * span, 1e-8)
                diag = ";".join(r.split(",")[i] for i, r in enumerate(o[4].split(";")))
                ds += _cmp_mat("norm² (coefficient route)", impl["nsq_b"], diag.replace(";", ","), quad, 1e-8)
            ds += _cmp_mat("inner_product (grid route)", impl["ip_g"], o[6], cen2 * span, 1e-8)
            ds += _cmp_mat("norm² (grid route)", impl["nsq_g"], o[7], quad)
            N = len(C)
            ds += _cmp_mat("covariance (coefficient route)", impl["cov_b"], o[8], cen2, 1e-8)
            if N >= 2:
                ds += _cmp_mat("covariance (grid route)", impl["cov_g"], o[9], cen2, 1e-8)
            wb, wg, pv = o[10].split(" ")
            if isinstance(impl["rescale_b"], dict):
                if not close(impl["rescale_b"]["w"], F(wb), cen2 * span, 1e-8):
                    ds.append(f"rescale weight (coefficient route): impl {impl['rescale_b']['w']!r} vs exact {float(F(wb))!r}")
            else:
                ds.append(f"rescale (coefficient route): {impl['rescale_b']}")
            if isinstance(impl["rescale_g"], dict):
                if not close(impl["rescale_g"]["w"], F(wg), cen2 * span, 1e-8):
                    ds.append(f"rescale weight (grid route): impl {impl['rescale_g']['w']!r} vs exact {float(F(wg))!r}")
        else:
            t1, t2 = np.array(fl(_Fv(case["t1"]))), np.array(fl(_Fv(case["t2"])))
            span = max(float((t1[-1] - t1[0]) * (t2[-1] - t2[0])), tiny)
            quad = lin * lin * span
            gs = max(tiny, float(np.abs(P).max()) ** 2 * span)
            ds += _cmp_mat("tensor basis (np.kron + reshape)", impl["phi"] and [[float(F(x)) for x in r] for r in impl["phi"]], o[0], max(tiny, float(np.abs(P).max())))
            ds += _cmp_mat("to_grid", impl["grid"], o[1], lin)
            ds += _cmp_mat("mean (coefficient route)", impl["mean_b"], o[2], lin)
            ds += _cmp_mat("center (coefficient route)", impl["center_b"], o[3], cen1, 1e-8)
            ds += _cmp_mat("mean (grid route)", impl["mean_g"], o[2], lin)
            ds += _cmp_mat("center (grid route)", impl["center_g"], o[3], cen1, 1e-8)
            G0, ip0 = o[4].split(" ")
            _, ip1 = o[5].split(" ")
            ds += _cmp_mat("Basis.inner_product", impl["G"], G0, gs)
            if not isinstance(impl["ip_b"], str):
                d0 = _cmp_mat("inner_product (coefficient route)", impl["ip_b"], ip0, quad, 1e-8)
                if d0 and not _cmp_mat("ip", impl["ip_b"], ip1, quad, 1e-8):
                    d0 = []
                ds += d0
                ds += _cmp_mat("inner_product of centred coefficients", impl["ip_bc"], ip1, cen2 * span, 1e-8)
            nsq, gd = o[6].split(" ")
            ds += _cmp_mat("norm² (grid route)", impl["nsq_g"], nsq, quad)
            ds += _cmp_mat("inner_product (grid route)", impl["ip_g"], gd, cen2 * span, 1e-8)
            m1, m2 = len(t1), len(t2)
            if isinstance(impl["cov_b"], str):
                # the unrepaired layout: incoherent with the argvals unless the grid is square
                if not (o[9].startswith("error") and impl["cov_b"] == o[9]):
                    ds.append(f"2-D covariance: implementation {impl['cov_b']}, model (repaired layout) has a value")
            else:
                d_new = _cmp_mat("2-D covariance layout", impl["cov_b"], o[7], cen2, 1e-8)
                if d_new and not o[9].startswith("error") and not _cmp_mat("c", impl["cov_b"], o[9], cen2, 1e-8):
                    d_new = []  # square grid: old and new layouts coincide
                ds += d_new
            if o[7] != o[8]:
                ds.append("model: covBasisGrid2 differs from covGrid2Spec on this input (theorem cov2_commutes broken?)")
            if isinstance(impl["rescale_b"], dict):
                if not close(impl["rescale_b"]["w"], F(o[10]), cen2 * span, 1e-8):
                    ds.append(f"2-D rescale weight: impl {impl['rescale_b']['w']!r} vs exact {float(F(o[10]))!r}")
            if isinstance(impl["rescale_g"], dict):
                if not close(impl["rescale_g"]["w"], F(o[10]), cen2 * span, 1e-8):
                    ds.append(f"2-D rescale weight (grid route): impl {impl['rescale_g']['w']!r} vs exact {float(F(o[10]))!r}")
    elif kind == "tolong":
        if "error" in impl:
            return [f"to_long raised {impl['error']}"]
        rows = [] if o[0] == "-" else [[int(x) for x in r.split(",")] for r in o[0].split(";")]
        got = impl["rows"]
        if case["sub"].startswith("irr"):
            labels = impl["labels"]
            lrows = [[(r[0] if case["reindex"] else labels[r[0]])] + r[1:] for r in rows]
            # the tree with the label-agnostic iterator lists positions even with reindex=False
            # (the oracle reports that: finding C14-to_long-ids-are-positions); both are compared here
            rows = lrows if lrows == got else rows
        if rows != got:
            k = next((i for i, (a, b) in enumerate(zip(rows, got)) if a != b), min(len(rows), len(got)))
            ds.append(f"long table differs at row {k}: model {rows[k:k+1]} impl {got[k:k+1]} (lengths {len(rows)}/{len(got)})")
    elif kind == "csv":
        if "error" in impl:
            return [f"read_csv raised {impl['error']}"]
        parts = o[0].split(" ")
        if parts[0] != impl.get("cls"):
            return [f"class: model {parts[0]} impl {impl.get('cls')}"]
        if parts[0] == "dense":
            a = [] if parts[1] == "-" else [int(x) for x in parts[1].split(",")]
            if [float(x) for x in a] != impl["args"]:
                ds.append(f"abscissae: model {a} impl {impl['args']}")
            ds += _cmp_mat("values", impl["vals"], parts[2], 1.0, 1e-15)
        else:
            rows = []
            for p in parts[1:]:
                rows.append([] if p == "-" else [[float(int(c.split(":")[0])), float(F(c.split(":")[1]))] for c in p.split(",")])
            if rows != impl["rows"]:
                ds.append(f"irregular rows: model {rows} impl {impl['rows']}")
    return ds


# --------------------------------------------------------------------------
# the property's own predicate, evaluated on the implementation
# --------------------------------------------------------------------------

def _near(a, b, scale, tol=1e-8):
    a = np.asarray(a, dtype=float)
    b = np.asarray(b, dtype=float)
    if a.shape != b.shape:
        return False
    if not (np.all(np.isfinite(a)) and np.all(np.isfinite(b))):
        return False
    return bool(np.all(np.abs(a - b) <= tol * scale))


def _oracle_basis(case, impl):
    vs = []
    two = case["kind"] == "basis2"
    C = np.array([[float(F(x)) for x in r] for r in impl.get("C_used", case["C"])])
    N = len(C)
    X = np.array(impl["grid"])
    tiny = 1e-150
    lin = max(tiny, float(np.abs(X).max()) if X.size else tiny)
    Xc0 = X - X.mean(axis=0) if X.size else X
    linc = max(tiny, float(np.abs(Xc0).max()) if X.size else tiny)
    dlt = 512 * 2.3e-16 * lin
    cen1 = linc + dlt / 1e-8                 # centred, linear (see compare)
    cen2 = linc * linc + (2 * linc * dlt + dlt * dlt) / 1e-8   # centred, quadratic
    dims = "2-D" if two else "1-D"

    def bad(clause, entry, msg, causes=()):
        vs.append(dict(clause=clause, entry=entry, msg=f"[{dims}] {msg}", causes=list(causes)))

    def pair(clause, kb, kg, scale, entry, post=lambda x: x, tol=1e-8):
        b, g = impl.get(kb), impl.get(kg)
        if isinstance(b, str) and b.startswith("skip:"):
            return
        if isinstance(b, str) or isinstance(g, str):
            if isinstance(b, str) and isinstance(g, str):
                return  # both reject (e.g. a single observation)
            causes = []
            if two and isinstance(b, str) and b == "error:ValueError" and clause in ("rescale", "standardize"):
                causes.append("diag_of_4d_array")
            bad(clause, entry, f"{kb} = {str(b)[:60]} but {kg} = {str(g)[:60]}", causes)
            return
        if not _near(post(b), post(g), scale, tol):
            bad(clause, entry, f"{kb} differs from {kg}: max |Δ| = {np.nanmax(np.abs(np.asarray(post(b), dtype=float) - np.asarray(post(g), dtype=float))):.3g} (scale {scale:.3g})")

    if not impl.get("coef_after", True) or not impl.get("phi_after", True):
        bad("unchanged", "BasisFunctionalData.*", "a method changed the coefficients or the basis of its operand")
    pair("mean", "mean_b", "mean_g", lin, "BasisFunctionalData.mean")
    pair("center", "center_b", "center_g", cen1, "BasisFunctionalData.center")
    nsq = impl.get("nsq_g")
    quad = max(tiny, float(np.max(np.abs(nsq)))) if not isinstance(nsq, str) and len(nsq) else 1.0
    cq = cen2 * quad / (lin * lin)           # centred quadratic, integrated (Gram matrices, weights)
    pair("norm", "nsq_b", "nsq_g", quad, "BasisFunctionalData.norm")
    pair("norm", "n_b", "n_g", math.sqrt(quad), "BasisFunctionalData.norm")
    zero_norm = (not isinstance(nsq, str)) and any(x <= 1e-300 for x in nsq)
    if not zero_norm:
        pair("normalize", "normalize_b", "normalize_g", lin / math.sqrt(min(nsq)), "BasisFunctionalData.normalize", tol=1e-7)
    pair("norm_simpson", "nsq_b_simpson", "nsq_g_simpson", quad, "BasisFunctionalData.norm", tol=1e-7)
    for kb, kf in (("nsq_b_again", "nsq_b"), ("ip_b_again", "ip_b"), ("mean_g_again", "mean_g"),
                   ("hist_grid", "hist_grid_fresh"), ("hist_nsq", "hist_nsq_fresh"), ("hist_cov", "hist_cov_fresh"),
                   ("hist_nsq", "hist_nsq_g")):
        if kb in impl and kf in impl:
            a, b_ = impl[kb], impl[kf]
            if isinstance(a, str) or isinstance(b_, str):
                if (isinstance(a, str) != isinstance(b_, str)) and not str(a).startswith("skip:") and not str(b_).startswith("skip:"):
                    bad("history", "BasisFunctionalData.*", f"{kb} = {str(a)[:40]} but {kf} = {str(b_)[:40]}")
            elif not _near(a, b_, _scale(a, b_), 1e-7):
                bad("history", "BasisFunctionalData.*", f"{kb} differs from {kf}: a repeated / later call on the same object does not match a fresh computation")
    if "hist_error" in impl:
        bad("history", "BasisFunctionalData.*", f"history raised {impl['hist_error']}")
    for row in impl.get("kw") or []:
        meth, kw, b, g = row["meth"], row["kw"], row.get("b"), row.get("g")
        causes = []
        if two and meth in ("rescale", "standardize") and b == "error:ValueError":
            causes.append("diag_of_4d_array")
        entry = "BasisFunctionalData." + meth
        if row.get("mode") == "self":
            # same object, same method, with and without a keyword the class documents as unused
            if isinstance(b, str) or isinstance(g, str):
                if b != g and not str(b).startswith("skip:"):
                    bad("ignored_keywords", entry, f"{meth}({kw}) gives {str(b)[:40]} but without the unused keyword {str(g)[:40]}")
            else:
                B_, G_ = np.asarray(b, dtype=float), np.asarray(g, dtype=float)
                same = B_.shape == G_.shape and bool(np.all((np.abs(B_ - G_) <= 1e-12 * np.maximum(np.abs(G_), 1e-300)) | (~np.isfinite(B_) & ~np.isfinite(G_))))
                if not same:
                    bad("ignored_keywords", entry, f"{meth}({kw}): a keyword documented as not used changes the result on the basis side")
            continue
        if isinstance(b, str) and b.startswith("skip:"):
            continue
        if isinstance(b, str) or isinstance(g, str):
            if b != g:
                bad("keywords", entry, f"{meth}({kw}): coefficient route {str(b)[:40]}, grid route {str(g)[:40]}", causes)
            continue
        if meth == "rescale":
            given = "weights" in kw
            wtol = 1e-12 * abs(g["w"]) if given else 1e-8 * (abs(g["w"]) + cq)
            if not (math.isfinite(b["w"]) and math.isfinite(g["w"])):
                continue
            if abs(b["w"] - g["w"]) > wtol:
                bad("keywords", entry, f"rescale({kw}): weight {b['w']!r} from the coefficients, {g['w']!r} from the curves", causes)
            elif g["w"] > 1e-6 * cq and not _near(b["v"], g["v"], lin / math.sqrt(g["w"]), 1e-7):
                bad("keywords", entry, f"rescale({kw}): rescaled curves differ between the two routes", causes)
            continue
        B_, G_ = np.asarray(b, dtype=float), np.asarray(g, dtype=float)
        if B_.shape != G_.shape:
            bad("keywords", entry, f"{meth}({kw}): shapes {B_.shape} vs {G_.shape}", causes)
            continue
        if meth in ("normalize",) and zero_norm:
            continue
        if meth == "standardize":
            if N < 2:
                continue
            sd = X.std(axis=0)
            ok = sd > max(1e-6 * linc, 1e-9 * lin)
            if not ok.any():
                continue
            B_, G_ = B_[:, ok], G_[:, ok]
            sc_, tol_ = (math.sqrt(N) + 1.0) * (1.0 + 1e-6 * lin / sd[ok].min()), 1e-6
        elif meth == "inner_product":
            sc_, tol_ = cq, 1e-8
        elif meth in ("mean",):
            sc_, tol_ = lin, 1e-8
        elif meth in ("center",):
            sc_, tol_ = cen1, 1e-8
        else:
            fin = np.isfinite(G_)
            sc_, tol_ = (float(np.abs(G_[fin]).max()) if fin.any() else 1.0), 1e-7
            both = ~np.isfinite(B_) & ~np.isfinite(G_)
            B_, G_ = B_[~both], G_[~both]
        if not _near(B_, G_, max(sc_, 1e-300), tol_):
            d_ = float(np.nanmax(np.abs(B_ - G_))) if B_.size else float("nan")
            bad("keywords", entry, f"{meth}({kw}): coefficient route then to_grid differs from to_grid then {meth}: max |Δ| = {d_:.3g}", causes)
    # inner products: coefficient route vs grid route (centred Gram matrix, no noise correction)
    b, g = impl.get("ip_b"), impl.get("ip_g")
    if not isinstance(b, str) and not isinstance(g, str):
        if not _near(b, g, cq):
            mean_curve = X.mean(axis=0)
            causes = ["uncentred"] if np.abs(mean_curve).max() > 1e-9 * lin else []
            bad("inner_product", "BasisFunctionalData.inner_product",
                f"C G Cᵀ differs from to_grid().inner_product(noise_variance=0): max |Δ| = {np.abs(np.array(b) - np.array(g)).max():.3g}", causes)
    pair("inner_product_centred", "ip_bc", "ip_g", cq, "BasisFunctionalData.inner_product")
    # rescaling
    for kb, kg in (("rescale_b", "rescale_g"), ("rescale_w_b", "rescale_w_g"), ("rescale_s_b", "rescale_s_g"),
                   ("rescale_b_simpson", "rescale_g_simpson")):
        if kb not in impl:
            continue
        rb, rg = impl[kb], impl[kg]
        if isinstance(rb, str) or isinstance(rg, str):
            if isinstance(rb, str) and isinstance(rg, str):
                continue
            causes = ["diag_of_4d_array"] if (two and rb == "error:ValueError" and kb != "rescale_w_b") else []
            bad("rescale", "BasisFunctionalData.rescale", f"{kb} = {str(rb)[:50]} but {kg} = {str(rg)[:50]}", causes)
            continue
        if not (math.isfinite(rb["w"]) and math.isfinite(rg["w"])):
            if math.isfinite(rb["w"]) != math.isfinite(rg["w"]):
                bad("rescale", "BasisFunctionalData.rescale", f"weights {rb['w']} vs {rg['w']}")
            continue
        given = kb == "rescale_w_b"
        wtol = 1e-12 * abs(rg["w"]) if given else 1e-8 * (abs(rg["w"]) + cq)
        if abs(rb["w"] - rg["w"]) > wtol:
            bad("rescale", "BasisFunctionalData.rescale", f"weight from the coefficients {rb['w']!r} vs from the curves {rg['w']!r}")
        elif rg["w"] > 1e-6 * cq and not _near(rb["v"], rg["v"], lin / math.sqrt(rg["w"]), 1e-7):
            bad("rescale", "BasisFunctionalData.rescale", "rescaled curves differ between the two routes")
    # covariance
    cb = impl.get("cov_b")
    if isinstance(cb, str):
        if not cb.startswith("skip:"):
            causes = ["covariance_layout_2d"] if two else []
            bad("covariance", "BasisFunctionalData.covariance", f"covariance() failed: {cb}", causes)
    else:
        if two:
            m1, m2 = len(case["t1"]), len(case["t2"])
            Xc = (X - X.mean(axis=0)).reshape(N, m1, m2)
            ref = np.einsum("iab,icd->acbd", Xc, Xc) / N
            if not _near(np.array(cb).reshape(-1), ref.reshape(-1), cen2):
                bad("covariance", "BasisFunctionalData.covariance", "2-D covariance().to_grid() is not (1/n) Σ Xc(a,b) Xc(a',b') at [a, a', b, b']", ["covariance_layout_2d"])
            shp = impl.get("cov_b_shape")
            if isinstance(shp, list) and shp[1:] != [m1, m1, m2, m2]:
                bad("covariance", "BasisFunctionalData.covariance", f"covariance basis has shape {shp}, argvals are (t1, t1, t2, t2)", ["covariance_layout_2d"])
        elif N >= 2:
            cg = impl.get("cov_g")
            if isinstance(cg, str):
                bad("covariance", "BasisFunctionalData.covariance", f"grid covariance failed: {cg}")
            elif not _near(np.array(cb), np.array(cg) * (N - 1) / N, cen2):
                d_ = float(np.abs(np.array(cb) - np.array(cg) * (N - 1) / N).max())
                bad("covariance", "BasisFunctionalData.covariance",
                    f"covariance from the coefficients is not (n-1)/n × covariance of the curves: max |Δ| = {d_:.3g} (curves of size {lin:.3g}, centred {linc:.3g})")
            if not isinstance(cb, str) and not two:
                dg = np.diag(np.array(cb).reshape(X.shape[1], X.shape[1]))
                if dg.size and dg.min() < -1e-8 * cen2:
                    bad("covariance", "BasisFunctionalData.covariance", f"negative variance {dg.min():.3g} on the diagonal of the covariance")
    axes = [fl(_Fv(case["t1"])), fl(_Fv(case["t2"]))] if two else [fl(_Fv(case["t"]))]
    if impl.get("grid_argvals") != axes:
        bad("to_grid", "BasisFunctionalData.to_grid", "to_grid() is not on the sampling points of the basis")
    ca = impl.get("cov_b_argvals")
    if isinstance(ca, list) and ca != [a for a in axes for _ in (0, 1)]:
        bad("covariance", "BasisFunctionalData.covariance", "the covariance is not on the sampling points (t, t) / (t1, t1, t2, t2)", ["covariance_layout_2d"] if two else [])
    # standardisation (zero-variance points are a float artefact on the grid route: excluded)
    sb, sg = impl.get("standardize_b"), impl.get("standardize_g")
    if isinstance(sb, str) or isinstance(sg, str):
        if isinstance(sb, str) != isinstance(sg, str) and not str(sb).startswith("skip:"):
            causes = ["diag_of_4d_array"] if (two and sb == "error:ValueError") else []
            bad("standardize", "BasisFunctionalData.standardize", f"standardize: {str(sb)[:50]} vs {str(sg)[:50]}", causes)
    elif N >= 2:
        sd = X.std(axis=0)
        ok = sd > max(1e-6 * linc, 1e-9 * lin)
        if ok.any() and not _near(np.array(sb)[:, ok], np.array(sg)[:, ok], (math.sqrt(N) + 1.0) * (1.0 + 1e-6 * lin / sd[ok].min()), 1e-6):
            bad("standardize", "BasisFunctionalData.standardize", "standardised curves differ between the two routes")
    return vs


def _oracle_tolong(case, impl):
    vs = []
    if "error" in impl:
        return [dict(clause="to_long", entry="to_long", msg=f"to_long raised {impl['error']}")]
    rows = impl["rows"]
    if case["sub"].startswith("dense"):
        n, sh = case["n"], case["shape"]
        M = int(np.prod(sh))
        want = {}
        for i in range(n):
            for p in range(M):
                pt = list(np.unravel_index(p, sh))
                want[(i, *[int(x) for x in pt])] = i * M + p
        entry = "DenseFunctionalData.to_long"
    else:
        labels = impl["labels"]
        want = {}
        for pos, (sh, mk) in enumerate(zip(case["shapes"], case["masks"])):
            lab = pos if case["reindex"] else labels[pos]
            for p, b in enumerate(mk):
                if b:
                    want[(lab, *[int(x) for x in np.unravel_index(p, sh)])] = p
        entry = "IrregularFunctionalData.to_long"
    if not case["sub"].startswith("dense") and not case["reindex"]:
        labels = impl["labels"]
        ids = sorted({r[0] for r in rows})
        if labels != list(range(len(labels))) and ids == list(range(len(labels))):
            # Accepted: a sub-selection behaves like a freshly built dataset (property C13: a subset's long
            # format equals that of a twin with the same content), so its observations are listed by position.
            # C14 only requires every (observation, point, value) exactly once; listing by label or by
            # position are both bijective, and both are accepted here.
            pos = {i: lab for i, lab in enumerate(labels)}
            rows = [[pos[r[0]]] + r[1:] for r in rows]
    seen = {}
    for r in rows:
        key = (r[0], *r[2:])
        seen[key] = seen.get(key, 0) + 1
        if key not in want:
            vs.append(dict(clause="to_long", entry=entry, msg=f"row {r} is not an observed (observation, point)"))
            break
        if want[key] != r[1]:
            vs.append(dict(clause="to_long", entry=entry, msg=f"row {r} carries the value of another cell (expected {want[key]})"))
            break
    if not vs:
        if any(c != 1 for c in seen.values()):
            vs.append(dict(clause="to_long", entry=entry, msg="an (observation, point) is listed more than once"))
        elif len(seen) != len(want):
            vs.append(dict(clause="to_long", entry=entry, msg=f"{len(want) - len(seen)} (observation, point) pairs are missing from the table"))
    return vs


def _oracle_csv(case, impl):
    vs = []
    entry = "read_csv"
    if "error" in impl:
        return [dict(clause="read_csv", entry=entry, msg=f"read_csv raised {impl['error']}")]
    hs = case["headers"]
    absc = [float(int(h)) for h in hs] if all(_is_int(h) for h in hs) else [float(j) for j in range(len(hs))]
    cells = case["cells"]
    comp = all(c != "n" for r in cells for c in r)
    if comp != (impl["cls"] == "dense"):
        return [dict(clause="read_csv", entry=entry, msg=f"complete={comp} but loaded as {impl['cls']}")]
    if comp:
        if impl["args"] != absc:
            vs.append(dict(clause="read_csv", entry=entry, msg=f"abscissae {impl['args']} expected {absc}"))
        want = [[float(F(c)) for c in r] for r in cells]
        if impl["vals"] != want:
            vs.append(dict(clause="read_csv", entry=entry, msg="stored numbers not returned"))
    else:
        want = [[[absc[j], float(F(c))] for j, c in enumerate(r) if c != "n"] for r in cells]
        if impl["rows"] != want:
            vs.append(dict(clause="read_csv", entry=entry, msg=f"irregular rows {impl['rows']} expected {want}; read with {impl.get('kwargs')}"))
        if impl["labels"] != list(range(len(cells))):
            vs.append(dict(clause="read_csv", entry=entry,
                           msg=f"{len(cells)} table rows but observations labelled {impl['labels']} (every row is one observation, numbered in file order); read with {impl.get('kwargs')}"))
    return vs


def _oracle_ps(case, impl):
    vs = []
    if "error" in impl:
        return [dict(clause="to_basis", entry="DenseFunctionalData.to_basis", msg=f"raised {impl['error']}")]
    Y = np.array(impl["Y"])
    own = lambda a: max(float(np.max(np.abs(np.asarray(a, dtype=float)))) if np.size(a) else 0.0, 1e-300)  # noqa: E731
    sc = own(Y)  # everything is judged relative to the data's own scale (amplitudes 2^-40 … 2^40)
    amp = impl.get("amp", 1.0)
    for k_, kb in (("smooth", "smooth_base"), ("coefs", "coefs_base")):
        if kb in impl:
            a_, b_ = np.array(impl[k_], dtype=float) / amp, np.array(impl[kb], dtype=float)
            if a_.shape != b_.shape or not np.all(np.abs(a_ - b_) <= 1e-12 * own(b_)):
                vs.append(dict(clause="scale_equivariance", entry="DenseFunctionalData." + ("smooth" if k_ == "smooth" else "to_basis"),
                               msg=f"curves scaled by {amp:g}: the result is not {amp:g} times the result for the unscaled curves "
                                   f"(max relative deviation {float(np.max(np.abs(a_ - b_))) / own(b_):.3g})"))
    # loose when the normal matrix is ill-conditioned (pinv/lstsq lose digits), never looser than 1e-5
    tol = min(1e-5, max(1e-8, 1e-13 * impl.get("cond", 0.0)))
    if not _near(impl["tb_grid"], impl["smooth"], sc, tol):
        vs.append(dict(clause="to_basis_to_grid", entry="DenseFunctionalData.to_basis",
                       msg=f"to_basis().to_grid() differs from smooth(method='PS') with the same settings: max |Δ| = {np.abs(np.array(impl['tb_grid']) - np.array(impl['smooth'])).max():.3g}"))
    for k_, kc in (("smooth", "smooth_canon"), ("coefs", "coefs_canon")):
        if kc in impl and not _near(impl[k_], impl[kc], own(impl[kc]), 1e-9):
            vs.append(dict(clause="option_spelling", entry="DenseFunctionalData." + ("smooth" if k_ == "smooth" else "to_basis"),
                           msg=f"penalty={impl.get('pen_used')} does not give the result of the same penalty written as a tuple of floats: "
                               f"max |Δ| = {np.abs(np.array(impl[k_]) - np.array(impl[kc])).max():.3g}"))
    if not impl.get("same_argvals", True):
        vs.append(dict(clause="to_basis_to_grid", entry="DenseFunctionalData.to_basis", msg="to_grid() of the expansion is on other sampling points"))
    for key, r in (impl.get("irr") or {}).items():
        entry = "IrregularFunctionalData.to_basis"
        if isinstance(r, str):
            vs.append(dict(clause="to_basis_to_grid", entry=entry, msg=f"irregular data ({key} encoding): {r}"))
        elif not _near(r["tb"], r["sm"], sc, min(1e-5, max(1e-7, tol))):
            vs.append(dict(clause="to_basis_to_grid", entry=entry,
                           msg=f"irregular data ({key} encoding): to_basis().to_grid() differs from smooth(method='PS') with the same settings: max |Δ| = {np.abs(np.array(r['tb']) - np.array(r['sm'])).max():.3g}"))
    K = impl["K"]
    d = case["dim"]
    if len(impl["coefs"][0]) != K ** d or impl["basis_shape"][0] != K ** d:
        vs.append(dict(clause="to_basis_to_grid", entry="DenseFunctionalData.to_basis", msg=f"number of coefficients {len(impl['coefs'][0])}, basis {impl['basis_shape']}, expected {K ** d}"))
    if case["sub"] == "inspace" and impl.get("pen_all_zero", F(case["pen"]) == 0) and impl["rank"] == K and impl.get("cond", 1e30) < 1e10:
        if not _near(impl["tb_grid"], Y, sc, 1e-6):
            vs.append(dict(clause="exact_recovery", entry="DenseFunctionalData.to_basis", msg="a curve of the spline space is not returned exactly with zero penalty"))
        if not _near(impl["coefs"], impl["gamma"], own(impl["gamma"]), 1e-6):
            vs.append(dict(clause="exact_recovery", entry="DenseFunctionalData.to_basis", msg="the coefficients of a curve of the spline space are not recovered with zero penalty"))
    return vs


def oracle(case, impl):
    if "__crash__" in impl:
        return [dict(clause="runs", entry=case["kind"], msg=f"crash {impl['__crash__']}: {impl.get('msg')} {impl.get('tb', '')[-300:]}")]
    kind = case["kind"]
    if "skipped" in impl:
        return []
    if kind in ("basis1", "basis2"):
        return _oracle_basis(case, impl)
    if kind == "tolong":
        return _oracle_tolong(case, impl)
    if kind == "csv":
        return _oracle_csv(case, impl)
    if kind == "ps":
        return _oracle_ps(case, impl)
    return []


def nontrivial(case, impl):
    if case["kind"] in ("basis1", "basis2") and all(F(x) == 0 for r in case["C"] for x in r):
        return None
    return digest(case)


def classify(case, impl):
    k = case["kind"]
    tags = ["kind:" + k]
    if "skipped" in impl:
        return tags + ["skipped:" + impl["skipped"]]
    if k == "basis1":
        tags += ["family:" + case["fam"], "coef:" + case["ck"], "n_obs:" + str(min(len(case["C"]), 4)) + ("+" if len(case["C"]) >= 4 else "")]
        if isinstance(impl.get("G"), str):
            tags.append("gram:" + impl["G"])
    elif k == "basis2":
        tags += ["families2:" + "-".join(case["fams"]), "grid2:" + ("square" if len(case["t1"]) == len(case["t2"]) else "non-square")]
        for key in ("cov_b", "rescale_b", "standardize_b"):
            if isinstance(impl.get(key), str):
                tags.append(f"{key}:{impl[key]}")
    elif k == "tolong":
        tags.append("tolong:" + case["sub"])
    elif k == "csv":
        tags += ["csv-header:" + case["hk"], "csv-loaded:" + str(impl.get("cls", impl.get("error"))), "csv-option:" + str(case.get("variant")),
                 "csv-ids:" + (str(case.get("idk")) if str(case.get("variant", "")).startswith("index") else "-")]
    elif k == "ps":
        tags += [f"ps:{case['dim']}d-{case['sub']}", "ps-amplitude:2^" + str(case.get("amp", 0)), "ps-penalty:" + ("0" if F(case["pen"]) == 0 else ">0"), "ps-penalty-spelling:" + str(case.get("penspell"))]
        if impl.get("rank", 99) < impl.get("K", 0):
            tags.append("ps:singular")
    return tags
