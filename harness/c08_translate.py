"""Translator for C08: `FDApy/misc/utils.py` `_integration_weights` -> `lean/FDAModel/Generated/QuadWeights.lean`.

The two coded branches (`"trapz"`, `"simpson"`) are NumPy one-liners.  The translator maps their *syntax* one to one
onto the combinators of `lean/FDAModel/Core/NpVec.lean` (`single`, `slice`, `sub`, `smul`, `divc`, `concat`,
`enumMap`): it does no arithmetic and no simplification.  `C08.trapzW_src_eq_model` / `C08.simpsonW_src_eq_model`
then prove, for every grid size n >= 2 and every grid, that the arrays the source builds have n entries, that every
operation has compatible shapes and that the entries are the model's `trapzW` / `simpsonW` -- the definitions all
C08 theorems are about.

A source whose shape is not recognised (a refactor) raises `Shape`: no alarm, the previous generated file is kept and
the evidence says that for this run the weights are tied to the source by the correspondence only.
"""
import ast
from fractions import Fraction


class Shape(ValueError):
    pass


def _q(c):
    if isinstance(c, bool) or not isinstance(c, (int, float)):
        raise Shape(f"constant {c!r} is not a number")
    f = Fraction(c) if isinstance(c, int) else Fraction(repr(c))
    return f"(({f.numerator} : ℚ) / {f.denominator})" if f.denominator != 1 else f"({f.numerator} : ℚ)"


def _is_np(e, name):
    return (isinstance(e, ast.Call) and isinstance(e.func, ast.Attribute) and e.func.attr == name
            and isinstance(e.func.value, ast.Name) and e.func.value.id in ("np", "numpy"))


class _T:
    def __init__(self, arg):
        self.x = arg

    # ---- indices: a non-negative constant, `len(x)`, `len(x) - c`, `-c` (counted from the end)
    def idx(self, e):
        while isinstance(e, ast.Expr):
            e = e.value
        if isinstance(e, ast.Constant) and isinstance(e.value, int) and not isinstance(e.value, bool):
            return str(e.value) if e.value >= 0 else f"(n - {-e.value})"
        if isinstance(e, ast.UnaryOp) and isinstance(e.op, ast.USub) and isinstance(e.operand, ast.Constant) \
                and isinstance(e.operand.value, int):
            return f"(n - {e.operand.value})"
        if self._is_len(e):
            return "n"
        if isinstance(e, ast.BinOp) and isinstance(e.op, ast.Sub) and self._is_len(e.left) \
                and isinstance(e.right, ast.Constant) and isinstance(e.right.value, int) and e.right.value >= 0:
            return f"(n - {e.right.value})"
        raise Shape(f"index expression not recognised: {ast.unparse(e)}")

    def _is_len(self, e):
        if isinstance(e, ast.Call) and isinstance(e.func, ast.Name) and e.func.id == "len" and len(e.args) == 1 \
                and isinstance(e.args[0], ast.Name) and e.args[0].id == self.x:
            return True
        return (isinstance(e, ast.Attribute) and e.attr == "size" and isinstance(e.value, ast.Name) and e.value.id == self.x)

    # ---- scalars built from entries of x
    def scalar(self, e, names=None):
        names = names or {}
        if isinstance(e, ast.Constant):
            return _q(e.value)
        if isinstance(e, ast.Name) and e.id in names:
            return names[e.id]
        if isinstance(e, ast.Subscript) and isinstance(e.value, ast.Name) and e.value.id == self.x \
                and not isinstance(e.slice, ast.Slice):
            return f"x {self.idx(e.slice)}"
        if isinstance(e, ast.UnaryOp) and isinstance(e.op, ast.USub):
            return f"(-{self.scalar(e.operand, names)})"
        if isinstance(e, ast.BinOp) and type(e.op) in (ast.Add, ast.Sub, ast.Mult, ast.Div):
            op = {ast.Add: "+", ast.Sub: "-", ast.Mult: "*", ast.Div: "/"}[type(e.op)]
            return f"({self.scalar(e.left, names)} {op} {self.scalar(e.right, names)})"
        raise Shape(f"scalar expression not recognised: {ast.unparse(e)}")

    def cond(self, e, nat):
        """`idx % c == d` (and `!=`) on the enumeration index."""
        if isinstance(e, ast.Compare) and len(e.ops) == 1 and isinstance(e.ops[0], (ast.Eq, ast.NotEq)) \
                and isinstance(e.left, ast.BinOp) and isinstance(e.left.op, ast.Mod) and isinstance(e.left.left, ast.Name) \
                and e.left.left.id == nat and isinstance(e.left.right, ast.Constant) and isinstance(e.left.right.value, int) \
                and e.left.right.value > 0 and isinstance(e.comparators[0], ast.Constant) and isinstance(e.comparators[0].value, int):
            c = f"{nat} % {e.left.right.value} = {e.comparators[0].value}"
            return c if isinstance(e.ops[0], ast.Eq) else f"¬ ({c})"
        raise Shape(f"condition not recognised: {ast.unparse(e)}")

    def elt(self, e, nat, val):
        if isinstance(e, ast.IfExp):
            return f"if {self.cond(e.test, nat)} then {self.elt(e.body, nat, val)} else {self.elt(e.orelse, nat, val)}"
        return self.scalar(e, {val: val})

    # ---- arrays
    def vec(self, e):
        if _is_np(e, "concatenate"):
            if not e.args or not isinstance(e.args[0], (ast.Tuple, ast.List)):
                raise Shape("np.concatenate without a literal tuple of pieces")
            for kw in e.keywords:
                if not (kw.arg == "axis" and isinstance(kw.value, ast.Constant) and kw.value.value in (None, 0)):
                    raise Shape("np.concatenate with an option other than axis=None/0")
            if len(e.args) > 1:
                raise Shape("np.concatenate with positional options")
            return "FDA.Np.concat [" + ", ".join(self.vec(p) for p in e.args[0].elts) + "]"
        if _is_np(e, "array") or _is_np(e, "asarray"):
            if len(e.args) == 1 and not e.keywords and isinstance(e.args[0], ast.List) and len(e.args[0].elts) == 1:
                return f"FDA.Np.single ({self.scalar(e.args[0].elts[0])})"
            raise Shape("np.array of something else than a one-element list")
        if isinstance(e, ast.Subscript) and isinstance(e.value, ast.Name) and e.value.id == self.x and isinstance(e.slice, ast.Slice):
            sl = e.slice
            if sl.step is not None:
                raise Shape("slice with a step")
            lo = "0" if sl.lower is None else self.idx(sl.lower)
            hi = "n" if sl.upper is None else self.idx(sl.upper)
            return f"FDA.Np.slice n x {lo} {hi}"
        if isinstance(e, ast.ListComp):
            if len(e.generators) != 1:
                raise Shape("nested comprehension")
            g = e.generators[0]
            if g.ifs or g.is_async or not (isinstance(g.iter, ast.Call) and isinstance(g.iter.func, ast.Name) and g.iter.func.id == "enumerate"
                                           and len(g.iter.args) == 1 and not g.iter.keywords):
                raise Shape("comprehension is not `for idx, h in enumerate(<array>)`")
            if not (isinstance(g.target, ast.Tuple) and len(g.target.elts) == 2 and all(isinstance(t, ast.Name) for t in g.target.elts)):
                raise Shape("comprehension target is not a pair of names")
            nat, val = g.target.elts[0].id, g.target.elts[1].id
            return f"FDA.Np.enumMap (fun {nat} {val} => {self.elt(e.elt, nat, val)}) ({self.vec(g.iter.args[0])})"
        if isinstance(e, ast.BinOp):
            if isinstance(e.op, ast.Mult) and isinstance(e.left, ast.Constant):
                return f"FDA.Np.smul {_q(e.left.value)} ({self.vec(e.right)})"
            if isinstance(e.op, ast.Mult) and isinstance(e.right, ast.Constant):
                return f"FDA.Np.smul {_q(e.right.value)} ({self.vec(e.left)})"
            if isinstance(e.op, ast.Div) and isinstance(e.right, ast.Constant):
                return f"FDA.Np.divc ({self.vec(e.left)}) {_q(e.right.value)}"
            if isinstance(e.op, ast.Sub):
                return f"FDA.Np.sub ({self.vec(e.left)}) ({self.vec(e.right)})"
        raise Shape(f"array expression not recognised: {ast.unparse(e)[:80]}")


def _branches(fn):
    """{method name: expression assigned to `weights`} for the `if method == "<name>":` chain."""
    body = [st for st in fn.body if not (isinstance(st, ast.Expr) and isinstance(st.value, ast.Constant))]
    node = next((st for st in body if isinstance(st, ast.If)), None)
    out, target = {}, None
    while isinstance(node, ast.If):
        t = node.test
        if isinstance(t, ast.Compare) and len(t.ops) == 1 and isinstance(t.ops[0], ast.Eq) and isinstance(t.left, ast.Name) \
                and isinstance(t.comparators[0], ast.Constant) and isinstance(t.comparators[0].value, str):
            if len(node.body) != 1 or not isinstance(node.body[0], ast.Assign) or len(node.body[0].targets) != 1 \
                    or not isinstance(node.body[0].targets[0], ast.Name):
                raise Shape(f"branch {t.comparators[0].value!r} is not a single assignment")
            name = node.body[0].targets[0].id
            if target not in (None, name):
                raise Shape("branches assign different names")
            target = name
            out[t.comparators[0].value] = node.body[0].value
        node = node.orelse[0] if len(node.orelse) == 1 and isinstance(node.orelse[0], ast.If) else None
    if target is None:
        raise Shape("no `if method == ...` chain")
    rets = [st for st in body if isinstance(st, ast.Return)]
    if not (rets and isinstance(rets[-1].value, ast.Name) and rets[-1].value.id == target):
        raise Shape("the function does not return the array the branches assign")
    return out


def lean_source(path):
    tree = ast.parse(open(path).read())
    fn = next((n for n in tree.body if isinstance(n, ast.FunctionDef) and n.name == "_integration_weights"), None)
    if fn is None:
        raise Shape("function _integration_weights not found")
    if not fn.args.args:
        raise Shape("no argument")
    tr = _T(fn.args.args[0].arg)
    br = _branches(fn)
    lines = ["/-",
             "GENERATED by harness/c08_translate.py from FDApy/misc/utils.py `_integration_weights` (branches \"trapz\" and \"simpson\").",
             "Do not edit: regenerated on every run of `./check C08`.  `C08.trapzW_src_eq_model` and `C08.simpsonW_src_eq_model`",
             "prove these equal to the model's `trapzW` / `simpsonW` for every grid with at least two points.",
             "-/", "import FDAModel.Core.NpVec", "", "namespace FDA.Generated", ""]
    for py, lean in (("trapz", "trapzWSrc"), ("simpson", "simpsonWSrc")):
        if py not in br:
            raise Shape(f"branch {py!r} not found")
        try:
            body = tr.vec(br[py])
        except Shape as e:
            raise Shape(f"{py}: {e}")
        lines += [f"/-- the `\"{py}\"` branch as the source has it (`n = len(x)`). -/",
                  f"def {lean} (n : ℕ) (x : ℕ → ℚ) : FDA.Np.Vec :=", f"  {body}", ""]
    lines += ["end FDA.Generated", ""]
    return "\n".join(lines)


if __name__ == "__main__":
    import sys
    print(lean_source(sys.argv[1]))
