"""C15 — irregular data mean what they contain, however they are encoded.

One content (common grid, per-curve missingness) is fed to every public method of
IrregularFunctionalData in BOTH encodings (NaN on the common grid, as the sparsifier
produces; per-curve sampling points, as the CSV loader produces); complete data are also
compared with the dense twin.
"""
import math
import warnings
from fractions import Fraction

import numpy as np

from common import F, Rng, close, digest, err_class, fl, pmat, pvec, rs

import os

import c15_translate
import common

GEN_FILE = os.path.join(common.LEAN_DIR, "FDAModel", "Generated", "IrregularGuards.lean")
TRANSLATOR_NOTE = ""


def translate():
    """Regenerate Generated/IrregularGuards.lean from what `standardize`, `mean`, `covariance` of
    IrregularFunctionalData say now.  An unrecognised source shape is NOT an alarm: the reference translation kept beside
    the translator is used and the evidence says so.  Only a successful translation can break `C15.guards_match_source`."""
    global TRANSLATOR_NOTE
    path = os.path.join(common.REPO, "FDApy", "representation", "functional_data.py")
    try:
        src = c15_translate.lean_source(path)
        TRANSLATOR_NOTE = ("translator: standardize guard/buffer, binned-mean switch and covariance weight rule regenerated from the "
                           "source and re-proved equal to the model (C15.guards_match_source)")
    except (ValueError, SyntaxError, IndexError, AttributeError, KeyError, TypeError) as e:
        TRANSLATOR_NOTE = f"translator: source shape not recognised, tie rests on the correspondence only ({e})"
        print("note:", TRANSLATOR_NOTE)
        src = open(os.path.join(os.path.dirname(os.path.abspath(__file__)), "c15_irregularguards_reference.lean")).read()
    except OSError as e:
        raise common.InfraError(f"translator: cannot read {path}: {e}")
    if not os.path.exists(GEN_FILE) or open(GEN_FILE).read() != src:
        with open(GEN_FILE, "w") as fh:
            fh.write(src)


def extra_coverage(cases, impls, models):
    return dict(translator=TRANSLATOR_NOTE)


PROP = "C15"
MODULES = ["FDAProofs.Props.C15"]
DRIVER = "Drivers/C15.lean"
PARALLEL = True
RULE = (
    "seeded structured cases: 1-D irregular content on a sorted non-uniform dyadic grid (3..12 points), n_obs 2..12, "
    "missingness patterns (random / heavy / endpoints missing / one curve complete / none) keeping >= 2 samples per curve "
    "and every grid point observed at least once, values random/smooth/constant/with exact zeros; both encodings through "
    "to_long, n_points, mean, smooth (LP, PS, interpolation; explicit and default settings, non-default kernel/degree/"
    "n_segments), center, norm, normalize, noise_variance (orders 1..3), covariance (raw with/without centring, smoothed), "
    "inner_product, rescale, to_basis, arithmetic, plus a second call on the same objects; complete content also vs the "
    "DenseFunctionalData twin; datasets produced by the real sparsifier and by read_csv on a real file. "
    "Non-trivial: at least one missing cell or the dense twin compared; distinct by content hash"
)
PARTIAL = [
    "the smoothers themselves (local polynomial fit, P-spline basis and penalty) are parameters here: the model pins their "
    "INPUTS per encoding (samples, weights, normal equations) and the implementation's outputs are compared encoding "
    "against encoding; their own correctness is C05/C06/C07",
    "the smoothed mean used for centring is taken from the implementation (exact value of the floats) and fed to the model; "
    "the theorems are end to end for a PARAMETER smoother (mean/inner_product/covariance_enc_independent), the pooled and "
    "binned samples handed to the smoother are compared with the model on the large cases",
    "square roots (norm, normalize) through squares; np.interp, np.unique, np.isin are modelled by their documented semantics",
    "2-D irregular data are outside the property's quantifier (1-D only)",
]
TRUSTED_EXTRA = ["numpy.interp / numpy.unique / numpy.isin semantics as modelled in lean/FDAModel/Irregular.lean",
                 "harness/c15_translate.py: syntactic reading of the standardize guard/buffer, the binned-mean switch and the covariance "
                 "weight rule (IEEE NaN comparison semantics, constants as exact rationals), ~150 lines"]


# --------------------------------------------------------------------------
# generation
# --------------------------------------------------------------------------

def _values(rng: Rng, n, m, t):
    kind = rng.choice(["rand", "rand", "smooth", "smooth", "const", "zeros_inside", "big"])
    if kind == "rand":
        V = [rng.dyadics(m, -4, 4, 3) for _ in range(n)]
    elif kind == "big":
        V = [rng.dyadics(m, -200, 200, 1) for _ in range(n)]
    elif kind == "const":
        V = [[rng.dyadic(-3, 3, 2)] * m for _ in range(n)]
    else:
        V = []
        for _ in range(n):
            a, b, c = rng.dyadic(-2, 2, 2), rng.dyadic(-2, 2, 2), rng.dyadic(-2, 2, 2)
            V.append([a + b * (x - t[0]) + c * (x - t[0]) * (x - t[0]) + rng.dyadic(-1, 1, 3) * (1 if kind == "smooth" else 0) for x in t])
        if kind == "zeros_inside":
            for r in V:
                r[rng.randrange(m)] = Fraction(0)
    return V, kind


def _mask(rng: Rng, n, m, kind):
    if kind == "none":
        return [[1] * m for _ in range(n)]
    p = dict(random=0.7, heavy=0.35, ends=0.8, onefull=0.6, sparse60=0.6)[kind]
    M = [[1 if rng.random() < p else 0 for _ in range(m)] for _ in range(n)]
    if kind == "ends":
        for r in M:
            if rng.random() < 0.6:
                r[0] = 0
            if rng.random() < 0.6:
                r[-1] = 0
    if kind == "onefull":
        M[rng.randrange(n)] = [1] * m
    need = 2 if rng.random() < 0.5 else 3
    for r in M:
        while sum(r) < min(need, m):
            r[rng.randrange(m)] = 1
    for j in range(m):
        if not any(r[j] for r in M):
            M[rng.randrange(n)][j] = 1
    return M


def _S(M):
    return [[rs(x) for x in r] for r in M]


def gen_cases(rng: Rng, tier):
    n_cases = dict(quick=52, thorough=800)[tier]
    mk_kinds = ["random", "random", "heavy", "ends", "onefull", "none", "none"]
    for k in range(n_cases):
        if k % 32 in (7, 9):
            # COMPLETE irregular data around and above the approximation switch (2000 pooled samples), generic abscissae
            # (linspace: not round numbers), every point shared by all curves (ties): both encodings AND the dense twin
            n_, m_ = rng.choice([(8, 250), (8, 251)] if k % 32 == 7 else [(8, 313), (8, 625), (5, 401)])
            yield dict(kind="big", seed=rng.subseed(), n=n_, m=m_, keep="1", bw=rs(rng.choice([Fraction(1, 16), Fraction(1, 8)])), sub="complete")
            continue
        if k % 32 == 5:
            # a large grid: the size-dependent branches (binned mean above 2000 samples) must not depend on the encoding
            sub = rng.choice(["straddle", "straddle", "above", "below"])
            m = dict(straddle=rng.randint(175, 230), above=rng.randint(260, 300), below=rng.randint(100, 150))[sub]
            yield dict(kind="big", seed=rng.subseed(), n=12, m=m, keep=rs(dict(straddle=Fraction(7, 10), above=Fraction(9, 10), below=Fraction(7, 10))[sub]),
                       bw=rs(rng.choice([Fraction(1, 8), Fraction(1, 4)])), sub=sub)
            continue
        if k % 15 == 13:
            yield dict(kind="sparsify", seed=rng.subseed(), n=rng.randint(2, 8), m=rng.randint(5, 12),
                       perc=rs(rng.choice([Fraction(1, 2), Fraction(3, 4), Fraction(9, 10)])), bw=rs(rng.choice([Fraction(1, 2), Fraction(1, 4)])))
            continue
        n = rng.randint(2, 12) if tier == "thorough" or rng.random() < 0.2 else rng.randint(2, 5)
        m = rng.randint(3, 12) if tier == "thorough" or rng.random() < 0.2 else rng.randint(3, 8)
        sparse15 = (k % 32 == 3)
        if sparse15:
            # every run: sparse samples on a longer grid (8 curves, 15 points, ~60 % observed): smoothed variances go
            # negative somewhere and some pairs of grid points are never observed together
            n, m = 8, 15
        lo = rng.choice([0, 0, 1, -2, 10])
        scale = rng.choice([1, 1, 2, 4])
        if k % 6 == 4:
            # large offset, small spacing (day numbers, decimal years, timestamps): spacing/|t| from 1e-10 to 1e-5,
            # all points exact floats; positions on the grid must be found exactly, not "closely"
            lo, scale = rng.choice([(2 ** 21 + 5, Fraction(1, 16)), (2 ** 11 - 28, Fraction(1, 8)), (2 ** 31, Fraction(1, 4)), (-(2 ** 16), Fraction(1, 32))])
        t = rng.grid(m, lo=lo, scale=scale)
        V, vk = _values(rng, n, m, t)
        V2 = [rng.dyadics(m, -3, 3, 2) for _ in range(n)]
        mkk = "sparse60" if sparse15 else mk_kinds[k % len(mk_kinds)]
        M = _mask(rng, n, m, mkk)
        span = t[-1] - t[0]
        yield dict(
            kind="enc", t=[rs(x) for x in t], V=_S(V), V2=_S(V2), M=M, vk=vk, mk=mkk,
            bw=rs(span * (Fraction(2, 5) if sparse15 else rng.choice([Fraction(1, 4), Fraction(1, 2), Fraction(1), Fraction(2)]))),
            s2=rs(rng.choice([Fraction(1, 4), Fraction(1, 4), Fraction(1, 2 ** 40), Fraction(2 ** 20)])),
            kernel=rng.choice(["epanechnikov", "epanechnikov", "gaussian", "tri_cube", "bi_square"]),
            lpdeg=rng.choice([0, 1, 1, 2]),
            nseg=rng.randint(1, 5), psdeg=rng.randint(1, 3), pen=rs(rng.choice([Fraction(1, 4), 1, 1, 8, 0, Fraction(1, 2 ** 30), Fraction(2 ** 30)])),
            order=rng.choice([1, 2, 2, 3]), a=rs(rng.choice([rng.dyadic(-3, 3, 2), Fraction(2), Fraction(0), Fraction(1, 2 ** 40), Fraction(2 ** 40)])),
            csv=(k % 10 == 7), strided=(k % 4 == 1), extra=bool(sparse15 or k % 2 == 0), penspell=rng.choice(["tuple", "list", "int", "float", "np", "array"]),
        )


def search_cases(rng, tier):
    yield from gen_cases(rng, "quick")


W_BANDWIDTH = dict(kind="enc", t=["0", "1/4", "1/2", "3/4", "1"], V=[["0", "1", "0", "2", "1"], ["1", "0", "2", "0", "1"], ["0", "2", "1", "1", "3"]],
                   V2=[["1"] * 5] * 3, M=[[1, 0, 1, 0, 1], [1, 1, 0, 1, 1], [0, 1, 1, 1, 0]], vk="witness", mk="random", bw="1/2",
                   kernel="epanechnikov", lpdeg=1, nseg=2, psdeg=1, pen="1", order=2, a="2", csv=False)
W_TWIN = dict(kind="enc", t=["0", "1/4", "1/2", "3/4", "1"], V=[["0", "1", "0", "2", "1"], ["1", "0", "2", "0", "1"], ["0", "2", "1", "1", "3"]],
              V2=[["1"] * 5] * 3, M=[[1] * 5] * 3, vk="witness", mk="none", bw="1/2", kernel="epanechnikov", lpdeg=1,
              nseg=2, psdeg=1, pen="1", order=2, a="2", csv=False)


def witness_cases():
    return [dict(W_BANDWIDTH), dict(W_TWIN)]


# --------------------------------------------------------------------------
# implementation side
# --------------------------------------------------------------------------

def _Fm(m):
    return [[F(x) for x in r] for r in m]


def _strided(a):
    """The same 1-D array as a strided view of a larger buffer (non-contiguous memory)."""
    a = np.asarray(a)
    big = np.zeros(2 * len(a), dtype=a.dtype)
    big[::2] = a
    return big[::2]


def _build(t, V, M, strided=False):
    from FDApy.representation.argvals import DenseArgvals, IrregularArgvals
    from FDApy.representation.functional_data import DenseFunctionalData, IrregularFunctionalData
    from FDApy.representation.values import DenseValues, IrregularValues

    n = len(V)
    Mb = np.array(M, dtype=bool)
    a_nan = {i: DenseArgvals({"input_dim_0": t.copy()}) for i in range(n)}
    v_nan = {i: np.where(Mb[i], V[i], np.nan) for i in range(n)}
    A = IrregularFunctionalData(IrregularArgvals(a_nan), IrregularValues(v_nan))
    a_rag = {i: DenseArgvals({"input_dim_0": t[Mb[i]].copy()}) for i in range(n)}
    v_rag = {i: V[i][Mb[i]].copy() for i in range(n)}
    if strided:
        v_nan = {i: _strided(v) for i, v in v_nan.items()}
        v_rag = {i: _strided(v) for i, v in v_rag.items()}
        a_rag = {i: DenseArgvals({"input_dim_0": _strided(a["input_dim_0"])}) for i, a in a_rag.items()}
        A = IrregularFunctionalData(IrregularArgvals(a_nan), IrregularValues(v_nan))
    B = IrregularFunctionalData(IrregularArgvals(a_rag), IrregularValues(v_rag))
    D = None
    if Mb.all():
        D = DenseFunctionalData(DenseArgvals({"input_dim_0": t.copy()}), DenseValues(V.copy()))
    return A, B, D


def _long(fd):
    df = fd.to_long()
    return [[float(r["input_dim_0"]), int(r["id"]), float(r["values"])] for _, r in df.iterrows()]


def _content(fd):
    """(point, id, value) triples of an irregular object with the NaN cells dropped."""
    rows = []
    for pos, lab in enumerate(fd.argvals.keys()):
        x = np.asarray(fd.argvals[lab]["input_dim_0"], dtype=float)
        y = np.asarray(fd.values[lab], dtype=float)
        for a, b in zip(x, y):
            if not math.isnan(b):
                rows.append([float(a), pos, float(b)])
    return rows


def _at_observed(res, orig):
    """(point, position, value) of a result at the cells OBSERVED in the input (a NaN produced there is kept)."""
    rows = []
    for pos, (lab, lab0) in enumerate(zip(res.argvals.keys(), orig.argvals.keys())):
        x = np.asarray(res.argvals[lab]["input_dim_0"], dtype=float)
        y = np.asarray(res.values[lab], dtype=float)
        y0 = np.asarray(orig.values[lab0], dtype=float)
        for a, b, b0 in zip(x, y, y0):
            if not math.isnan(b0):
                rows.append([float(a), pos, float(b)])
    return rows


def _fake_samples(res, orig):
    """Number of cells missing in the input that hold a number in the result."""
    k = 0
    for lab, lab0 in zip(res.argvals.keys(), orig.argvals.keys()):
        y = np.asarray(res.values[lab], dtype=float)
        y0 = np.asarray(orig.values[lab0], dtype=float)
        k += int((np.isnan(y0) & ~np.isnan(y)).sum())
    return k


def _dense_content(fd):
    x = np.asarray(fd.argvals["input_dim_0"], dtype=float)
    return [[float(a), i, float(b)] for i, row in enumerate(np.asarray(fd.values, dtype=float)) for a, b in zip(x, row)]


class _Capture:
    """Record the arguments of LocalPolynomial.predict / PSplines.fit (wrapped from outside)."""

    def __init__(self):
        self.lp, self.ps = [], []

    def __enter__(self):
        from FDApy.preprocessing.smoothing.local_polynomial import LocalPolynomial
        from FDApy.preprocessing.smoothing.psplines import PSplines

        self.LP, self.PS = LocalPolynomial, PSplines
        self.o_lp, self.o_ps = LocalPolynomial.predict, PSplines.fit
        cap = self

        def predict(self_, y, x, x_new=None):
            cap.lp.append(dict(x=np.asarray(x, dtype=float).reshape(-1).tolist(), y=np.asarray(y, dtype=float).reshape(-1).tolist(),
                               bw=float(self_.bandwidth), kernel=self_.kernel_name, degree=int(self_.degree)))
            return cap.o_lp(self_, y=y, x=x, x_new=x_new)

        def fit(self_, y, x, sample_weights=None, penalty=None, **kwargs):
            res = cap.o_ps(self_, y=y, x=x, sample_weights=sample_weights, penalty=penalty, **kwargs)
            xs = x if isinstance(x, list) else [x]
            cap.ps.append(dict(x=np.asarray(xs[0], dtype=float).tolist(), y=np.asarray(y, dtype=float).tolist(),
                               w=None if sample_weights is None else np.asarray(sample_weights, dtype=float).tolist(),
                               pen=[float(p) for p in np.atleast_1d(penalty)], dmin=[None if v is None else float(v) for v in kwargs.get("domain_min", [None])],
                               dmax=[None if v is None else float(v) for v in kwargs.get("domain_max", [None])],
                               beta=np.asarray(self_.beta_hat, dtype=float).tolist(), basis=np.asarray(self_.basis[0], dtype=float).tolist(),
                               order=int(self_.order_penalty)))
            return res

        LocalPolynomial.predict = predict
        PSplines.fit = fit
        return self

    def __exit__(self, *a):
        self.LP.predict = self.o_lp
        self.PS.fit = self.o_ps


def _try(out, key, fn):
    try:
        with warnings.catch_warnings():
            warnings.simplefilter("ignore")
            out[key] = fn()
    except Exception as e:
        out[key] = "error:" + err_class(e) + ":" + str(e)[:80]


def _vals(fd):
    return np.asarray(fd.values, dtype=float).tolist()


def _ops(fd, case, irregular=True):
    """Every public method, on one object (so that later calls see the state left by earlier ones)."""
    out = {}
    bw = float(F(case["bw"]))
    lpkw = dict(kernel_name=case["kernel"], degree=case["lpdeg"])
    pskw = dict(n_segments=case["nseg"], degree=case["psdeg"])
    p0 = float(F(case["pen"]))
    pen = {"int": int(p0) if p0 == int(p0) else p0, "float": p0, "np": np.float64(p0), "list": [p0], "array": np.array([p0])}.get(case.get("penspell"), (p0,))
    pen_canon = (p0,)
    a = float(F(case["a"]))
    cont = _content if irregular else _dense_content
    _try(out, "to_long", lambda: _long(fd))
    if irregular:
        _try(out, "n_points", lambda: [int(v[0]) for v in fd.n_points.values()])
        _try(out, "to_dense", lambda: np.asarray(fd.argvals.to_dense()["input_dim_0"], dtype=float).tolist())
    with _Capture() as cap:
        _try(out, "smooth_lp", lambda: _vals(fd.smooth(method="LP", bandwidth=bw, **lpkw)))
        out["lp_inputs"] = cap.lp[:]
    with _Capture() as cap:
        _try(out, "smooth_ps", lambda: _vals(fd.smooth(method="PS", penalty=pen, **pskw)))
        out["ps_fits"] = cap.ps[:]
    # non-default evaluation points (inside the data range, not grid points)
    from FDApy.representation.argvals import DenseArgvals

    tt = np.array(fl([F(x) for x in case["t"]]))
    pts = DenseArgvals({"input_dim_0": np.concatenate([(tt[:-1] + tt[1:]) / 2, tt[-1:]])})
    _try(out, "smooth_lp_pts", lambda: _vals(fd.smooth(points=pts, method="LP", bandwidth=bw, **lpkw)))
    _try(out, "smooth_ps_pts", lambda: _vals(fd.smooth(points=pts, method="PS", penalty=pen, **pskw)))
    _try(out, "mean_lp_pts", lambda: _vals(fd.mean(points=pts, method_smoothing="LP", bandwidth=bw)))
    _try(out, "smooth_ps_canon", lambda: _vals(fd.smooth(method="PS", penalty=pen_canon, **pskw)))
    if irregular:
        _try(out, "smooth_interp", lambda: _vals(fd.smooth(method="interpolation")))
        _try(out, "smooth_interp_pts", lambda: _vals(fd.smooth(points=pts, method="interpolation")))
        _try(out, "smooth_lp_default", lambda: _vals(fd.smooth(method="LP")))
        _try(out, "tb_grid", lambda: _vals(fd.to_basis(penalty=pen, **pskw).to_grid()))
    _try(out, "smooth_ps_default", lambda: _vals(fd.smooth()))
    _try(out, "mean_lp", lambda: _vals(fd.mean(method_smoothing="LP", bandwidth=bw, **lpkw)))
    with _Capture() as cap:
        _try(out, "mean_lp_plain", lambda: _vals(fd.mean(method_smoothing="LP", bandwidth=bw)))
        out["mean_inputs"] = [dict(x=c_["x"], y=c_["y"]) for c_ in cap.lp[:1]]
    with _Capture() as cap:
        _try(out, "mean_ps", lambda: _vals(fd.mean(method_smoothing="PS", penalty=pen, **pskw)))
        out["mean_ps_fit"] = [dict(x=f_["x"], y=f_["y"], w=f_["w"]) for f_ in cap.ps[:1]]
    if irregular:
        _try(out, "mean_interp", lambda: _vals(fd.mean(method_smoothing="interpolation")))
        _try(out, "mean_default", lambda: _vals(fd.mean()))
        _try(out, "center_default", lambda: cont(fd.center()))
    _try(out, "center_lp", lambda: cont(fd.center(method_smoothing="LP", bandwidth=bw)))
    _try(out, "center_given", lambda: cont(fd.center(mean=fd.mean(method_smoothing="LP", bandwidth=bw), method_smoothing="LP", bandwidth=bw)))
    _try(out, "nsq_stand", lambda: np.asarray(fd.norm(squared=True, use_argvals_stand=True), dtype=float).tolist())
    _try(out, "nsq", lambda: np.asarray(fd.norm(squared=True), dtype=float).tolist())
    _try(out, "norm", lambda: np.asarray(fd.norm(), dtype=float).tolist())
    _try(out, "nsq_simpson", lambda: np.asarray(fd.norm(squared=True, method_integration="simpson"), dtype=float).tolist())
    _try(out, "normalize", lambda: cont(fd.normalize()))
    _try(out, "noise", lambda: float(fd.noise_variance(order=case["order"])))
    if irregular:
        _try(out, "cov_raw_nc", lambda: _vals(fd.covariance(smooth=False, center=False))[0])
        _try(out, "cov_raw_lp", lambda: _vals(fd.covariance(smooth=False, method_smoothing="LP", kwargs_center=dict(bandwidth=bw)))[0])
        _try(out, "cov_lp", lambda: _vals(fd.covariance(method_smoothing="LP", bandwidth=bw, kwargs_center=dict(bandwidth=bw)))[0])
        if case.get("extra", True):
            _try(out, "cov_default", lambda: _vals(fd.covariance())[0])
        ppos = max(p0, 0.25)
        cps = dict(n_segments=min(case["nseg"], 4), degree=case["psdeg"])
        _try(out, "cov_ps", lambda: _vals(fd.covariance(method_smoothing="PS", penalty=(ppos, ppos), kwargs_center=dict(penalty=pen_canon, **pskw), **cps))[0])
        _try(out, "cov_ps_nc", lambda: _vals(fd.covariance(method_smoothing="PS", center=False, penalty=(ppos, ppos), **cps))[0])
        # standardisation with every bandwidth explicit (inner centring included)
        skw = dict(bandwidth=bw, kwargs_center=dict(bandwidth=bw))
        for key_, ctr in ((("std_lp", True), ("std_nc_lp", False)) if case.get("extra", True) else (("std_lp", True),)):
            try:
                with warnings.catch_warnings():
                    warnings.simplefilter("ignore")
                    r_ = fd.standardize(center=ctr, **skw)
                out[key_] = _at_observed(r_, fd)
                out[key_ + "_fake"] = _fake_samples(r_, fd)
                if key_ == "std_lp":
                    out["std_full"] = _content(r_)
                    fc = fd.center(**skw)
                    var_ = np.diag(np.asarray(fc.covariance(**skw).values, dtype=float).squeeze())
                    out["std_dev"] = [None if not (v_ >= 0) else float(np.sqrt(v_)) for v_ in var_]
                    out["std_centred"] = _content(fc)
            except Exception as e:
                out[key_] = "error:" + err_class(e) + ":" + str(e)[:80]
        _try(out, "gram_lp", lambda: np.asarray(fd.inner_product(noise_variance=0, method_smoothing="LP", bandwidth=bw), dtype=float).tolist())
        _try(out, "gram_lp_s2", lambda: np.asarray(fd.inner_product(noise_variance=float(F(case.get("s2", "1/4"))), method_smoothing="LP", bandwidth=bw), dtype=float).tolist())
        _try(out, "gram_lp_nv", lambda: np.asarray(fd.inner_product(method_smoothing="LP", bandwidth=bw), dtype=float).tolist())
        _try(out, "gram_default", lambda: np.asarray(fd.inner_product(), dtype=float).tolist())
        _try(out, "rescale_lp", lambda: float(fd.rescale(method_smoothing="LP", bandwidth=bw)[1]))
        _try(out, "rescale_ps", lambda: float(fd.rescale(method_smoothing="PS", penalty=pen, **pskw)[1]))
        _try(out, "rescale_default", lambda: float(fd.rescale()[1]))
        _try(out, "to_basis", lambda: np.asarray(fd.to_basis(penalty=pen, **pskw).coefficients, dtype=float).tolist())
    else:
        _try(out, "cov_raw_nc", lambda: _vals(fd.covariance(center=False))[0])
        _try(out, "cov_lp", lambda: _vals(fd.covariance(method_smoothing="LP", bandwidth=bw, kwargs_center=dict(bandwidth=bw)))[0])
        ppos = max(p0, 0.25)
        cps = dict(n_segments=min(case["nseg"], 4), degree=case["psdeg"])
        _try(out, "cov_ps", lambda: _vals(fd.covariance(method_smoothing="PS", penalty=(ppos, ppos), kwargs_center=dict(penalty=pen_canon, **pskw), **cps))[0])
        _try(out, "cov_ps_nc", lambda: _vals(fd.covariance(method_smoothing="PS", center=False, penalty=(ppos, ppos), **cps))[0])
        _try(out, "gram_none", lambda: np.asarray(fd.inner_product(noise_variance=0), dtype=float).tolist())
        _try(out, "gram_none_s2", lambda: np.asarray(fd.inner_product(noise_variance=float(F(case.get("s2", "1/4")))), dtype=float).tolist())
        _try(out, "gram_lp", lambda: np.asarray(fd.inner_product(noise_variance=0, method_smoothing="LP", bandwidth=bw), dtype=float).tolist())
        _try(out, "to_basis", lambda: np.asarray(fd.to_basis(penalty=pen, **pskw).coefficients, dtype=float).tolist())
    # second call on the same object (state left by the calls above must not matter)
    _try(out, "mean_lp_again", lambda: _vals(fd.mean(method_smoothing="LP", bandwidth=bw, **lpkw)))
    _try(out, "nsq_again", lambda: np.asarray(fd.norm(squared=True), dtype=float).tolist())
    _try(out, "noise_again", lambda: float(fd.noise_variance(order=case["order"])))
    _try(out, "mul", lambda: cont(fd * a))
    _try(out, "rmul", lambda: cont(a * fd))
    _try(out, "addnum", lambda: cont(fd + a))
    _try(out, "divnum", lambda: cont(fd / 4.0))
    return out


def _run_enc(case):
    t = np.array(fl([F(x) for x in case["t"]]))
    V = np.array(fl(_Fm(case["V"])), dtype=float)
    V2 = np.array(fl(_Fm(case["V2"])), dtype=float)
    M = case["M"]
    out = {}
    A, B, D = _build(t, V, M, strided=bool(case.get("strided")))
    if case.get("csv"):
        # the ragged object comes from a real CSV file through read_csv (integer abscissae: the grid is re-labelled)
        import os
        import shutil
        import tempfile

        from FDApy.misc.loader import read_csv

        d = tempfile.mkdtemp(prefix="verif_c15_")
        try:
            p = os.path.join(d, "x.csv")
            with open(p, "w") as fh:
                fh.write(",".join(str(j) for j in range(len(t))) + "\n")
                for r, mk in zip(V, M):
                    fh.write(",".join(repr(float(x)) if b else "" for x, b in zip(r, mk)) + "\n")
            L = read_csv(p)
            out["csv_class"] = type(L).__name__
            tt = np.arange(len(t), dtype=float)
            A2, B2, D2 = _build(tt, V, M)
            ref = D2 if D2 is not None else B2
            got = _dense_content(L) if D2 is not None else _content(L)
            want = _dense_content(ref) if D2 is not None else _content(ref)
            # pandas' default float parser is not round-trip exact (1 ulp): values compared at 4 ulp
            out["csv_same"] = bool(type(L) is type(ref) and len(got) == len(want) and all(
                a[0] == b[0] and a[1] == b[1] and abs(a[2] - b[2]) <= 4 * np.spacing(abs(b[2])) for a, b in zip(got, want)))
        except Exception as e:
            out["csv_error"] = err_class(e)
        finally:
            shutil.rmtree(d, ignore_errors=True)
    out["nan"] = _ops(A, case)
    out["rag"] = _ops(B, case)
    A2, B2, D2 = _build(t, V2, M)
    V2d = np.where(V2 == 0, 1.0, V2)
    A2d, B2d, D2d = _build(t, V2d, M)
    yd = dict(nan=A2d, rag=B2d)
    # NaN encoding only: the second operand misses OTHER samples (same sampling points, so the operands are
    # compatible): the result may only contain samples observed in both operands
    Mb = np.array(M, dtype=bool)
    M3 = Mb.copy()
    g3 = np.random.default_rng(int(abs(V).sum() * 8) % (2 ** 31) + len(t))
    M3 &= g3.uniform(size=Mb.shape) < 0.6
    M3 |= ~Mb & (g3.uniform(size=Mb.shape) < 0.5)
    A3 = _build(t, V2d, M3.astype(int).tolist())[0]
    out["mixed"] = {}
    import operator

    for nm, op in (("add", operator.add), ("sub", operator.sub), ("mul", operator.mul), ("div", operator.truediv), ("floordiv", operator.floordiv)):
        try:
            with warnings.catch_warnings():
                warnings.simplefilter("ignore")
                R = op(A, A3)
            got = np.array([np.asarray(R.values[i], dtype=float) for i in range(len(V))])
            both = Mb & M3
            ref = {"add": V + V2d, "sub": V - V2d, "mul": V * V2d, "div": V / V2d, "floordiv": np.floor_divide(V, V2d)}[nm]
            out["mixed"][nm] = dict(fake=int((~np.isnan(got) & ~both).sum()), lost=int((np.isnan(got) & both).sum()),
                                    wrong=int((~np.isclose(got[both], ref[both], rtol=1e-12, atol=0)).sum()))
        except Exception as e:
            out["mixed"][nm] = "error:" + err_class(e)
    for key, x, y in (("nan", A, A2), ("rag", B, B2)):
        _try(out[key], "add", lambda: _content(x + y))
        _try(out[key], "sub", lambda: _content(x - y))
        _try(out[key], "mulfd", lambda: _content(x * y))
        _try(out[key], "divfd", lambda: _content(x / yd[key]))
        _try(out[key], "floordivfd", lambda: _content(x // yd[key]))
        _try(out[key], "divfd_nsq", lambda: np.asarray((x / yd[key]).norm(squared=True), dtype=float).tolist())
        _try(out[key], "divfd_npoints", lambda: [int(np.sum(~np.isnan(v))) for v in (x / yd[key]).values.values()])
        _try(out[key], "divfd_long", lambda: _long(x / yd[key]))
        _try(out[key], "unchanged", lambda: _content(x) == _content(_build(t, V, M)[0 if key == "nan" else 1]))
    if D is not None:
        out["dense"] = _ops(D, case, irregular=False)
        _try(out["dense"], "add", lambda: _dense_content(D + D2))
        _try(out["dense"], "divfd", lambda: _dense_content(D / D2d))
        _try(out["dense"], "floordivfd", lambda: _dense_content(D // D2d))
    from FDApy.misc.utils import DIFF_SEQUENCES

    out["diffseq"] = [rs(Fraction(float(x))) for x in DIFF_SEQUENCES[case["order"]]]
    return out


def _run_sparsify(case):
    """Data produced by the real sparsifier (NaN encoding) vs the same content re-encoded per curve."""
    from FDApy.representation.argvals import DenseArgvals
    from FDApy.representation.functional_data import DenseFunctionalData
    from FDApy.representation.values import DenseValues
    from FDApy.simulation.simulation import _sparsify_univariate_data

    rs_ = np.random.default_rng(case["seed"])
    n, m = case["n"], case["m"]
    t = np.linspace(0, 1, m)
    X = np.round(rs_.normal(size=(n, m)) * 8) / 8
    D = DenseFunctionalData(DenseArgvals({"input_dim_0": t}), DenseValues(X))
    out = {}
    try:
        S = _sparsify_univariate_data(D, percentage=float(F(case["perc"])), epsilon=0.05, runif=rs_.uniform, rchoice=rs_.choice)
    except Exception as e:
        return {"error": err_class(e)}
    M = [[0 if math.isnan(v) else 1 for v in S.values[i]] for i in range(n)]
    out["M"] = M
    out["nan_encoded"] = all(len(S.argvals[i]["input_dim_0"]) == m for i in range(n))
    out["min_samples"] = min(sum(r) for r in M)
    A, B, _ = _build(t, X, M)
    bw = float(F(case["bw"]))
    out["same_as_nan_twin"] = _content(S) == _content(A)
    for key, fd in (("nan", S), ("rag", B)):
        o = {}
        _try(o, "smooth_lp", lambda: _vals(fd.smooth(method="LP", bandwidth=bw)))
        _try(o, "smooth_ps", lambda: _vals(fd.smooth(method="PS")))
        _try(o, "mean_lp", lambda: _vals(fd.mean(method_smoothing="LP", bandwidth=bw)))
        _try(o, "nsq", lambda: np.asarray(fd.norm(squared=True), dtype=float).tolist())
        _try(o, "noise", lambda: float(fd.noise_variance()))
        _try(o, "to_long", lambda: _long(fd))
        out[key] = o
    out["covered"] = all(any(r[j] for r in M) for j in range(m))
    return out


def _run_big(case):
    g = np.random.default_rng(case["seed"])
    n, m = case["n"], case["m"]
    t = np.linspace(0, 1, m)
    V = np.round((np.sin(3 * t)[None, :] * g.normal(1, 0.3, size=(n, 1)) + g.normal(0, 0.2, size=(n, m))) * 64) / 64
    keep = float(F(case["keep"]))
    probs = np.clip(keep + g.uniform(-0.25, 0.25, size=n), 0.15, 1.0)  # unbalanced missingness
    probs += keep - probs.mean()
    M = (g.uniform(size=(n, m)) < np.clip(probs, 0.05, 1.0)[:, None])
    M[:, 0] |= g.uniform(size=n) < 0.5
    for i in range(n):
        if M[i].sum() < 3:
            M[i, :3] = True
    for j in range(m):
        if not M[:, j].any():
            M[g.integers(n), j] = True
    if case["sub"] == "complete":
        M[:] = True
    A, B, D = _build(t, V, M.astype(int).tolist())
    bw = float(F(case["bw"]))
    out = dict(slots=int(n * m), observed=int(M.sum()))
    if D is not None:
        od = {}
        _try(od, "mean_lp", lambda: _vals(D.mean(method_smoothing="LP", bandwidth=bw)))
        _try(od, "center_lp", lambda: _dense_content(D.center(method_smoothing="LP", bandwidth=bw)))
        _try(od, "noise", lambda: float(D.noise_variance()))
        _try(od, "to_long", lambda: _long(D))
        out["dense"] = od
    out["t"] = [rs(Fraction(float(x))) for x in t]
    out["V"] = [[rs(Fraction(float(x))) for x in r] for r in V]
    out["M"] = M.astype(int).tolist()
    for key, fd in (("nan", A), ("rag", B)):
        o = {}
        with _Capture() as cap:
            _try(o, "mean_lp", lambda: _vals(fd.mean(method_smoothing="LP", bandwidth=bw)))
            o["mean_inputs"] = [dict(x=c["x"], y=c["y"]) for c in cap.lp[:1]]
        with _Capture() as cap:
            _try(o, "mean_lp_exact", lambda: _vals(fd.mean(method_smoothing="LP", bandwidth=bw, approx=False)))
            o["mean_inputs_exact"] = [dict(x=c["x"], y=c["y"]) for c in cap.lp[:1]]
        _try(o, "center_lp", lambda: _content(fd.center(method_smoothing="LP", bandwidth=bw)))
        _try(o, "noise", lambda: float(fd.noise_variance()))
        _try(o, "to_long", lambda: _long(fd))
        out[key] = o
    return out


def run_impl(case):
    if case["kind"] == "enc":
        return _run_enc(case)
    if case["kind"] == "big":
        return _run_big(case)
    return _run_sparsify(case)


# --------------------------------------------------------------------------
# model side
# --------------------------------------------------------------------------

def _M(m):
    return ";".join(",".join(str(x) for x in r) for r in m) if m else "-"


def _exactv(v):
    return ",".join(rs(Fraction(float(x))) for x in v)


def model_lines(case, impl):
    if case["kind"] == "big" and "__crash__" not in impl:
        if impl.get("slots", 0) > 2700:
            return []  # the exact model of the binning is run on the moderate sizes only
        g = ",".join(impl["t"])
        return [f"pool {g} {_M(impl['V'])} {_M(impl['M'])} 1", f"pool {g} {_M(impl['V'])} {_M(impl['M'])} 0"]
    if case["kind"] != "enc" or "__crash__" in impl:
        return []
    g = ",".join(case["t"])
    V, V2, Mk = _M(case["V"]), _M(case["V2"]), _M(case["M"])
    lines = [f"tolong {g} {V} {Mk}", f"npoints {g} {V} {Mk}", f"lpin {g} {V} {Mk}", f"todense {g} {V} {Mk}",
             f"interp {g} {V} {Mk} {g}", f"noise {g} {V} {Mk} {','.join(impl['diffseq'])}",
             f"cov {g} {V} {Mk} {g} -", f"arith {g} {V} {Mk} {V2} {case['a']}"]
    # P-spline: the basis on the grid as the NaN-encoded fit built it (a parameter of the model)
    fits = impl["nan"].get("ps_fits") or []
    if fits and len(fits[0]["x"]) == len(case["t"]) and np.all(np.isfinite(np.array(fits[0]["basis"], dtype=float))):
        Bm = ";".join(_exactv(r) for r in fits[0]["basis"])
        lines.append(f"ps {g} {V} {Mk} {Bm}")
    else:
        lines.append("noop")
    lines.append(f"fmt {g} {V} {Mk} {g}")
    # standardize: the model divides the CENTRED content (taken from the implementation, exact floats) by the deviations
    # the implementation estimated (NaN where the smoothed variance is negative)
    sd, cen = impl["nan"].get("std_dev"), impl["nan"].get("std_centred")
    if isinstance(sd, list) and isinstance(cen, list) and len(sd) == len(case["t"]) and all(math.isfinite(r_[2]) for r_ in cen):
        tt_ = [float(F(x)) for x in case["t"]]
        Vc = [["0"] * len(tt_) for _ in case["V"]]
        for x_, i_, y_ in cen:
            Vc[i_][tt_.index(x_)] = rs(Fraction(float(y_)))
        sdv = ",".join("n" if v_ is None else rs(Fraction(float(v_))) for v_ in sd)
        lines.append(f"std {g} {_M(Vc)} {Mk} {g} {sdv}")
    else:
        lines.append("noop")
    mu = impl["nan"].get("mean_lp_plain")
    if isinstance(mu, list) and np.all(np.isfinite(np.array(mu, dtype=float))):
        muv = _exactv(mu[0])
        lines += [f"center {g} {V} {Mk} {g} {muv}", f"cov {g} {V} {Mk} {g} {muv}", f"gram {g} {V} {Mk} {g} {muv} 0"]
    else:
        lines += ["noop", "noop", "noop"]
    return lines


def parse_model(case, outs):
    return dict(outs=outs)


def _rows(s):
    return [] if s == "-" else [[F(c) for c in r.split(",")] for r in s.split(";")]


def _cmp_rows(name, got, want, exact=True, scale=1.0):
    if isinstance(got, str):
        return [f"{name}: implementation gave {got}"]
    if len(got) != len(want):
        return [f"{name}: {len(got)} rows, model {len(want)}"]
    for k, (a, b) in enumerate(zip(got, want)):
        if float(a[0]) != float(b[0]) or int(a[1]) != int(b[1]):
            return [f"{name} row {k}: impl {a} model {[float(x) for x in b]}"]
        if not math.isfinite(float(a[2])):
            return [f"{name} row {k}: non-finite value {a[2]!r}, model {float(b[2])!r}"]
        if exact:
            if Fraction(float(a[2])) != b[2]:
                return [f"{name} row {k}: value {a[2]!r} model {float(b[2])!r}"]
        elif not close(a[2], b[2], scale, 1e-9):
            return [f"{name} row {k}: value {a[2]!r} model {float(b[2])!r}"]
    return []


def _cmp_mat(name, got, q, scale, rtol=1e-9):
    if isinstance(got, str):
        return [f"{name}: implementation gave {got}"]
    Q = [x for r in pmat(q) for x in r]
    f = np.asarray(got, dtype=float).reshape(-1).tolist()
    if len(f) != len(Q):
        return [f"{name}: size {len(f)} vs model {len(Q)}"]
    for i, (a, b) in enumerate(zip(f, Q)):
        if not close(a, b, scale, rtol):
            return [f"{name}[{i}]: impl {a!r} vs exact {float(b)!r} (scale {scale:.3g})"]
    return []


def _penalty_matrix(K, order):
    D = np.diff(np.eye(K, dtype=int), n=order, axis=0)
    return (D.T @ D).astype(int)


def compare(case, impl, model):
    if "__crash__" in impl:
        return [f"implementation crashed: {impl['__crash__']} {impl.get('msg')} {impl.get('tb', '')[-200:]}"]
    if case["kind"] == "big":
        ds = []
        for line, key in zip(model["outs"], ("mean_inputs", "mean_inputs_exact")):
            for e, s_ in zip(("nan", "rag"), line.split(" | ")):
                want = [] if s_ == "-" else [(float(F(p.split(":")[0])), F(p.split(":")[1])) for p in s_.split(",")]
                got = (impl[e].get(key) or [None])[0]
                if got is None:
                    ds.append(f"{key}[{e}]: the mean smoother was not called")
                    continue
                pairs = list(zip(got["x"], got["y"]))
                if len(pairs) != len(want) or any(a[0] != b[0] or not close(a[1], b[1], max(1.0, abs(float(b[1]))), 1e-12) for a, b in zip(pairs, want)):
                    ds.append(f"{key}[{e}]: the mean smoother did not receive the model's pooled{' / binned' if key == 'mean_inputs' else ''} samples "
                              f"({len(pairs)} samples, model {len(want)})")
        return ds
    if case["kind"] != "enc":
        return []
    o = model["outs"]
    ds = []
    V = np.array(fl(_Fm(case["V"])), dtype=float)
    vs = max(1.0, float(np.abs(V).max()))
    t = fl([F(x) for x in case["t"]])
    span = max(t[-1] - t[0], 1.0)
    encs = ("nan", "rag")
    # to_long, exactly
    for e, s in zip(encs, o[0].split(" | ")):
        ds += _cmp_rows(f"to_long[{e}]", impl[e]["to_long"], _rows(s))
    for e, s in zip(encs, o[1].split(" | ")):
        if impl[e]["n_points"] != [int(x) for x in s.split(",")]:
            ds.append(f"n_points[{e}]: impl {impl[e]['n_points']} model {s}")
    # the samples handed to the local polynomial regression, exactly
    for e, s in zip(encs, o[2].split(" | ")):
        want = [[(float(F(p.split(":")[0])), float(F(p.split(":")[1]))) for p in c.split(",")] if c != "-" else [] for c in s.split(";")]
        got = [list(zip(c["x"], c["y"])) for c in impl[e].get("lp_inputs", [])]
        if isinstance(impl[e].get("smooth_lp"), list):
            same = len(got) == len(want) and all(
                len(a) == len(b) and all(p[0] == q[0] and (p[1] == q[1] or (math.isnan(p[1]) and False)) for p, q in zip(a, b))
                for a, b in zip(got, want))
            if not same:
                ds.append(f"LP inputs[{e}]: the regression did not receive exactly the observed samples")
    for e, s in zip(encs, o[3].split(" | ")):
        if impl[e]["to_dense"] != [float(x) for x in pvec(s)]:
            ds.append(f"to_dense[{e}]: impl {impl[e]['to_dense']} model {s}")
    parts = o[4].split(" | ")
    if len(parts) == 4:
        for e, xs, ns in zip(encs, parts[:2], parts[2:]):
            ds += _cmp_mat(f"smooth(interpolation)[{e}]", impl[e]["smooth_interp"], xs, vs)
            ds += _cmp_mat(f"norm²[{e}]", impl[e]["nsq"], ns, vs * vs * span)
    else:
        ds.append(f"interp: model answered {o[4][:60]}")
    for e, s in zip(encs, o[5].split(" | ")):
        if not close(impl[e]["noise"], F(s), vs * vs, 1e-9):
            ds.append(f"noise_variance[{e}]: impl {impl[e]['noise']!r} exact {float(F(s))!r}")
    parts = o[6].split(" | ")
    for e, s in zip(encs, parts[:2]):
        ds += _cmp_mat(f"raw covariance (center=False)[{e}]", impl[e]["cov_raw_nc"], s, vs * vs)
    parts = o[7].split(" | ")
    names = ["add", "sub", "mulfd", "mul", "addnum", "divfd"]
    for k, nm in enumerate(names):
        for j, e in enumerate(encs):
            ds += _cmp_rows(f"{nm}[{e}]", impl[e][nm], _rows(parts[2 * k + j]), exact=False, scale=vs * vs + 10 + abs(float(F(case["a"]))) * (vs + 1))
    # P-spline: backward error of the implementation's coefficients in the model's exact normal equations
    if o[8] != "noop":
        K = case["nseg"] + case["psdeg"]
        lam = F(case["pen"])
        for e, s in zip(encs, o[8].split(" | ")):
            fits = impl[e].get("ps_fits") or []
            blocks = s.split("@")
            if len(fits) != len(blocks):
                ds.append(f"P-spline fits[{e}]: {len(fits)} fits, model {len(blocks)} curves")
                continue
            for i, (ft, blk) in enumerate(zip(fits, blocks)):
                Am, bm = blk.split("#")
                Aq, bq = pmat(Am), pvec(bm)
                P = _penalty_matrix(K, ft["order"])
                if not np.all(np.isfinite(np.array(ft["beta"], dtype=float))):
                    ds.append(f"P-spline[{e}] curve {i}: non-finite coefficients")
                    break
                beta = [Fraction(float(x)) for x in ft["beta"]]
                rows_ = [[(Aq[k][l] + lam * int(P[k][l])) * beta[l] for l in range(K)] for k in range(K)]
                # rows whose terms are all at rounding level (a basis function without support on the samples and a
                # vanishing penalty term) are judged against the size of the whole system
                tot = max(sum(abs(x) for x in r_) + abs(bq[k]) for k, r_ in enumerate(rows_))
                # pinv on an ill-conditioned normal matrix (tiny/huge penalty, more functions than samples) is not
                # backward stable to 1e-7: the residual tolerance is conditioned on the system
                try:
                    cnd = float(np.linalg.cond(np.array([[float(Aq[k][l] + lam * int(P[k][l])) for l in range(K)] for k in range(K)])))
                except Exception:
                    cnd = float("inf")
                rtol_ = Fraction(min(1e-3, max(1e-7, 1e-12 * cnd))) if math.isfinite(cnd) else Fraction(1, 1000)
                for k in range(K):
                    terms = rows_[k]
                    res = sum(terms) - bq[k]
                    sc = sum(abs(x) for x in terms) + abs(bq[k]) + Fraction(1, 10**5) * tot + Fraction(1, 10**200)
                    if abs(res) > rtol_ * sc:
                        ds.append(f"P-spline[{e}] curve {i}: coefficients do not solve the model's normal equations (row {k}: residual {float(res):.3g}, scale {float(sc):.3g})")
                        break
                if ds:
                    break
    parts = o[9].split(" | ")
    for j, e in enumerate(encs):
        fit = (impl[e].get("mean_ps_fit") or [None])[0]
        if fit is not None and isinstance(impl[e].get("mean_ps"), list):
            fin = np.all(np.isfinite(np.array(fit["y"], dtype=float))) and np.all(np.isfinite(np.array(fit["w"] or [], dtype=float)))
            if not fin or fit["x"] != [float(x) for x in t] or [Fraction(float(y)) for y in fit["y"]] != pvec(parts[j]) or \
                    [Fraction(float(y)) for y in (fit["w"] or [])] != pvec(parts[2 + j]):
                ds.append(f"mean(PS) inputs[{e}]: the P-spline did not receive the model's _format_data values/weights")
    if o[10] != "noop":
        # standardize: every sample of the result (missing ones must stay missing: the rows are the observed cells only)
        sdv = [v_ for v_ in impl["nan"]["std_dev"] if v_ is not None and v_ > 1e-12]
        ssc = vs / min(sdv) if sdv else vs
        for e, s in zip(encs, o[10].split(" | ")):
            if isinstance(impl[e].get("std_full"), list):
                ds += _cmp_rows(f"standardize[{e}]", impl[e]["std_full"], _rows(s), exact=False, scale=max(ssc, 1.0) * 1e2)
    if o[11] != "noop":
        for e, s in zip(encs, o[11].split(" | ")):
            ds += _cmp_rows(f"center[{e}]", impl[e]["center_lp"], _rows(s), exact=False, scale=vs)
        parts = o[12].split(" | ")
        for e, s in zip(encs, parts[:2]):
            ds += _cmp_mat(f"raw covariance (centred)[{e}]", impl[e]["cov_raw_lp"], s, vs * vs, 1e-8)
        if o[13].startswith("error"):
            ds.append(f"gram: model answered {o[13]}")
        else:
            for e, s in zip(encs, o[13].split(" | ")):
                ds += _cmp_mat(f"inner_product[{e}]", impl[e]["gram_lp"], s, vs * vs * span, 1e-8)
    return ds


# --------------------------------------------------------------------------
# the property's own predicate, evaluated on the implementation
# --------------------------------------------------------------------------

ENTRY = {
    "to_long": "to_long", "smooth_lp": "smooth", "smooth_ps": "smooth", "smooth_interp": "smooth", "smooth_lp_default": "smooth",
    "smooth_ps_default": "smooth", "mean_lp": "mean", "mean_lp_plain": "mean", "mean_ps": "mean", "mean_interp": "mean", "mean_default": "mean",
    "center_lp": "center", "center_default": "center", "nsq": "norm", "norm": "norm", "nsq_simpson": "norm", "normalize": "normalize",
    "noise": "noise_variance", "cov_raw_nc": "covariance", "cov_raw_lp": "covariance", "cov_lp": "covariance", "cov_default": "covariance",
    "gram_lp": "inner_product", "gram_lp_nv": "inner_product", "gram_default": "inner_product", "rescale_lp": "rescale",
    "rescale_ps": "rescale", "rescale_default": "rescale", "to_basis": "to_basis", "add": "arithmetic", "sub": "arithmetic",
    "mulfd": "arithmetic", "mul": "arithmetic", "rmul": "arithmetic", "addnum": "arithmetic", "to_dense": "to_dense",
    "mean_lp_again": "mean", "nsq_again": "norm", "noise_again": "noise_variance",
    "arith_add": "arithmetic", "arith_sub": "arithmetic", "arith_mul": "arithmetic", "arith_div": "arithmetic", "arith_floordiv": "arithmetic",
    "smooth_lp_pts": "smooth", "smooth_ps_pts": "smooth", "smooth_interp_pts": "smooth", "mean_lp_pts": "mean",
    "divfd": "arithmetic", "floordivfd": "arithmetic", "divfd_nsq": "arithmetic", "divfd_npoints": "arithmetic", "divfd_long": "arithmetic",
    "cov_ps": "covariance", "cov_ps_nc": "covariance", "std_lp": "standardize", "std_nc_lp": "standardize",
    "center_given": "center", "nsq_stand": "norm", "gram_lp_s2": "inner_product", "divnum": "arithmetic", "tb_grid": "to_basis",
}
DEFAULT_BW = {"smooth_lp_default", "mean_default", "center_default", "cov_default", "gram_default", "rescale_default"}
ROWS = {"to_long", "center_lp", "center_default", "center_given", "normalize", "add", "sub", "mulfd", "mul", "rmul", "addnum", "divnum", "divfd", "floordivfd", "divfd_long", "std_lp", "std_nc_lp"}


def _flat(key, v):
    if key in ROWS:
        return np.array([[r[0], r[1], r[2]] for r in v], dtype=float).reshape(-1)
    return np.asarray(v, dtype=float).reshape(-1)


def _oracle_enc(case, impl):
    vs_ = []
    V = np.array(fl(_Fm(case["V"])), dtype=float)
    M = np.array(case["M"], dtype=bool)
    sc = max(1.0, float(np.abs(V).max()))
    nmiss = int((~M).sum())

    def bad(clause, key, msg, causes=()):
        vs_.append(dict(clause=clause, entry="IrregularFunctionalData." + ENTRY.get(key, key), msg=f"{key}: {msg}", causes=list(causes)))

    A, B = impl["nan"], impl["rag"]
    # P-spline based results are compared with a tolerance conditioned on the fits (tiny or huge penalties and
    # spline spaces larger than the sample make the normal equations ill-conditioned; both encodings then differ
    # by rounding times the condition number, not by a formula)
    cond = 1.0
    for o_ in (A, B):
        for ft in (o_.get("ps_fits") or []):
            try:
                Bm = np.array(ft["basis"], dtype=float)
                w = np.ones(Bm.shape[1]) if ft["w"] is None else np.array(ft["w"], dtype=float)
                P_ = _penalty_matrix(Bm.shape[0], ft["order"]).astype(float)
                cond = max(cond, float(np.linalg.cond(Bm @ np.diag(w) @ Bm.T + float(ft["pen"][0]) * P_)))
            except Exception:
                cond = float("inf")
    ps_tol = min(1e-3, max(1e-7, 1e-11 * cond)) if math.isfinite(cond) else 1e-3
    PS_KEYS = {"smooth_ps", "smooth_ps_pts", "smooth_ps_canon", "mean_ps", "rescale_ps", "to_basis", "tb_grid", "cov_ps", "cov_ps_nc"}
    for key in ENTRY:
        if key not in A or key not in B:
            continue
        a, b = A[key], B[key]
        if isinstance(a, str) or isinstance(b, str):
            if isinstance(a, str) and isinstance(b, str) and a.split(":")[1] == b.split(":")[1]:
                continue  # both encodings reject in the same way
            bad("encoding_independent", key, f"NaN encoding gave {str(a)[:70]}, ragged encoding gave {str(b)[:70]}")
            continue
        fa, fb = _flat(key, a), _flat(key, b)
        # no NaN from finite samples
        for e, f_ in (("NaN", fa), ("ragged", fb)):
            if not np.all(np.isfinite(f_)):
                if key in ("normalize",) and min(A.get("nsq") or [1]) <= 1e-300:
                    continue
                causes = ["lp_receives_nan"] if (e == "NaN" and key in ("smooth_lp", "smooth_lp_default", "rescale_lp", "rescale_default")) else []
                bad("no_nan", key, f"{e} encoding: non-finite result from finite samples", causes)
                break
        else:
            if key in ("to_dense",):
                if a != b:
                    bad("encoding_independent", key, f"union grids differ: {a} vs {b}")
                continue
            mag = max(1.0, float(np.abs(fb).max()) if fb.size else 1.0)
            if fa.shape != fb.shape or not np.all(np.abs(fa - fb) <= (ps_tol if key in PS_KEYS else 1e-7) * mag):
                causes = []
                if key in DEFAULT_BW and nmiss > 0 and A.get("n_points") != B.get("n_points"):
                    causes.append("default_bandwidth_counts_nan")
                d = float(np.abs(fa - fb).max()) if fa.shape == fb.shape else float("nan")
                bad("encoding_independent", key, f"the two encodings of the same content differ: max |Δ| = {d:.3g}", causes)
    # the P-spline fits of both encodings use the same knots (basis columns at the observed points coincide)
    fa, fb = A.get("ps_fits") or [], B.get("ps_fits") or []
    if fa and fb and len(fa) == len(fb):
        for i, (x, y) in enumerate(zip(fa, fb)):
            cols = [j for j, b_ in enumerate(case["M"][i]) if b_]
            Ba = np.array(x["basis"])[:, cols] if len(x["x"]) == len(case["t"]) else None
            Bb = np.array(y["basis"])
            if Ba is not None and (Ba.shape != Bb.shape or not np.allclose(Ba, Bb, rtol=0, atol=1e-9)):
                bad("encoding_independent", "smooth_ps", f"curve {i}: the spline basis of the two encodings differs at the observed points (different knots)")
                break
    # what the operations mean on the content (independent re-computation on the observed samples)
    t = np.array(fl([F(x) for x in case["t"]]))
    for e, o_ in (("NaN", A), ("ragged", B)):
        si = o_.get("smooth_interp")
        if isinstance(si, list) and np.all(np.isfinite(np.array(si, dtype=float))):
            for i in range(len(V)):
                xs, ys = t[M[i]], V[i][M[i]]
                want = []
                for x in t:
                    if x <= xs[0]:
                        want.append(ys[0])
                    elif x >= xs[-1]:
                        want.append(ys[-1])
                    else:
                        k = int(np.searchsorted(xs, x, side="right")) - 1
                        want.append(ys[k] + (x - xs[k]) * (ys[k + 1] - ys[k]) / (xs[k + 1] - xs[k]))
                if not np.allclose(si[i], want, rtol=0, atol=1e-9 * sc):
                    bad("interpolation", "smooth_interp", f"{e} encoding, curve {i}: not the piecewise-linear interpolant of the observed samples (constant outside)")
                    break
        nv = o_.get("noise")
        if isinstance(nv, float) and math.isfinite(nv):
            w = np.array([float(F(x)) for x in impl["diffseq"]])
            per = []
            for i in range(len(V)):
                ys = V[i][M[i]]
                if len(ys) < len(w):
                    per.append(0.0)
                else:
                    per.append(float(np.mean([np.dot(w, ys[k:k + len(w)]) ** 2 for k in range(len(ys) - len(w) + 1)])))
            if abs(nv - float(np.mean(per))) > 1e-9 * sc * sc:
                bad("noise_variance_estimator", "noise", f"{e} encoding: {nv!r} is not the difference-based estimate {float(np.mean(per))!r} of the observed samples")
    for e, o_ in (("NaN", A), ("ragged", B)):
        tb, sp = o_.get("tb_grid"), o_.get("smooth_ps")
        if isinstance(tb, list) and isinstance(sp, list):
            if not np.allclose(np.array(tb), np.array(sp), rtol=0, atol=1e-6 * max(1.0, float(np.abs(np.array(sp)).max()))):
                bad("to_basis_to_grid", "to_basis", f"{e} encoding: to_basis().to_grid() differs from smooth(method='PS') with the same settings")
    for key_ in ("std_lp", "std_nc_lp"):
        k_ = A.get(key_ + "_fake")
        if isinstance(k_, int) and k_ > 0:
            bad("standardize_content", key_, f"NaN encoding: {k_} samples MISSING in the data hold a number (0) after standardize(): "
                "the result has observations the data do not have (the ragged encoding cannot)", ["standardize_fills_missing"])
    # what the mean smoother receives: every observed sample (the binned approximation only above 2000 pooled samples)
    want_pairs = sorted((float(t[j]), float(V[i][j])) for i in range(len(V)) for j in range(len(t)) if M[i][j])
    if len(want_pairs) <= 2000:
        for e, o_ in (("NaN", A), ("ragged", B)):
            mi = (o_.get("mean_inputs") or [None])[0]
            if mi is not None and sorted(zip(mi["x"], mi["y"])) != want_pairs:
                bad("mean_pooling", "mean_lp", f"{e} encoding: the mean smoother received {len(mi['x'])} samples, the data have {len(want_pairs)} "
                    "(every observed sample must be pooled; per-point averages only above 2000 samples)")
    for nm, r in (impl.get("mixed") or {}).items():
        if isinstance(r, str):
            bad("arithmetic_content", "arith_" + nm, f"NaN encoding, operands missing different samples: {r}")
        elif r["fake"] or r["lost"] or r["wrong"]:
            bad("arithmetic_content", "arith_" + nm,
                f"NaN encoding, operands missing different samples: the result has {r['fake']} samples observed in only one operand (or none), "
                f"loses {r['lost']} samples observed in both, {r['wrong']} wrong values")
    for e, o_ in (("NaN", A), ("ragged", B)):
        a_, c_ = o_.get("smooth_ps"), o_.get("smooth_ps_canon")
        if isinstance(a_, list) and isinstance(c_, list) and not np.allclose(np.array(a_), np.array(c_), rtol=0, atol=1e-9 * max(1.0, float(np.abs(np.array(c_)).max()))):
            bad("option_spelling", "smooth_ps", f"{e} encoding: penalty spelled {case.get('penspell')} ({case['pen']}) does not give the result of the tuple-of-floats spelling")
    # second call on the same object
    for again, first in (("mean_lp_again", "mean_lp"), ("nsq_again", "nsq"), ("noise_again", "noise")):
        for e, o_ in (("NaN", A), ("ragged", B)):
            if again in o_ and first in o_ and not isinstance(o_[again], str) and not isinstance(o_[first], str):
                if not np.allclose(_flat(again, o_[again]), _flat(first, o_[first]), rtol=1e-12, atol=1e-12 * sc * sc, equal_nan=True):
                    bad("history", again, f"{e} encoding: the second call on the same object differs from the first")
    for e, o_ in (("NaN", A), ("ragged", B)):
        if o_.get("unchanged") is False:
            bad("history", "arithmetic", f"{e} encoding: the operand was changed by the operations")
    if "csv_error" in impl or impl.get("csv_same") is False:
        bad("encoding_independent", "to_long", f"read_csv of the written table does not give the ragged/dense twin ({impl.get('csv_error', impl.get('csv_class'))})")
    # complete content: the dense twin
    if "dense" in impl:
        Dn = impl["dense"]
        n = len(V)
        pairs = [("to_long", "to_long", 1.0), ("smooth_lp", "smooth_lp", 1.0), ("smooth_ps", "smooth_ps", 1.0),
                 ("smooth_ps_default", "smooth_ps_default", 1.0), ("mean_lp", "mean_lp", 1.0), ("mean_ps", "mean_ps", 1.0),
                 ("center_lp", "center_lp", 1.0), ("nsq", "nsq", 1.0), ("norm", "norm", 1.0), ("nsq_simpson", "nsq_simpson", 1.0),
                 ("normalize", "normalize", 1.0), ("noise", "noise", 1.0), ("cov_raw_nc", "cov_raw_nc", n / (n - 1)),
                 ("cov_lp", "cov_lp", n / (n - 1)), ("gram_lp", "gram_none", 1.0), ("gram_lp", "gram_lp", 1.0),
                 ("add", "add", 1.0), ("mul", "mul", 1.0), ("to_basis", "to_basis", 1.0), ("smooth_lp_pts", "smooth_lp_pts", 1.0),
                 ("smooth_ps_pts", "smooth_ps_pts", 1.0), ("mean_lp_pts", "mean_lp_pts", 1.0), ("center_given", "center_given", 1.0),
                 ("nsq_stand", "nsq_stand", 1.0), ("gram_lp_s2", "gram_none_s2", 1.0), ("divnum", "divnum", 1.0),
                 ("divfd", "divfd", 1.0), ("floordivfd", "floordivfd", 1.0), ("cov_ps_nc", "cov_ps_nc", n / (n - 1))]
        for ki, kd, fac in pairs:
            for e, o_ in (("NaN", A), ("ragged", B)):
                if ki not in o_ or kd not in Dn:
                    continue
                a, d = o_[ki], Dn[kd]
                label = f"{ki}~dense.{kd}"
                if isinstance(a, str) or isinstance(d, str):
                    if isinstance(a, str) != isinstance(d, str):
                        bad("complete_equals_dense", ki, f"{e} encoding gave {str(a)[:60]}, the dense twin gave {str(d)[:60]}")
                    continue
                fa_, fd_ = _flat(ki, a) * fac, _flat(kd, d)
                if ki == "smooth_interp":
                    continue
                if ki == "normalize" and isinstance(Dn.get("nsq"), list) and min(Dn["nsq"]) <= 1e-300:
                    continue  # a zero curve: 0/0 on both sides
                if fa_.shape == fd_.shape:
                    both = ~np.isfinite(fa_) & ~np.isfinite(fd_)  # e.g. 0/0 for a zero curve, on both sides
                    fa_, fd_ = fa_[~both], fd_[~both]
                mag = max(1.0, float(np.abs(fd_).max()) if fd_.size else 1.0)
                if fa_.shape != fd_.shape or not np.all(np.abs(fa_ - fd_) <= (max(1e-6, ps_tol) if ki in PS_KEYS else 1e-6) * mag):
                    causes = []
                    if ki == "mean_ps":
                        causes.append("format_data_keeps_last_value")
                    if ki == "gram_lp" and kd == "gram_lp":
                        causes.append("double_centring")
                    dd = float(np.abs(fa_ - fd_).max()) if fa_.shape == fd_.shape else float("nan")
                    bad("complete_equals_dense", ki, f"[{label}] {e} encoding of complete data differs from the dense twin: max |Δ| = {dd:.3g}", causes)
                    break
        # interpolation of complete data is the data
        for e, o_ in (("NaN", A), ("ragged", B)):
            si = o_.get("smooth_interp")
            if isinstance(si, list) and not np.allclose(np.array(si), V, rtol=0, atol=1e-12 * sc):
                bad("complete_equals_dense", "smooth_interp", f"{e} encoding: interpolating complete data changes them")
    return vs_


def _oracle_sparsify(case, impl):
    vs_ = []
    if "error" in impl:
        return [dict(clause="runs", entry="_sparsify_univariate_data", msg=f"raised {impl['error']}")]

    def bad(clause, key, msg, causes=()):
        vs_.append(dict(clause=clause, entry="IrregularFunctionalData." + ENTRY.get(key, key), msg=f"sparsified data, {key}: {msg}", causes=list(causes)))

    if not impl["nan_encoded"] or not impl["same_as_nan_twin"]:
        bad("encoding_independent", "to_long", "the sparsifier's output is not the NaN encoding of its content")
    for key in ("smooth_lp", "smooth_ps", "mean_lp", "nsq", "noise", "to_long"):
        a, b = impl["nan"][key], impl["rag"][key]
        if isinstance(a, str) or isinstance(b, str):
            if not (isinstance(a, str) and isinstance(b, str)):
                bad("encoding_independent", key, f"{str(a)[:60]} vs {str(b)[:60]}")
            continue
        fa, fb = _flat(key, a), _flat(key, b)
        if not np.all(np.isfinite(fa)):
            bad("no_nan", key, "freshly sparsified data: non-finite result", ["lp_receives_nan"] if key == "smooth_lp" else [])
            continue
        if not impl["covered"] and key in ("smooth_lp", "smooth_ps", "mean_lp", "nsq"):
            continue  # a grid point observed by no curve: outside the quantifier
        mag = max(1.0, float(np.abs(fb).max()) if fb.size else 1.0)
        if fa.shape != fb.shape or not np.all(np.abs(fa - fb) <= 1e-7 * mag):
            bad("encoding_independent", key, "sparsifier output and its per-curve re-encoding differ")
    return vs_


def _oracle_big(case, impl):
    vs_ = []
    if "dense" in impl:
        for key in ("mean_lp", "mean_lp_exact", "center_lp", "noise", "to_long"):
            d_ = impl["dense"].get("mean_lp" if key == "mean_lp_exact" else key)
            for e in ("nan", "rag"):
                a_ = impl[e].get(key)
                entry = "IrregularFunctionalData." + ENTRY.get(key, "mean" if key.startswith("mean") else key)
                if isinstance(a_, str) or isinstance(d_, str) or a_ is None or d_ is None:
                    if isinstance(a_, str) != isinstance(d_, str):
                        vs_.append(dict(clause="complete_equals_dense", entry=entry, msg=f"large complete data, {key}: {str(a_)[:50]} vs dense {str(d_)[:50]}"))
                    continue
                fa, fd_ = _flat(key, a_), _flat(key, d_)
                if fa.shape != fd_.shape or not np.all(np.abs(fa - fd_) <= 1e-8 * max(1.0, float(np.abs(fd_).max()))):
                    dd = float(np.abs(fa - fd_).max()) if fa.shape == fd_.shape else float("nan")
                    vs_.append(dict(clause="complete_equals_dense", entry=entry,
                                    msg=f"complete data, {impl['observed']} pooled samples on generic abscissae, {key} ({e} encoding) differs from the dense twin "
                                        f"with the same settings: max |Δ| = {dd:.3g}"))
                    break
    for key in ("mean_lp", "mean_lp_exact", "center_lp", "noise", "to_long"):
        a, b = impl["nan"][key], impl["rag"][key]
        entry = "IrregularFunctionalData." + ENTRY.get(key, "mean" if key.startswith("mean") else key)
        if isinstance(a, str) or isinstance(b, str):
            if not (isinstance(a, str) and isinstance(b, str)):
                vs_.append(dict(clause="encoding_independent", entry=entry, msg=f"large grid, {key}: {str(a)[:60]} vs {str(b)[:60]}"))
            continue
        fa, fb = _flat(key, a), _flat(key, b)
        if not np.all(np.isfinite(fa)) or not np.all(np.isfinite(fb)):
            vs_.append(dict(clause="no_nan", entry=entry, msg=f"large grid, {key}: non-finite result"))
        elif fa.shape != fb.shape or not np.all(np.abs(fa - fb) <= 1e-7 * max(1.0, float(np.abs(fb).max()))):
            d = float(np.abs(fa - fb).max()) if fa.shape == fb.shape else float("nan")
            vs_.append(dict(clause="encoding_independent", entry=entry,
                            msg=f"large grid ({impl['slots']} cells, {impl['observed']} observed), {key}: the two encodings differ: max |Δ| = {d:.3g}"))
    return vs_


def oracle(case, impl):
    if "__crash__" in impl:
        return [dict(clause="runs", entry=case["kind"], msg=f"crash {impl['__crash__']}: {impl.get('msg')} {impl.get('tb', '')[-300:]}")]
    if case["kind"] == "big":
        return _oracle_big(case, impl)
    if case["kind"] == "enc":
        return _oracle_enc(case, impl)
    return _oracle_sparsify(case, impl)


def nontrivial(case, impl):
    if case["kind"] == "enc" and all(F(x) == 0 for r in case["V"] for x in r):
        return None
    return digest(case)


def classify(case, impl):
    if case["kind"] == "big":
        return ["kind:big", "big:" + case["sub"], "big-straddles-2000:" + str(impl.get("slots", 0) > 2000 >= impl.get("observed", 0))]
    if case["kind"] != "enc":
        return ["kind:sparsify", "sparsify-covered:" + str(impl.get("covered"))]
    M = np.array(case["M"])
    tags = ["kind:enc", "missing:" + case["mk"], "values:" + case["vk"], "n_obs:" + ("2-4" if len(M) <= 4 else "5-8" if len(M) <= 8 else "9-12"),
            "min-samples:" + str(int(M.sum(axis=1).min())), "kernel:" + case["kernel"], "noise-order:" + str(case["order"]),
            "twin:" + ("dense" if "dense" in impl else "-"), "csv:" + str(bool(case.get("csv")))]
    return tags
