"""Generic runner: `python harness/run.py Cxx --tier quick|thorough [--replay f]`.

Spec-module protocol (`harness/cXX.py`); everything JSON-serialisable:

  PROP      = "C08"
  MODULES   = ["FDAProofs.Props.C08"]      Lean modules to build; theorems of
                                            Props/C08.lean are the obligations
  DRIVER    = "Drivers/C08.lean" | None     line-protocol evaluator of the model
  PARALLEL  = True|False                    run_impl in worker processes
  RULE      = "..."                         how cases are generated / what is non-trivial
  PARTIAL   = ["..."]                       clauses only sampled, never proved
  translate()                               optional: regenerate Lean sources from /repo
  gen_cases(rng, tier) -> iterable of case dicts
  witness_cases() -> iterable of case dicts replayed on every run (known findings)
  search_cases(rng, tier) -> extra boundary-biased stream, used only after a break
  run_impl(case) -> dict                    observables of the REAL code on the case
  model_lines(case, impl) -> [str]          requests for the driver ([] = not modelled)
  parse_model(case, outs) -> dict
  compare(case, impl, model) -> [str]       disagreements (empty = agree)
  oracle(case, impl) -> [dict(clause, entry, msg, causes=[...])]
                                            the property's own predicate on the implementation
  nontrivial(case, impl) -> key | None      distinctness / non-triviality rule
  classify(case, impl) -> [tags]            input-distribution histogram

Exit codes: 0 held on everything explored; 1 violation; 2 infrastructure failure.
"""
from __future__ import annotations

import argparse
import importlib
import json
import os
import sys
import time
import traceback

sys.path.insert(0, os.path.dirname(os.path.abspath(__file__)))
import common  # noqa: E402
from common import InfraError, Rng, jsonable  # noqa: E402

common.use_repo()

_SPEC = None


def _impl_worker(case):
    try:
        return _SPEC.run_impl(case)
    except BaseException as e:  # the harness itself must not die on a crash of the code under test
        return {"__crash__": common.err_class(e), "msg": str(e)[:300], "tb": traceback.format_exc()[-800:]}


def _map_impl(spec, cases, workers):
    global _SPEC
    _SPEC = spec
    if getattr(spec, "PARALLEL", False) and len(cases) > 8 and workers > 1:
        import multiprocessing as mp

        ctx = mp.get_context("fork")
        with ctx.Pool(workers) as pool:
            return pool.map(_impl_worker, cases, chunksize=max(1, len(cases) // (workers * 4)))
    return [_impl_worker(c) for c in cases]


def _model(spec, cases, impls):
    """Run the Lean model on all cases with one driver start."""
    if not getattr(spec, "DRIVER", None):
        return [None] * len(cases)
    reqs, spans = [], []
    for c, i in zip(cases, impls):
        try:
            ls = list(spec.model_lines(c, i))
        except Exception as e:
            raise InfraError(f"model_lines failed on {str(c)[:200]}: {e!r}\n{traceback.format_exc()[-600:]}")
        spans.append((len(reqs), len(ls)))
        reqs += ls
    outs = common.run_driver(spec.DRIVER, reqs)
    res = []
    for c, (a, n) in zip(cases, spans):
        if n == 0:
            res.append(None)
        else:
            res.append(spec.parse_model(c, outs[a : a + n]))
    return res


def evaluate(spec, cases, workers):
    impls = _map_impl(spec, cases, workers)
    models = _model(spec, cases, impls)
    disagreements, violations = [], []
    for k, (c, i, m) in enumerate(zip(cases, impls, models)):
        if m is not None:
            try:
                ds = spec.compare(c, i, m)
            except Exception as e:
                ds = [f"compare raised {e!r}"]
            for d in ds:
                disagreements.append(dict(case=c, impl=i, model=m, what=d))
        try:
            vs = spec.oracle(c, i)
        except Exception as e:
            vs = []
            disagreements.append(dict(case=c, impl=i, model=m, what=f"oracle raised {e!r} {traceback.format_exc()[-400:]}"))
        for v in vs:
            v = dict(v)
            v.setdefault("causes", [])
            v.setdefault("entry", "")
            violations.append(dict(case=c, impl=i, model=m, **v))
    return impls, models, disagreements, violations


def covered_by(violation, findings):
    for f in findings:
        if f.get("clause") != violation.get("clause"):
            continue
        eps = f.get("entry_points")
        if eps and violation.get("entry") not in eps:
            continue
        cause = f.get("cause")
        if cause and cause not in violation.get("causes", []):
            continue
        return f
    return None


def write_replay(prop, seed, k, payload):
    os.makedirs(common.REPLAY_DIR, exist_ok=True)
    rel = os.path.join("replays", f"{prop}-{seed}-{k}.json")
    with open(os.path.join(common.VERIF, rel), "w") as fh:
        json.dump(jsonable(payload), fh, indent=1, sort_keys=True)
    return rel


def load_corpus(prop):
    d = os.path.join(common.CORPUS_DIR, prop)
    out = []
    if os.path.isdir(d):
        for f in sorted(os.listdir(d)):
            if f.endswith(".json"):
                c = json.load(open(os.path.join(d, f)))
                c = c.get("case", c)
                c["corpus"] = f
                out.append(c)
    return out


def main():
    ap = argparse.ArgumentParser()
    ap.add_argument("prop")
    ap.add_argument("--tier", default=os.environ.get("VERIF_TIER", "quick"), choices=["quick", "thorough"])
    ap.add_argument("--replay")
    ap.add_argument("--no-proof", action="store_true", help="skip lake build/audit (development only; evidence says so)")
    args = ap.parse_args()
    prop = args.prop
    seed = int(os.environ.get("VERIF_SEED", "0") or 0)
    workers = int(os.environ.get("VERIF_WORKERS", "0") or 0) or min(16, os.cpu_count() or 4)
    t0 = time.time()
    try:
        spec = importlib.import_module(prop.lower())
    except ImportError as e:
        print(f"INFRA: no spec module for {prop}: {e}")
        return 2

    if args.replay:
        return replay(spec, args.replay, workers)

    rng = Rng(f"{prop}-{seed}")
    notes = []
    try:
        # translate + build + audit touch lean/.lake and the generated sources: one check at a time (common.build_lock)
        with common.build_lock():
            if hasattr(spec, "translate"):
                spec.translate()
            # ---------------- 1. prove
            if args.no_proof:
                proof = dict(ok=True, obligations=0, discharged=0, failed=[], theorems=[], checker_cmd="skipped (--no-proof)", wall_s=0)
                notes.append("proof step skipped by --no-proof (development run)")
            else:
                proof = common.prove(prop, spec.MODULES, driver=getattr(spec, "DRIVER", None))
            if args.tier == "thorough" and not args.no_proof and proof["ok"]:
                ok, log, wall = common.leanchecker(spec.MODULES)
                notes.append(f"leanchecker on {spec.MODULES}: {'ok' if ok else 'FAILED'} in {wall:.0f}s")
                if not ok:
                    proof["ok"] = False
                    proof["failed"].append("leanchecker: " + log[-400:])
        # ---------------- 2. correspondence + oracle
        findings = common.load_findings(prop)
        cases = load_corpus(prop)
        n_corpus = len(cases)
        if hasattr(spec, "witness_cases"):
            cases += list(spec.witness_cases())
        n_pre = len(cases)
        cases += list(spec.gen_cases(rng, args.tier))
        impls, models, disagreements, violations = evaluate(spec, cases, workers)
        searched = 0
        broke = (not proof["ok"]) or bool(disagreements)
        new_viol = [v for v in violations if not covered_by(v, findings)]
        if broke and not new_viol and hasattr(spec, "search_cases"):
            # ---------------- 3. search for a failing input on the implementation
            extra = list(spec.search_cases(Rng(f"{prop}-{seed}-search"), args.tier))
            searched = len(extra)
            i2, m2, d2, v2 = evaluate(spec, extra, workers)
            cases += extra
            impls += i2
            models += m2
            disagreements += d2
            violations += v2
            new_viol = [v for v in violations if not covered_by(v, findings)]
    except InfraError as e:
        print(f"INFRA: {e}")
        return 2
    except subprocess_timeout() as e:  # pragma: no cover
        print(f"INFRA: timeout {e}")
        return 2

    # ---------------- 4. report
    exit_code = 0
    lines = []
    known_hit = {}
    for v in violations:
        f = covered_by(v, findings)
        if f:
            known_hit.setdefault(f["id"], (f, v))
    for fid, (f, v) in known_hit.items():
        lines.append(f"KNOWN-FINDING: property={prop} {f['id']}: {f['what']}")
    for f in findings:
        if f["id"] not in known_hit:
            notes.append(f"listed finding {f['id']} was not reproduced by this run")
    k = 0
    seen_clauses = set()
    for v in new_viol:
        key = (v.get("clause"), v.get("entry"))
        if key in seen_clauses:
            continue
        seen_clauses.add(key)
        if len(seen_clauses) > 6:
            break
        k += 1
        rel = write_replay(prop, seed, k, dict(property=prop, kind="failing-input", clause=v.get("clause"), entry=v.get("entry"), msg=v.get("msg"), causes=v.get("causes"), case=v["case"], impl=v["impl"], model=v["model"]))
        lines.append(f"VIOLATION property={prop} replay={rel}")
        exit_code = 1
    if broke and not new_viol:
        k += 1
        payload = dict(property=prop, kind="no-failing-input-found",
                       broken_obligations=proof["failed"][:10],
                       broken_correspondence=[dict(what=d["what"], case=d["case"], impl=d["impl"], model=d["model"]) for d in disagreements[:5]],
                       searched_cases=searched + len(cases),
                       note="the theorem(s)/correspondence named here no longer check; the property predicate evaluated on the implementation found no failing input")
        rel = write_replay(prop, seed, k, payload)
        lines.append(f"VIOLATION property={prop} replay={rel} no-failing-input-found")
        exit_code = 1
    elif broke and new_viol:
        notes.append(f"{len(disagreements)} correspondence disagreements / broken obligations {proof['failed'][:3]} accompanied the reported failing inputs")

    # ---------------- 5. evidence
    keys = set()
    hist = {}
    for c, i in zip(cases, impls):
        try:
            key = spec.nontrivial(c, i) if hasattr(spec, "nontrivial") else common.digest(c)
        except Exception:
            key = None
        if key is not None:
            keys.add(key if isinstance(key, (str, int, tuple)) else common.digest(key))
        if hasattr(spec, "classify"):
            try:
                for tag in spec.classify(c, i):
                    hist[tag] = hist.get(tag, 0) + 1
            except Exception:
                pass
    n_model = sum(1 for m in models if m is not None)
    samples = []
    for c, i, m in list(zip(cases, impls, models))[n_pre : n_pre + 2] + list(zip(cases, impls, models))[:1]:
        samples.append(json.loads(json.dumps(jsonable(dict(case=c, impl=i, model=m)))))
    samples = [trim(s) for s in samples]
    samples.append(dict(obligations=proof["theorems"][:60]))
    cov = dict(
        obligations=proof["obligations"],
        discharged=proof["discharged"],
        checker_cmd=proof["checker_cmd"],
        trusted_base=common.TRUSTED_BASE + list(getattr(spec, "TRUSTED_EXTRA", [])),
        evaluations=len(cases),
        distinct_nontrivial=len(keys),
        rule=getattr(spec, "RULE", ""),
        samples=samples,
        traces_validated_against_impl=n_model,
        disagreements_checked=len(disagreements),
        corpus_cases=n_corpus,
        search_cases=searched,
        histogram=dict(sorted(hist.items())),
        proof_failures=proof["failed"][:20],
        lean_sources_audited=proof.get("sources_audited", []),
        partial_clauses=list(getattr(spec, "PARTIAL", [])),
        known_findings_reproduced=sorted(known_hit),
        oracle_violations_total=len(violations),
        notes=notes,
        exhaustive=bool(getattr(spec, "EXHAUSTIVE", {}).get(args.tier, False)),
    )
    if hasattr(spec, "extra_coverage"):
        try:
            cov.update(spec.extra_coverage(cases, impls, models))
        except Exception as e:
            cov["extra_coverage_error"] = repr(e)
    ev = dict(
        property_id=prop,
        tier=args.tier,
        seed=seed,
        level="proof",
        coverage=cov,
        assumptions=list(getattr(spec, "ASSUMPTIONS", [])) + ["see coverage.trusted_base"],
        wall_s=round(time.time() - t0, 2),
        violations=len(new_viol) + (1 if (broke and not new_viol) else 0),
    )
    # development runs (--no-proof, or another checkout through VERIF_REPO) never overwrite the evidence of record
    ev_dir = common.EVIDENCE_DIR if (not args.no_proof and "VERIF_REPO" not in os.environ) else os.path.join(common.VERIF, "replays", "dev-evidence")
    os.makedirs(ev_dir, exist_ok=True)
    with open(os.path.join(ev_dir, f"{prop}.json"), "w") as fh:
        json.dump(jsonable(ev), fh, indent=1, sort_keys=True)
    for l in lines:
        print(l)
    print(f"{prop} tier={args.tier} seed={seed}: theorems {proof['discharged']}/{proof['obligations']}, cases {len(cases)} (model-compared {n_model}, distinct non-trivial {len(keys)}), disagreements {len(disagreements)}, oracle violations {len(violations)} (new {len(new_viol)}), wall {time.time()-t0:.1f}s -> exit {exit_code}")
    for n in notes:
        print("note:", n)
    if proof["failed"]:
        print("proof failures:", *proof["failed"][:5], sep="\n  ")
    for d in disagreements[:3]:
        print("disagreement:", d["what"], "| case:", json.dumps(jsonable(d["case"]))[:300])
    return exit_code


def subprocess_timeout():
    import subprocess

    return subprocess.TimeoutExpired


def trim(x, depth=0):
    if isinstance(x, dict):
        return {k: trim(v, depth + 1) for k, v in list(x.items())[:24]}
    if isinstance(x, list):
        if len(x) > 12:
            return [trim(v, depth + 1) for v in x[:12]] + [f"... ({len(x)} items)"]
        return [trim(v, depth + 1) for v in x]
    if isinstance(x, str) and len(x) > 400:
        return x[:400] + f"... ({len(x)} chars)"
    return x


def replay(spec, path, workers):
    data = json.load(open(path if os.path.isabs(path) or os.path.exists(path) else os.path.join(common.VERIF, path)))
    if data.get("kind") == "no-failing-input-found":
        cases = [d["case"] for d in data.get("broken_correspondence", [])]
    else:
        cases = [data["case"]]
    if not cases:
        print("replay names broken obligations only:", data.get("broken_obligations"))
        proof = common.prove(spec.PROP, spec.MODULES)
        print("proof ok" if proof["ok"] else "proof still broken: " + "; ".join(proof["failed"][:3]))
        return 0 if proof["ok"] else 1
    try:
        impls, models, disagreements, violations = evaluate(spec, cases, 1)
    except InfraError as e:
        print(f"INFRA: {e}")
        return 2
    findings = common.load_findings(spec.PROP)
    bad = 0
    for v in violations:
        f = covered_by(v, findings)
        tag = f"KNOWN-FINDING {f['id']}" if f else "VIOLATION"
        print(f"{tag}: clause={v.get('clause')} entry={v.get('entry')} {v.get('msg')}")
        bad += 0 if f else 1
    for d in disagreements:
        print("DISAGREEMENT:", d["what"])
        bad += 1
    print("impl:", json.dumps(jsonable(impls))[:1500])
    print("model:", json.dumps(jsonable(models))[:1500])
    if bad:
        print(f"VIOLATION property={spec.PROP} replay={path}")
        return 1
    print("replay: property holds on this input now")
    return 0


if __name__ == "__main__":
    try:
        sys.exit(main())
    except InfraError as e:
        print(f"INFRA: {e}")
        sys.exit(2)
    except Exception:
        traceback.print_exc()
        print("INFRA: harness crashed")
        sys.exit(2)
