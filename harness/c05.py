"""C05 — the P-spline fit is the explicit penalised weighted least-squares solution (1-D/2-D/3-D)."""
from fractions import Fraction
from functools import reduce
import math

import numpy as np

from common import F, Rng, err_class, fl, pvec, rs, digest

PROP = "C05"
MODULES = ["FDAProofs.Props.C05"]
DRIVER = "Drivers/C05.lean"
PARALLEL = True
RULE = (
    "seeded structured cases: PSplines.fit/predict in 1-D, 2-D and 3-D on sorted uniform and non-uniform dyadic grids; "
    "n_segments and degree chosen independently per dimension (different basis sizes AND different grid sizes per "
    "dimension), order_penalty 1..3, penalties 2^-20..2^20 (different per dimension), weights none / binary / real, "
    "default and explicit (wider) domains, int and array options, second fit on the same object. Up to EXACT_MAX "
    "unknowns the Lean driver solves the normal equations exactly (1-D: explicit matrices; n-D: the GLAM array arithmetic) "
    "and y_hat, beta_hat, hat diagonal are compared; above, the exact residual of the implementation's beta_hat is checked "
    "(backward error). A case is non-trivial when the responses are not all zero; distinct by content hash"
)
PARTIAL = [
    "IEEE rounding and conditioning of LAPACK's pinv/lstsq are not modelled: two-stage comparison (direct closeness 1e-7 "
    "relative, else componentwise backward error |A b - r| <= 1e-9 (|A||b|+|r|) with the exact A, r); hat diagonal "
    "tolerance max(1e-7, 1e-13·kappa)",
    "polynomial reproduction is proved for every order <= degree+1 in 1-D (C05.reproduces_polynomials, via Marsden's identity) "
    "and for tensor-product polynomials in 2-D (C05.reproduces_tensor_polynomials_2d); the 3-D tensor version is sampled by "
    "the oracle only; for order > degree+1 the clause is false for every P-spline smoother (open finding "
    "C05-poly-order-exceeds-degree, C05.polynomial_counterexample)",
    "end-to-end leverage bounds of the array arithmetic are proved in 2-D (C05.glam_hat_bounds_2d); in 3-D the ingredients "
    "(glam_hat_3d, tensor_penalty_psd_3d, hat_bounds) are proved but not assembled into one statement",
    "singular normal equations (zero weights): only fitted values at positive weights are compared (unique there, "
    "C05.yhat_unique_on_support)",
]
TRUSTED_EXTRA = [
    "harness/c05_translate.py: syntactic map of the closed formulas of FDApy/preprocessing/smoothing/psplines.py (defaults of "
    "PSplines.__init__, n_functions in fit/predict, np.diff order/axis and Gram product of the penalty, np.repeat/np.tile and the "
    "arguments of _create_permutation for bwb_mat and the inverse, _create_permutation, _row_tensor, _rotate) onto Lean terms and the "
    "NumPy combinators of lean/FDAModel/GLAM.lean (arangeN, outerAdd, flattenF/C, repeatL, tileL, kronOnesRight/Left)",
]
EXACT_MAX = dict(quick=20, thorough=45)
_TIER = ["quick"]


import os as _os

import common as _common
import c05_translate as _translator

GEN_FILE = _os.path.join(_common.LEAN_DIR, "FDAModel", "Generated", "PSplineFormulas.lean")
TRANSLATOR_NOTE = None


def translate():
    """Regenerate Generated/PSplineFormulas.lean from what the source says now.  A source whose shape the translator does not recognise
    (a refactor) is NOT an alarm: the reference translation stored beside the translator is used (not what an earlier run left in
    Generated/), a note is printed and the evidence says that for this run these formulas are tied to the source by the
    correspondence only.  Only a successful translation can break the `*_src_eq_model` obligations."""
    global TRANSLATOR_NOTE
    path = _os.path.join(_common.REPO, *('FDApy', 'preprocessing', 'smoothing', 'psplines.py'))
    here = _os.path.dirname(_os.path.abspath(__file__))
    try:
        src = _translator.lean_source(path)
        TRANSLATOR_NOTE = ("translator: formulas regenerated from the source and re-proved equal to the model (C05.defaults_src_eq_model, C05.n_functions_src_eq_model, C05.penalty_src_eq_model, C05.arrangement_src_eq_model, C05.create_permutation_src_eq_model, C05.row_tensor_src_eq_model, C05.rotate_src_eq_model)")
    except OSError as e:
        raise _common.InfraError(f"translator: cannot read {path}: {e}")
    except (ValueError, SyntaxError, IndexError, AttributeError, KeyError, TypeError, StopIteration) as e:
        TRANSLATOR_NOTE = f"translator: shape of the source not recognised, tie rests on the correspondence only ({e})"
        print("note:", TRANSLATOR_NOTE)
        src = open(_os.path.join(here, "c05_psplineformulas_reference.lean")).read()
    if not _os.path.exists(GEN_FILE) or open(GEN_FILE).read() != src:
        with open(GEN_FILE, "w") as fh:
            fh.write(src)


# --------------------------------------------------------------------------
# generation
# --------------------------------------------------------------------------

def _grid(rng: Rng, m, nice):
    lo = rng.choice([0, 0, -1, 1, Fraction(-7, 2), 10])
    scale = rng.choice([1, 1, 2, 4, Fraction(1, 2)]) if nice else rng.choice([1, 2, 364, Fraction(1, 8), 10, 3])
    if nice:
        uniform = rng.random() < 0.5
        if uniform:
            k = 0
            while 2 ** k < max(m - 1, 1):
                k += 1
            return [F(lo) + F(scale) * Fraction(i, 2 ** k) for i in range(m)]
        ints = sorted(rng.sample(range(0, 4 * m + 1), m))
        k = 0
        while 2 ** k < 4 * m:
            k += 1
        return [F(lo) + F(scale) * Fraction(j, 2 ** k) for j in ints]
    return rng.grid(m, lo=lo, scale=scale)


def _lam(rng: Rng):
    e = rng.choice([0, 0, 1, -1, 2, -3, 5, -8, 10, -12, 16, -20, 20, rng.randint(-20, 20)])
    return Fraction(2) ** e


def _weights(rng: Rng, n, kind):
    if kind == "none":
        return None
    if kind == "binary":
        w = [Fraction(rng.random() < 0.75) for _ in range(n)]
        if not any(w):
            w[rng.randrange(n)] = Fraction(1)
        return w
    if kind == "const":  # all weights equal: non-unit constants (and explicit ones), tiny and large
        c = rng.choice([Fraction(1, 4), Fraction(7), Fraction(1, 2), Fraction(3), Fraction(1, 64), Fraction(100), Fraction(1)])
        return [c] * n
    if kind == "sparse":  # mostly zero: singular normal equations
        w = [Fraction(0)] * n
        for _ in range(max(1, n // 6)):
            w[rng.randrange(n)] = Fraction(1)
        return w
    w = [rng.choice([Fraction(0), Fraction(1, 2), Fraction(1), Fraction(2), rng.dyadic(0, 4, 3)]) for _ in range(n)]
    if not any(w):
        w[rng.randrange(n)] = Fraction(1)
    return w


def _responses(rng: Rng, grids, kind):
    """Responses on the product grid, flat row-major."""
    shape = [len(g) for g in grids]
    n = int(np.prod(shape))
    if kind == "zeros":
        return [Fraction(0)] * n
    if kind == "rand":
        return rng.dyadics(n, -8, 8, 3)
    # smooth: low-order polynomial in the coordinates plus a little noise
    coef = [rng.dyadic(-2, 2, 2) for _ in grids]
    out = []
    for idx in np.ndindex(*shape):
        v = Fraction(0)
        for c, g, i in zip(coef, grids, idx):
            u = (g[i] - g[0]) / (g[-1] - g[0]) if g[-1] != g[0] else Fraction(0)
            v += c * u * u + u
        out.append(v + (rng.dyadic(-1, 1, 3) if kind == "noisy" else 0))
    return out


def _dim(rng: Rng, maxnb, nice, big=False):
    p = rng.randint(1, 5)
    nseg = rng.choice([1, 2, rng.randint(1, 25), rng.randint(1, 8), rng.randint(1, 8)])
    while nseg + p > maxnb:
        if nseg > 1:
            nseg = max(1, nseg // 2)
        else:
            p -= 1
    return nseg, max(p, 1)


def _case(rng: Rng, d, tier, mode=None):
    nice = rng.random() < 0.6
    budget = EXACT_MAX[tier]
    if d == 1:
        maxnb = [rng.choice([8, 12, 12, 16, budget, 30])]
    elif d == 2:
        maxnb = rng.choice([[3, 4], [4, 3], [2, 6], [5, 3], [3, 7], [4, 5], [6, 4], [4, 6], [2, 9], [8, 3], [7, 9], [10, 6]])
    else:
        maxnb = rng.choice([[2, 2, 3], [2, 3, 2], [3, 2, 2], [2, 3, 3], [3, 2, 4], [3, 3, 2]])
    dims = []
    for k in range(d):
        nseg, p = _dim(rng, maxnb[k], nice)
        m = rng.randint(max(3, (nseg + p) // 2), max(4, min(3 * (nseg + p), 40 if d == 1 else (14 if d == 2 else 6))))
        if rng.random() < (0.18 if d == 1 else 0.07):
            m = rng.choice([2, 2, 3])  # tiny grid in this dimension (under-determined: singular or penalty-driven)
        x = _grid(rng, m, nice)
        wide = rng.random() < 0.25
        dmin, dmax = (x[0] - rng.choice([Fraction(1, 2), 1, 0]), x[-1] + rng.choice([Fraction(1, 4), 2, 0])) if wide else (x[0], x[-1])
        dims.append(dict(nseg=nseg, p=p, lam=rs(_lam(rng)), x=[rs(v) for v in x], wide=wide, dmin=rs(dmin), dmax=rs(dmax)))
    grids = [[F(v) for v in dd["x"]] for dd in dims]
    n = int(np.prod([len(g) for g in grids]))
    wk = rng.choice(["none", "binary", "real", "real", "const", "sparse"]) if d == 1 else rng.choice(["none", "binary", "real", "const"])
    w = _weights(rng, n, wk)
    yk = rng.choice(["rand", "smooth", "noisy", "noisy", "zeros"] if rng.random() < 0.1 else ["rand", "smooth", "noisy", "noisy"])
    y = _responses(rng, grids, yk)
    c = dict(kind=f"fit{d}", d=d, ord=rng.randint(1, 3), dims=dims, y=[rs(v) for v in y], w=None if w is None else [rs(v) for v in w],
             wk=wk, yk=yk, int_opts=(d > 1 and rng.random() < 0.15), history=rng.random() < 0.35,
             default_penalty=rng.random() < 0.08, a=rs(rng.dyadic(-3, 3, 2)), c=rs(rng.dyadic(-3, 3, 2)), sub=rng.randint(0, 10 ** 6),
             wscale=rs(rng.choice([Fraction(1, 4), Fraction(7), Fraction(1, 32), Fraction(3), Fraction(64)])))
    if c["int_opts"]:
        for dd in c["dims"][1:]:
            dd["nseg"], dd["p"] = c["dims"][0]["nseg"], c["dims"][0]["p"]
    if c["default_penalty"]:
        for dd in c["dims"]:
            dd["lam"] = "1"
    return c


EXHAUSTIVE = dict(quick=False, thorough=True)


def _dtype_cases():
    """Value dtypes / containers of every array argument, on mathematically identical inputs (integer responses and
    grids, weights 0, 1/4, 1/2, 3/2, 2, … or integers or 0/1, integer penalties): the exact model is fed the same numbers."""
    rng = Rng("C05-dtype-block")
    ydts = ["int64", "int32", "float32", "float64"]
    wkinds = [("real", "float64"), ("real", "float32"), ("real", "list"), ("int", "int64"), ("int", "int32"), ("bool", "bool"), ("none", None)]
    xdts = ["float64", "int64", "int32", "list", "float32"]
    pens = ["int", "npint", "list", "array", None]
    k = 0
    for d in (1, 2):
        for ydt in ydts:
            for wk, wdt in (wkinds if d == 1 else wkinds[:2] + wkinds[3:4] + wkinds[5:6]):
                k += 1
                dims = []
                for _ in range(d):
                    p = rng.randint(1, 3)
                    nseg = rng.randint(1, 3 if d == 1 else 2)
                    m = rng.randint(4, 9 if d == 1 else 5)
                    x = sorted(rng.sample(range(0, 3 * m), m))
                    dims.append(dict(nseg=nseg, p=p, lam=rs(Fraction(rng.choice([1, 2, 4]))), x=[rs(Fraction(v)) for v in x], wide=False,
                                     dmin=rs(Fraction(x[0])), dmax=rs(Fraction(x[-1]))))
                n = int(np.prod([len(dd["x"]) for dd in dims]))
                y = [Fraction(rng.randint(-8, 8)) for _ in range(n)]
                if wk == "none":
                    w = None
                elif wk == "real":
                    w = [rng.choice([Fraction(1, 4), Fraction(1, 2), Fraction(3, 2), Fraction(2), Fraction(3, 4), Fraction(1)]) for _ in range(n)]
                elif wk == "int":
                    w = [Fraction(rng.choice([0, 1, 2, 3, 1])) for _ in range(n)]
                else:
                    w = [Fraction(rng.random() < 0.8) for _ in range(n)]
                if w is not None and not any(w):
                    w[0] = Fraction(1)
                yield dict(kind=f"fit{d}", d=d, ord=rng.randint(1, 2), dims=dims, y=[rs(v) for v in y], w=None if w is None else [rs(v) for v in w],
                           wk="dtype-" + wk, yk="rand", int_opts=False, history=False, default_penalty=False, a="2", c="-1", sub=3 * k + 1,
                           wscale="1/4", dtypes=dict(y=ydt, w=wdt, x=xdts[k % len(xdts)], pen=pens[k % len(pens)]))


def _default_cases():
    """`PSplines()` with every option left to its default: the model is given n_segments = 10, degree = 3, order 2."""
    rng = Rng("C05-defaults")
    for d in (1, 2):
        dims = []
        for _ in range(d):
            m = rng.randint(14, 18) if d == 1 else rng.randint(4, 5)
            x = rng.grid(m, lo=0, scale=2)
            dims.append(dict(nseg=10, p=3, lam=rs(Fraction(1)), x=[rs(v) for v in x], wide=False, dmin=rs(x[0]), dmax=rs(x[-1])))
        n = int(np.prod([len(dd["x"]) for dd in dims]))
        yield dict(kind=f"fit{d}", d=d, ord=2, dims=dims, y=[rs(v) for v in rng.dyadics(n, -4, 4, 2)], w=None, wk="none", yk="rand",
                   int_opts=False, history=False, default_penalty=(d == 1), a="1", c="2", sub=11, wscale="1/4", use_defaults=True)


def _layout_cases():
    """Memory layout of every array argument (responses, weights, grids) in 1-D, 2-D and 3-D: the same numbers must give the
    same fit.  Fortran order, transposed views, negative strides, non-contiguous slices, read-only arrays."""
    rng = Rng("C05-layout-block")
    k = 0
    for d in (1, 2, 3):
        for ylay in ("F", "T", "neg", "strided", "readonly"):
            for wlay in ((None, "same") if d > 1 else ("same",)):
                k += 1
                dims = []
                for j in range(d):
                    p = rng.randint(1, 2)
                    nseg = rng.randint(1, 2) if d > 1 else rng.randint(2, 4)
                    m = [rng.randint(6, 10)] if d == 1 else ([4, 5, 3] if d == 3 else [5, 4])
                    mm = m[j] if d > 1 else m[0]
                    x = rng.grid(mm, lo=rng.choice([0, 1, -2]), scale=2)
                    dims.append(dict(nseg=nseg, p=p, lam=rs(Fraction(rng.choice([1, 2, Fraction(1, 2)]))), x=[rs(v) for v in x], wide=False,
                                     dmin=rs(x[0]), dmax=rs(x[-1])))
                n = int(np.prod([len(dd["x"]) for dd in dims]))
                w = None if wlay is None else [rng.choice([Fraction(1, 2), Fraction(1), Fraction(2), Fraction(0), Fraction(3, 2)]) for _ in range(n)]
                if w is not None and not any(w):
                    w[0] = Fraction(1)
                yield dict(kind=f"fit{d}", d=d, ord=rng.randint(1, 2), dims=dims, y=[rs(v) for v in rng.dyadics(n, -4, 4, 2)],
                           w=None if w is None else [rs(v) for v in w], wk="layout-" + ("real" if w else "none"), yk="rand", int_opts=False,
                           history=False, default_penalty=False, a="2", c="-1", sub=6 * k + 2, wscale="1/4",
                           layout=dict(y=ylay, w=(ylay if wlay == "same" else None), x=("neg" if k % 3 == 0 else "strided" if k % 3 == 1 else None)))


def _scale_cases():
    """Domains of tiny absolute length (2^-20, 2^-30, [2e-7, 5e-7]) and unit-length domains at offset ±2^20: fit and predict
    (points next to the knots) judged against the exact model — absolute thresholds in the basis code would show up."""
    rng = Rng("C05-scale-block")
    doms = [(Fraction(0), Fraction(1, 2 ** 20)), (F(2e-7), F(5e-7)), (Fraction(0), Fraction(1, 2 ** 30)), (Fraction(2 ** 20), Fraction(2 ** 20 + 1)),
            (Fraction(-2 ** 20 - 2), Fraction(-2 ** 20))]
    for k, (a, b) in enumerate(doms):
        p, nseg = [1, 3, 2, 3, 2][k], [4, 5, 4, 3, 5][k]
        h = (b - a) / nseg
        pts = {a, b}
        for j in range(nseg + 1):
            for off in (Fraction(0), -h / 64, h / 64, h / 3):
                q = Fraction(float(a + j * h + off))
                if a <= q <= b:
                    pts.add(q)
        x = sorted(pts)
        dims = [dict(nseg=nseg, p=p, lam=rs(Fraction(1, 4)), x=[rs(v) for v in x], wide=False, dmin=rs(a), dmax=rs(b))]
        yield dict(kind="fit1", d=1, ord=2 if p > 1 else 1, dims=dims, y=[rs(v) for v in rng.dyadics(len(x), -4, 4, 2)], w=None, wk="none", yk="rand",
                   int_opts=False, history=False, default_penalty=False, a="1", c="1", sub=4 * k + 1, wscale="1/4", scale_case=True)


def _zero_slice_cases():
    """n-D fits in which a COMPLETE slice of the array (a whole row, column or slab) has weight zero while the rest is observed:
    the fitted values there are the tensor-product spline B'beta, not 0."""
    rng = Rng("C05-zero-slice-block")
    k = 0
    for d in (2, 3):
        for axis in range(d):
            k += 1
            dims = []
            for j in range(d):
                m = ([6, 5] if d == 2 else [4, 3, 4])[j]
                x = rng.grid(m, lo=0, scale=2)
                dims.append(dict(nseg=rng.randint(1, 2), p=rng.randint(1, 2), lam=rs(Fraction(rng.choice([1, Fraction(1, 2), 2]))), x=[rs(v) for v in x],
                                 wide=False, dmin=rs(x[0]), dmax=rs(x[-1])))
            shape = [len(dd["x"]) for dd in dims]
            w = np.ones(shape)
            idx = [slice(None)] * d
            idx[axis] = rng.randrange(shape[axis])
            w[tuple(idx)] = 0.0
            if k % 2 == 0:
                w[w > 0] = 0.5
            n = int(np.prod(shape))
            yield dict(kind=f"fit{d}", d=d, ord=rng.randint(1, 2), dims=dims, y=[rs(v) for v in rng.dyadics(n, -4, 4, 2)],
                       w=[rs(Fraction(float(v))) for v in w.ravel()], wk="zero-slice", yk="rand", int_opts=False, history=False, default_penalty=False,
                       a="1", c="2", sub=10 * k + 3, wscale="1/4")


def gen_cases(rng: Rng, tier):
    _TIER[0] = tier
    yield from _zero_slice_cases()
    yield from _scale_cases()
    yield from _layout_cases()
    yield from _dtype_cases()
    yield from _default_cases()
    n = dict(quick=136, thorough=1400)[tier]
    plan = [1, 2, 1, 2, 3, 1, 2, 2]
    if tier == "thorough":
        # exhaustive small scope: every (degree, order) in 1-D, every pair of degrees 1..3 in 2-D (orders 1..3)
        for p in range(1, 6):
            for order in range(1, 4):
                c = _case(rng, 1, tier)
                c["dims"][0]["p"], c["dims"][0]["nseg"], c["ord"] = p, rng.randint(1, 6), order
                yield c
        for p1 in range(1, 4):
            for p2 in range(1, 4):
                for order in range(1, 4):
                    c = _case(rng, 2, tier)
                    c["int_opts"] = False
                    c["dims"][0]["p"], c["dims"][1]["p"], c["ord"] = p1, p2, order
                    c["dims"][0]["nseg"], c["dims"][1]["nseg"] = rng.randint(1, 3), rng.randint(1, 4)
                    yield c
    for k in range(n):
        yield _case(rng, plan[k % len(plan)], tier)


def search_cases(rng, tier):
    yield from gen_cases(rng, tier)


WITNESS_POLY = dict(
    kind="fit1", d=1, ord=3,
    dims=[dict(nseg=3, p=1, lam="1", x=["0", "1/4", "1/2", "3/4", "1", "3/2", "2", "5/2", "3"], wide=False, dmin="0", dmax="3")],
    y=["0", "1/16", "1/4", "9/16", "1", "9/4", "4", "25/4", "9"], w=None, wk="none", yk="smooth", int_opts=False, history=False,
    default_penalty=False, a="1", c="1", sub=7, poly_coefs=[["0", "0", "9"]], witness="C05-poly-order-exceeds-degree")


def witness_cases():
    """Open finding C05-poly-order-exceeds-degree: degree 1, order 3, quadratic responses."""
    return [dict(WITNESS_POLY)]


# --------------------------------------------------------------------------
# implementation side
# --------------------------------------------------------------------------

def _Fv(v):
    return [F(x) for x in v]


def _setup(case):
    dims = case["dims"]
    xs = [np.array(fl(_Fv(dd["x"]))) for dd in dims]
    shape = [len(x) for x in xs]
    y = np.array(fl(_Fv(case["y"]))).reshape(shape)
    w = None if case["w"] is None else np.array(fl(_Fv(case["w"]))).reshape(shape)
    return xs, shape, y, w


def _new(case):
    from FDApy.preprocessing.smoothing.psplines import PSplines

    dims = case["dims"]
    if case.get("use_defaults"):  # PSplines(): the model's defaults 10 / 3 / 2 (C05.defaults_src_eq_model ties them to the source)
        return PSplines()
    if case.get("int_opts") or case["d"] == 1 and case["sub"] % 2 == 0:
        return PSplines(n_segments=int(dims[0]["nseg"]), degree=int(dims[0]["p"]), order_penalty=case["ord"])
    return PSplines(n_segments=np.array([dd["nseg"] for dd in dims]), degree=np.array([dd["p"] for dd in dims]), order_penalty=case["ord"])


_NP = {"int64": np.int64, "int32": np.int32, "float32": np.float32, "float64": np.float64, "bool": np.bool_}


def _cast(a, dt):
    """The same numbers in another storage type (only when the conversion is lossless, so that the mathematical
    input — hence the exact model's answer — is unchanged); 'list' gives nested Python lists."""
    if a is None or not dt:
        return a
    a = np.asarray(a)
    if dt == "list":
        return a.tolist()
    b = a.astype(_NP[dt])
    return b if np.array_equal(b.astype(np.float64), a.astype(np.float64)) else a


def _layout(a, kind):
    """The same numbers in another memory layout: Fortran order, transposed view of a C array, negative stride, non-contiguous
    slice of a larger array."""
    if a is None or not kind or isinstance(a, list):
        return a
    a = np.asarray(a)
    if kind == "F":
        return np.asfortranarray(a)
    if kind == "T":
        return np.ascontiguousarray(a.T).T
    if kind == "neg":
        return np.ascontiguousarray(a[::-1])[::-1]
    if kind == "strided":
        b = np.full(a.shape[:-1] + (2 * a.shape[-1],), np.nan, dtype=a.dtype)
        b[..., ::2] = a
        return b[..., ::2]
    if kind == "readonly":
        b = a.copy()
        b.setflags(write=False)
        return b
    raise ValueError(kind)


def _fit(ps, case, y, xs, w):
    dims = case["dims"]
    dt = case.get("dtypes") or {}
    y = _cast(y, dt.get("y"))
    w = _cast(w, dt.get("w"))
    xs = [_cast(x, dt.get("x")) for x in xs]
    lay = case.get("layout") or {}
    y = _layout(y, lay.get("y"))
    w = _layout(w, lay.get("w"))
    xs = [_layout(x, lay.get("x")) for x in xs]
    kw = {}
    if any(dd["wide"] for dd in dims):
        kw["domain_min"] = [float(F(dd["dmin"])) for dd in dims]
        kw["domain_max"] = [float(F(dd["dmax"])) for dd in dims]
    pen = None if case.get("default_penalty") else tuple(float(F(dd["lam"])) for dd in dims)
    if pen is not None and dt.get("pen") and all(v == int(v) for v in pen):
        pen = {"int": tuple(int(v) for v in pen), "npint": tuple(np.int64(v) for v in pen), "list": [float(v) for v in pen],
               "array": np.array(pen, dtype=np.int32)}[dt["pen"]]
    x_arg = xs[0] if case["d"] == 1 and case["sub"] % 3 != 0 and not isinstance(xs[0], list) else list(xs)
    ps.fit(y, x_arg, sample_weights=w, penalty=pen, **kw)
    return ps


def _sub_grids(case, xs):
    """A query grid per dimension: a strict subset of the fitting grid plus new interior points."""
    rng = Rng(f"sub-{case['sub']}")
    out = []
    for x in xs:
        idx = sorted(rng.sample(range(len(x)), max(1, len(x) // 2)))
        pts = [Fraction(float(x[i])) for i in idx]
        for _ in range(2):
            i = rng.randrange(len(x) - 1)
            mid = (Fraction(float(x[i])) + Fraction(float(x[i + 1]))) / 2
            if Fraction(float(mid)) == mid:
                pts.append(mid)
        out.append((idx, sorted(set(pts))))
    return out


def _variant_grid(x, kind):
    """Another sampling grid derived from `x` (float arrays; every variant is strictly increasing)."""
    if kind == "same" or len(x) < 2:
        return x.copy()
    x0, xn = x[0], x[-1]
    u = (x - x0) / (xn - x0)
    if kind == "warp":      # same length, same end points, other interior points
        return x0 + (xn - x0) * u ** 2
    if kind == "unwarp":    # same length and end points, uniform interior
        return np.linspace(x0, xn, len(x))
    if kind == "shift":     # same length and spacing, other range
        return x + 1.5 * (xn - x0)
    return np.linspace(x0, xn, len(x) + 2)  # "longer"


def _history(ps, case, xs):
    """Fit `ps` a few times before the fit under test; return a description of the first step whose results
    differ from those of a fresh object given the same inputs (None if all agree)."""
    rng = Rng(f"hist-{case['sub']}")
    d = case["d"]
    dims = case["dims"]
    bad = None
    for step in range(rng.randint(1, 3)):
        kinds = [rng.choice(["warp", "warp", "unwarp", "same", "shift", "longer"]) for _ in range(d)]
        gx = [_variant_grid(x, k) for x, k in zip(xs, kinds)]
        shp = [len(g) for g in gx]
        n = int(np.prod(shp))
        y0 = np.array([float(rng.dyadic(-4, 4, 2)) for _ in range(n)]).reshape(shp)
        w0 = np.array([float(rng.choice([0, 1, 1, 2])) for _ in range(n)]).reshape(shp)
        if not w0.any():
            w0.flat[0] = 1.0
        kw = {}
        if any(dd["wide"] for dd in dims) and rng.random() < 0.7:
            kw["domain_min"] = [float(F(dd["dmin"])) for dd in dims]
            kw["domain_max"] = [float(F(dd["dmax"])) for dd in dims]
        pen = tuple(2.0 ** rng.randint(-3, 3) for _ in range(d))
        x_arg = gx[0] if d == 1 and rng.random() < 0.5 else list(gx)
        ps.fit(y0, x_arg, sample_weights=w0, penalty=pen, **kw)
        p1 = np.asarray(ps.predict(list(gx) if d > 1 else gx[0]))
        fr = _new(case)
        fr.fit(y0, x_arg, sample_weights=w0, penalty=pen, **kw)
        same = (np.array_equal(np.asarray(ps.y_hat), np.asarray(fr.y_hat), equal_nan=True)
                and np.array_equal(np.asarray(ps.diagnostics["hat_matrix"]), np.asarray(fr.diagnostics["hat_matrix"]), equal_nan=True)
                and np.array_equal(p1, np.asarray(fr.predict(list(gx) if d > 1 else gx[0])), equal_nan=True))
        if not same and bad is None:
            bad = f"step {step} (grids {kinds}): y_hat / hat / predict of the re-used object differ from a fresh fit on the same inputs"
        ps.predict([g[:2] for g in gx] if d > 1 else gx[0][:2])
    return bad


def _snapshot():
    """Mutable state that is shared between instances: class attributes of PSplines and module globals of the
    smoothing / basis modules (lists, dicts, sets, arrays) — must not change when objects are fitted."""
    import FDApy.misc.basis as mb
    import FDApy.preprocessing.smoothing.psplines as mp

    snap = {}
    spaces = [("PSplines", vars(mp.PSplines)), ("psplines.py", vars(mp)), ("misc/basis.py", vars(mb))]
    for nm, ns in spaces:
        for k, v in list(ns.items()):
            if k.startswith("__") and k.endswith("__"):
                continue
            if isinstance(v, (list, dict, set, bytearray)):
                snap[f"{nm}.{k}"] = repr(v)[:200]
            elif isinstance(v, np.ndarray):
                snap[f"{nm}.{k}"] = repr(v.tolist())[:200]
    return snap


def _interleave(ps, case, xs, y, w, out):
    """Other estimator objects are created, fitted and used between two uses of the object under test: on another
    range, with other sizes, sometimes another dimension.  Returns the first inconsistency (None if none)."""
    from FDApy.preprocessing.smoothing.psplines import PSplines

    rng = Rng(f"inter-{case['sub']}")
    d = case["d"]
    arg = lambda g, dd: g[0] if dd == 1 else list(g)  # noqa: E731
    y_hat0 = np.asarray(ps.y_hat).copy()
    hat0 = np.asarray(ps.diagnostics["hat_matrix"]).copy()
    pred0 = np.asarray(ps.predict(arg(xs, d))).copy()
    others = []
    for k in range(rng.randint(1, 2)):
        dB = rng.choice([1, 2, d])
        gB = [np.linspace(float(rng.choice([-50, 3, 1000])), float(rng.choice([2000, 5000])), rng.randint(5, 8)) for _ in range(dB)]
        yB = np.array([float(rng.dyadic(-4, 4, 2)) for _ in range(int(np.prod([len(g) for g in gB])))]).reshape([len(g) for g in gB])
        B = PSplines(n_segments=np.array([rng.randint(1, 3) for _ in range(dB)]), degree=np.array([rng.randint(1, 3) for _ in range(dB)]),
                     order_penalty=rng.randint(1, 2))
        B.fit(yB, arg(gB, dB), penalty=tuple(2.0 ** rng.randint(-2, 2) for _ in range(dB)))
        others.append((B, gB, dB, np.asarray(B.y_hat).copy()))
        # the object under test must not have noticed
        try:
            p1 = np.asarray(ps.predict(arg(xs, d)))
        except Exception as e:  # noqa: BLE001
            return f"after another PSplines object was fitted ({dB}-D), predict(fit grid) of the first object raises {err_class(e)}: {str(e)[:80]}"
        if p1.shape != pred0.shape:
            return f"after another PSplines object was fitted ({dB}-D), predict(fit grid) of the first object has shape {p1.shape} instead of {pred0.shape}"
        if not np.array_equal(p1, pred0, equal_nan=True):
            sc = max(np.abs(y_hat0).max(), 1e-300)
            return f"after another PSplines object was fitted ({dB}-D, range [{gB[0][0]}, {gB[0][-1]}]), predict(fit grid) of the first object moved by {np.nanmax(np.abs(p1 - pred0)) / sc:.3g} (relative)"
        if not np.array_equal(np.asarray(ps.y_hat), y_hat0, equal_nan=True):
            return "fitting another PSplines object changed y_hat of the first one"
    # refit the object under test with the same inputs, then go back to the others
    _fit(ps, case, y, xs, w)
    if not (np.array_equal(np.asarray(ps.y_hat), y_hat0, equal_nan=True) and np.array_equal(np.asarray(ps.diagnostics["hat_matrix"]), hat0, equal_nan=True)
            and np.array_equal(np.asarray(ps.predict(arg(xs, d))), pred0, equal_nan=True)):
        return "refitting the first object with the same inputs after other objects were used gives other results"
    for B, gB, dB, yB0 in others:
        pB = np.asarray(B.predict(arg(gB, dB)))
        if not np.allclose(pB, yB0, rtol=0, atol=1e-10 * max(np.abs(yB0).max(), 1e-300)):
            return f"after the first object was refitted, predict(fit grid) of another object ({dB}-D) differs from its y_hat by {np.abs(pB - yB0).max():.3g}"
    return None


def _rejected_calls(ps, case, xs, y, w, y_hat0, pred0):
    """Calls that the code rejects (exception), made on the fitted object; after each the fitted values must be
    unchanged and predict(fit grid) must still return them.  A call that is accepted ends the sequence."""
    d = case["d"]
    shape = list(y.shape)
    span = [x[-1] - x[0] for x in xs]
    shifted = [x + 2.0 * s for x, s in zip(xs, span)]
    kw = {}
    if any(dd["wide"] for dd in case["dims"]):
        kw["domain_min"] = [float(F(dd["dmin"])) for dd in case["dims"]]
        kw["domain_max"] = [float(F(dd["dmax"])) for dd in case["dims"]]
    arg = lambda g: g[0] if d == 1 else list(g)  # noqa: E731
    wbad = np.ones([shape[0] + 1] + shape[1:])
    calls = [
        ("response_shape_mismatch_other_range", lambda o: o.fit(y[:-1] if shape[0] > 1 else np.concatenate([y, y]), arg(shifted))),
        ("weights_shape_mismatch", lambda o: o.fit(y, arg(xs), sample_weights=wbad, **kw)),
        ("grid_list_too_short", lambda o: o.fit(y, list(xs)[:-1] if d > 1 else [], **kw)),
        ("penalty_length_mismatch", lambda o: o.fit(y, arg(xs), penalty=tuple([1.0] * (d + 1)), **kw)),
        ("other_dimension", lambda o: o.fit(np.stack([y, y], axis=-1), arg(xs), **kw)),
    ]
    res = []
    obj = ps
    dirty = False
    for name, call in calls:
        if name == "other_dimension":  # on its own freshly fitted object, so that the other kinds stay independent
            obj = _fit(_new(case), case, y, xs, w)
        elif dirty:
            continue
        try:
            call(obj)
            res.append(dict(kind=name, outcome="accepted"))  # not rejected: the state legitimately changed
            dirty = True
            continue
        except Exception as e:  # noqa: BLE001
            r = dict(kind=name, outcome="error:" + err_class(e))
        try:
            same = bool(np.array_equal(np.asarray(obj.y_hat), y_hat0, equal_nan=True))
            p1 = np.asarray(obj.predict(arg(xs)), dtype=float).ravel()
            sc = max(np.abs(y_hat0).max(), 1e-300)
            r["state"] = "ok" if same and np.abs(p1 - pred0).max() <= 1e-12 * sc else (
                "y_hat changed" if not same else f"predict(fit grid) moved by {np.abs(p1 - pred0).max() / sc:.3g} (relative)")
        except Exception as e:  # noqa: BLE001
            r["state"] = f"predict raises {err_class(e)}: {str(e)[:80]}"
        res.append(r)
        if r["state"] != "ok" and obj is ps:
            dirty = True
    return res


def run_impl(case):
    import warnings

    warnings.simplefilter("ignore")
    from FDApy.misc.basis import _basis_bsplines

    xs, shape, y, w = _setup(case)
    d = case["d"]
    out = {}
    snap0 = _snapshot()
    ps = _new(case)
    if case.get("history"):
        # stale state: the SAME object has been fitted before — on the same grid, on grids sharing length and
        # end points with the final one (uniform <-> warped), on other ranges / lengths — with other data, weights,
        # penalties, with and without the final options; every step is compared with a fresh object
        out["hist_bad"] = _history(ps, case, xs)
    snap = (y.copy(), None if w is None else w.copy(), [x.copy() for x in xs])
    _fit(ps, case, y, xs, w)
    if not (np.array_equal(y, snap[0]) and (w is None or np.array_equal(w, snap[1])) and all(np.array_equal(a, b) for a, b in zip(xs, snap[2]))):
        out["inputs_changed"] = "fit modified the caller's responses / weights / grids in place"
        y, w, xs = snap[0], snap[1], snap[2]
    out["shape_y"] = list(np.shape(ps.y_hat))
    out["shape_b"] = list(np.shape(ps.beta_hat))
    out["shape_h"] = list(np.shape(ps.diagnostics["hat_matrix"]))
    out["y_hat"] = np.asarray(ps.y_hat, dtype=float).ravel().tolist()
    out["beta"] = np.asarray(ps.beta_hat, dtype=float).ravel().tolist()
    out["hat"] = np.asarray(ps.diagnostics["hat_matrix"], dtype=float).ravel().tolist()
    out["pred_none_is_yhat"] = bool(ps.predict() is ps.y_hat)
    out["pred_fit"] = np.asarray(ps.predict(list(xs) if d > 1 else xs[0]), dtype=float).ravel().tolist()
    subs = _sub_grids(case, xs)
    q = [np.array(fl(p)) for _, p in subs]
    out["pred_sub"] = np.asarray(ps.predict(list(q) if d > 1 else q[0]), dtype=float).ravel().tolist()
    out["sub_x"] = [[rs(v) for v in p] for _, p in subs]
    # subset of the fitting grid: predicted values must be the fitted values at those nodes
    qi = [x[idx] for x, (idx, _) in zip(xs, subs)]
    out["pred_nodes"] = np.asarray(ps.predict(list(qi) if d > 1 else qi[0]), dtype=float).ravel().tolist()
    out["nodes_ref"] = np.asarray(ps.y_hat)[np.ix_(*[idx for idx, _ in subs])].ravel().tolist()
    # the bases the fit used (implementation's own; their correctness is C18)
    Bs = [_basis_bsplines(x, dd["nseg"] + dd["p"], dd["p"], float(F(dd["dmin"])), float(F(dd["dmax"]))) for x, dd in zip(xs, case["dims"])]
    out["basis_ok"] = bool(len(ps.basis) == len(Bs) and all(np.shape(b1) == np.shape(b2) and np.allclose(b1, b2, rtol=0, atol=max(1e-12, _lowprec(case)))
                                                           for b1, b2 in zip(ps.basis, Bs)))
    if not out["basis_ok"]:
        # the object did not use the requested sizes / degrees / domain: the explicit reference is built from what it DID use
        Bs = [np.asarray(b_) for b_ in ps.basis]
    # ---- dense Kronecker reference (independent NumPy code)
    ref = _dense_ref(Bs, w, y, [float(F(dd["lam"])) for dd in case["dims"]], case["ord"])
    out["ref"] = {k: (v.tolist() if isinstance(v, np.ndarray) else v) for k, v in ref.items()}
    # ---- scaling law of the penalised criterion: fit(c·w, c·penalties) = fit(w, penalties)
    if not case.get("default_penalty"):
        cs = float(F(case.get("wscale", "1/4")))
        sc = dict(case)
        sc["dims"] = [dict(dd, lam=rs(F(dd["lam"]) * F(case.get("wscale", "1/4")))) for dd in case["dims"]]
        fs = _fit(_new(case), sc, y, xs, cs * (np.ones(shape) if w is None else w))
        out["scaled"] = dict(y_hat=np.asarray(fs.y_hat).ravel().tolist(), hat=np.asarray(fs.diagnostics["hat_matrix"]).ravel().tolist())
    # ---- other instances used in between: nothing may be shared between estimator objects
    if case["sub"] % 2 == 0:
        out["interleave_bad"] = _interleave(ps, case, xs, y, w, out)
    # ---- rejected calls on the fitted object: the fitted state must stay usable and consistent
    if case["sub"] % 5 < 3:
        out["rejected"] = _rejected_calls(ps, case, xs, y, w, np.asarray(ps.y_hat).copy(), np.array(out["pred_fit"]))
    # ---- linearity, zero weights, polynomial trend: further fits with fresh objects
    rng = Rng(f"aux-{case['sub']}")
    a, c = float(F(case["a"])), float(F(case["c"]))
    y2 = np.array([float(rng.dyadic(-4, 4, 3)) for _ in range(y.size)]).reshape(shape)
    f2 = _fit(_new(case), case, y2, xs, w)
    f12 = _fit(_new(case), case, a * y + c * y2, xs, w)
    out["lin"] = dict(y2=np.asarray(f2.y_hat).ravel().tolist(), comb=np.asarray(f12.y_hat).ravel().tolist(),
                      h2=np.asarray(f2.diagnostics["hat_matrix"]).ravel().tolist())
    if w is not None and (w == 0).any():
        yz = y.copy()
        yz[w == 0] += np.array([float(rng.dyadic(-9, 9, 2)) for _ in range(int((w == 0).sum()))])
        fz = _fit(_new(case), case, yz, xs, w)
        out["zero"] = np.asarray(fz.y_hat).ravel().tolist()
    # polynomial of degree < order in every coordinate
    if True:
        coefs = [[float(rng.dyadic(-2, 2, 2)) for _ in range(case["ord"])] for _ in range(d)]
        if case.get("poly_coefs"):
            coefs = [[float(F(v)) for v in cf] for cf in case["poly_coefs"]]
        yp = np.zeros(shape)
        for k, (x, cf) in enumerate(zip(xs, coefs)):
            u = (x - x[0]) / (x[-1] - x[0])
            v = sum(cj * u ** j for j, cj in enumerate(cf))
            yp = yp + v.reshape([-1 if i == k else 1 for i in range(d)])
        if d > 1:  # a genuine tensor-product polynomial, not only additive
            u0 = ((xs[0] - xs[0][0]) / (xs[0][-1] - xs[0][0])).reshape([-1] + [1] * (d - 1))
            u1 = ((xs[1] - xs[1][0]) / (xs[1][-1] - xs[1][0])).reshape([1, -1] + [1] * (d - 2))
            yp = yp + (u0 ** (case["ord"] - 1)) * (u1 ** (case["ord"] - 1))
        fp = _fit(_new(case), case, yp, xs, w)
        out["poly"] = dict(y=yp.ravel().tolist(), fit=np.asarray(fp.y_hat).ravel().tolist())
    snap1 = _snapshot()
    out["shared_changed"] = sorted(k for k in set(snap0) | set(snap1) if snap0.get(k) != snap1.get(k))
    if case.get("history"):
        fresh = _fit(_new(case), case, y, xs, w)
        out["fresh"] = dict(y_hat=np.asarray(fresh.y_hat).ravel().tolist(), beta=np.asarray(fresh.beta_hat).ravel().tolist(),
                            hat=np.asarray(fresh.diagnostics["hat_matrix"]).ravel().tolist(),
                            pred_sub=np.asarray(fresh.predict(list(q) if d > 1 else q[0])).ravel().tolist())
    return out


def _dense_ref(Bs, w, y, lams, order):
    K = reduce(np.kron, Bs)
    M, N = K.shape
    wv = np.ones(N) if w is None else w.ravel()
    ms = [b.shape[0] for b in Bs]
    P = np.zeros((M, M))
    for k, (m, lam) in enumerate(zip(ms, lams)):
        D = np.diff(np.eye(m), n=order, axis=0)
        mats = [np.eye(mm) for mm in ms]
        mats[k] = D.T @ D
        P += lam * reduce(np.kron, mats)
    A = (K * wv) @ K.T + P
    b = K @ (wv * y.ravel())
    sv = np.linalg.svd(A, compute_uv=False)
    cond = float(sv[0] / sv[-1]) if sv[-1] > 0 else float("inf")
    beta = np.linalg.lstsq(A, b, rcond=None)[0]
    Ainv = np.linalg.pinv(A)
    yhat = K.T @ beta
    h = wv * np.einsum("ki,kl,li->i", K, Ainv, K)
    return dict(y_hat=yhat, beta=beta, hat=h, cond=cond, trace=float(h.sum()))


# --------------------------------------------------------------------------
# model side
# --------------------------------------------------------------------------

def _M(case):
    return int(np.prod([dd["nseg"] + dd["p"] for dd in case["dims"]]))


def _dimtok(dd, xs=None):
    return f"{dd['dmin']} {dd['dmax']} {dd['nseg']} {dd['p']} {dd['lam']} {','.join(dd['x'] if xs is None else xs)}"


def model_lines(case, impl):
    if "__crash__" in impl:
        return []
    d = case["d"]
    M = _M(case)
    n = len(case["y"])
    mode = "exact" if M <= EXACT_MAX[_TIER[0]] else "resid"
    w = case["w"] if case["w"] is not None else ["1"] * n
    beta = ",".join(rs(F(v)) if math.isfinite(v) else "0" for v in impl["beta"])
    if len(impl["beta"]) != M:
        return []
    J = ",".join
    if d == 1:
        dd = case["dims"][0]
        fit = f"fit1 {dd['dmin']} {dd['dmax']} {dd['nseg']} {dd['p']} {case['ord']} {dd['lam']} {J(dd['x'])} {J(case['y'])} {J(w)} {beta} {mode}"
    else:
        fit = f"fitn {d} {case['ord']} " + " ".join(_dimtok(dd) for dd in case["dims"]) + f" {J(case['y'])} {J(w)} {beta} {mode}"
    pred = f"pred {d} " + " ".join(_dimtok(dd, sx) for dd, sx in zip(case["dims"], impl["sub_x"])) + f" {beta}"
    return [fit, pred]


def parse_model(case, outs):
    t = outs[0].split(" ")
    m = dict(status=t[0], pred=outs[1])
    if t[0] == "ok":
        m.update(y_hat=t[1], beta=t[2], hat=t[3], kappa=t[4], resid=t[5], rscale=t[6])
    elif t[0] == "singular":
        m.update(y_hat=t[1], rank=int(t[2]), resid=t[3], rscale=t[4])
    elif t[0] == "resid":
        m.update(resid=t[1], rscale=t[2])
    return m


def _backward_ok(model):
    r, s = pvec(model["resid"]), pvec(model["rscale"])
    return all(abs(a) <= Fraction(1, 10 ** 9) * b + Fraction(1, 10 ** 290) for a, b in zip(r, s))


def _domcond(case):
    """Rounding of the truncated-power basis grows with p·max|domain|/h (calibrated for C18: 64·eps·(1 + p·max|domain|/h)·Σ|terms|)."""
    c = 1.0
    for dd in case["dims"]:
        a, b = F(dd["dmin"]), F(dd["dmax"])
        c = max(c, 1 + dd["p"] * float(max(abs(a), abs(b)) * dd["nseg"] / (b - a)))
    return 64 * 2.0 ** -52 * c * 16


def _lowprec(case):
    """float32 grids are legitimately processed in single precision (measured on the unchanged tree: 1.5e-6 relative)."""
    return 5e-4 if (case.get("dtypes") or {}).get("x") == "float32" else 0.0


def _close_vec(fs, qs, rtol, mask=None):
    scale = max([abs(float(q)) for q in qs] + [1e-300])
    for i, (f, q) in enumerate(zip(fs, qs)):
        if mask is not None and not mask[i]:
            continue
        if not math.isfinite(f) or abs(Fraction(f) - q) > Fraction(rtol) * Fraction(scale):
            return i
    return None


_STATS = dict(max_dev_yhat=0.0, max_dev_beta=0.0, max_dev_hat=0.0, backward_used=0, max_backward=0.0, singular=0, resid_only=0)


def compare(case, impl, model):
    if "__crash__" in impl:
        return [f"implementation crashed: {impl['__crash__']} {impl.get('msg')}"]
    st = model["status"]
    if st.startswith("error") or st.startswith("bad"):
        return [f"model rejects the case: {st}"]
    ds = []
    n = len(case["y"])
    shape = [len(dd["x"]) for dd in case["dims"]]
    mshape = [dd["nseg"] + dd["p"] for dd in case["dims"]]
    if impl["shape_y"] != shape or impl["shape_h"] != shape or impl["shape_b"] != mshape:
        return [f"shapes y_hat {impl['shape_y']} beta {impl['shape_b']} hat {impl['shape_h']} vs {shape} / {mshape}"]
    r, s = pvec(model["resid"]), pvec(model["rscale"])
    bw = max([float(abs(a) / b) for a, b in zip(r, s) if b > 0] + [0.0])
    _STATS["max_backward"] = max(_STATS["max_backward"], bw)
    if st == "resid":
        _STATS["resid_only"] += 1
        if not _backward_ok(model):
            ds.append(f"beta_hat does not satisfy the normal equations: backward error {bw:.3g} > 1e-9")
    elif st == "ok":
        yq, bq, hq = pvec(model["y_hat"]), pvec(model["beta"]), pvec(model["hat"])
        kappa = float(F(model["kappa"]))
        dev = lambda fs, qs: max([abs(f - float(q)) for f, q in zip(fs, qs)] + [0.0]) / max([abs(float(q)) for q in qs] + [1e-300])  # noqa: E731
        _STATS["max_dev_yhat"] = max(_STATS["max_dev_yhat"], dev(impl["y_hat"], yq))
        _STATS["max_dev_beta"] = max(_STATS["max_dev_beta"], dev(impl["beta"], bq))
        _STATS["max_dev_hat"] = max(_STATS["max_dev_hat"], max([abs(f - float(q)) for f, q in zip(impl["hat"], hq)] + [0.0]))
        iy = _close_vec(impl["y_hat"], yq, max(1e-7, _lowprec(case)))
        ib = _close_vec(impl["beta"], bq, max(1e-7, _lowprec(case)))
        if iy is not None or ib is not None:
            _STATS["backward_used"] += 1
            if not _backward_ok(model):
                if iy is not None:
                    ds.append(f"y_hat[{iy}]: impl {impl['y_hat'][iy]!r} vs exact {float(yq[iy])!r}; backward error {bw:.3g}")
                else:
                    ds.append(f"beta_hat[{ib}]: impl {impl['beta'][ib]!r} vs exact {float(bq[ib])!r}; backward error {bw:.3g}")
        htol = max(1e-7, 1e-13 * kappa, _lowprec(case))
        for i, (f, q) in enumerate(zip(impl["hat"], hq)):
            if not math.isfinite(f) or abs(f - float(q)) > htol:
                ds.append(f"hat[{i}]: impl {f!r} vs exact {float(q)!r} (tol {htol:.2g}, kappa {kappa:.2g})")
                break
    elif st == "singular":
        _STATS["singular"] += 1
        yq = pvec(model["y_hat"])
        w = [F(v) for v in case["w"]] if case["w"] is not None else [Fraction(1)] * n
        iy = _close_vec(impl["y_hat"], yq, 1e-6, mask=[v > 0 for v in w])
        if iy is not None and not _backward_ok(model):
            ds.append(f"singular system: y_hat[{iy}] (weight {float(w[iy])}) impl {impl['y_hat'][iy]!r} vs exact {float(yq[iy])!r}")
    # predict on a new grid with the implementation's own coefficients (exact evaluation)
    pq = pvec(model["pred"])
    bscale = max([abs(v) for v in impl["beta"]] + [1e-300])
    if len(pq) != len(impl["pred_sub"]):
        ds.append(f"predict: {len(impl['pred_sub'])} values vs model {len(pq)}")
    else:
        for i, (f, q) in enumerate(zip(impl["pred_sub"], pq)):
            if not math.isfinite(f) or abs(Fraction(f) - q) > Fraction(max(1e-9, _lowprec(case), _domcond(case))) * Fraction(bscale):
                ds.append(f"predict[{i}]: impl {f!r} vs exact {float(q)!r}")
                break
    return ds


# --------------------------------------------------------------------------
# the property's own predicate, evaluated on the implementation
# --------------------------------------------------------------------------

def oracle(case, impl):
    d = case["d"]
    entry = f"PSplines.fit[{d}d]"
    if "__crash__" in impl:
        return [dict(clause="runs", entry=entry, msg=f"crash {impl['__crash__']}: {impl.get('msg')} {impl.get('tb', '')[-300:]}")]
    vs = []

    def bad(clause, msg, causes=()):
        vs.append(dict(clause=clause, entry=entry, msg=msg, causes=list(causes)))

    ref = impl["ref"]
    cond = ref["cond"]
    n = len(case["y"])
    w = np.ones(n) if case["w"] is None else np.array(fl(_Fv(case["w"])))
    pos = w > 0
    y_hat, beta, hat = np.array(impl["y_hat"]), np.array(impl["beta"]), np.array(impl["hat"])
    sizes = [dd["nseg"] + dd["p"] for dd in case["dims"]]
    causes = ["different_basis_sizes"] if len(set(sizes)) > 1 else ["equal_basis_sizes"]
    causes.append(f"dim{d}")
    if not impl["basis_ok"]:
        bad("basis", "the stored bases are not _basis_bsplines on the fit domain")
    well = math.isfinite(cond) and cond < 1e11
    tol = max(1e-12 * max(cond, 1e3), _lowprec(case)) if well else None
    ys = max(np.abs(np.array(ref["y_hat"])).max(), 1e-300)
    if well:
        e = np.abs(y_hat - np.array(ref["y_hat"])).max() / ys
        if not e <= tol:
            bad("yhat_explicit", f"y_hat differs from the explicit Kronecker PWLS solution by {e:.3g} (relative, cond {cond:.2g})", causes)
        bs = max(np.abs(np.array(ref["beta"])).max(), 1e-300)
        e = np.abs(beta - np.array(ref["beta"])).max() / bs
        if not e <= tol:
            bad("beta_explicit", f"beta_hat differs from the explicit solution by {e:.3g} (relative, cond {cond:.2g})", causes)
        e = np.abs(hat - np.array(ref["hat"])).max()
        if not e <= max(tol, 1e-9):
            i = int(np.abs(hat - np.array(ref["hat"])).argmax())
            bad("hat_explicit", f"hat diagonal differs from w_i b_i' A^-1 b_i by {e:.3g} at {i} (impl {hat[i]!r}, explicit {ref['hat'][i]!r}; "
                f"trace {hat.sum():.4g} vs {ref['trace']:.4g}; basis sizes {sizes})", causes)
        if hat.min() < -max(tol, 1e-9) or hat.max() > 1 + max(tol, 1e-9):
            bad("leverage_range", f"leverages outside [0,1]: min {hat.min()!r} max {hat.max()!r} (basis sizes {sizes})", causes)
    # cond >= 1e11 (or singular): the float reference loses cond·eps digits, so the quantitative clauses are left to
    # the exact model comparison (direct closeness, else backward error with the exact A, b)
    if not well or not pos.any():
        return _oracle_predict(case, impl, vs, bad, y_hat, causes)
    # linearity
    lin = impl["lin"]
    a, c = float(F(case["a"])), float(F(case["c"]))
    want = a * y_hat + c * np.array(lin["y2"])
    sc = max(np.abs(want).max(), abs(a) * np.abs(y_hat).max(), 1e-300)
    ltol = max(1e-12 * max(cond, 1e3), _lowprec(case)) if well else (min(1e-2, max(1e-5, 1e-14 * cond)) if math.isfinite(cond) and cond < 1e14 else 1e-4)
    e = np.abs((np.array(lin["comb"]) - want)[pos]).max() / sc if pos.any() else 0.0
    if not e <= ltol:
        bad("linear", f"fit(a y1 + c y2) differs from a fit(y1) + c fit(y2) by {e:.3g} (relative)", causes)
    if well and not np.allclose(np.array(lin["h2"]), hat, rtol=0, atol=max(tol, 1e-9)):
        bad("linear", "the hat diagonal depends on the responses", causes)
    # scaling law: multiplying all weights and all penalties by the same constant changes nothing
    if "scaled" in impl:
        e = np.abs((np.array(impl["scaled"]["y_hat"]) - y_hat)[pos]).max() / max(np.abs(y_hat).max(), 1e-300)
        if not e <= ltol:
            bad("weights_penalty_scaling", f"fit(c·w, c·penalties) differs from fit(w, penalties) by {e:.3g} (relative), c = {case.get('wscale')}, "
                f"weights kind {case['wk']}", causes)
        elif not np.allclose(np.array(impl["scaled"]["hat"]), hat, rtol=0, atol=max(tol, 1e-9)):
            bad("weights_penalty_scaling", f"the hat diagonal changes under the common scaling c = {case.get('wscale')} of weights and penalties", causes)
    # zero weights
    if "zero" in impl:
        e = np.abs((np.array(impl["zero"]) - y_hat)[pos]).max() / max(np.abs(y_hat).max(), 1e-300)
        if not e <= ltol:
            bad("zero_weight", f"changing responses of zero-weight observations moves the fit by {e:.3g}", causes)
    # polynomial reproduction
    if "poly" in impl:
        yp, fp = np.array(impl["poly"]["y"]), np.array(impl["poly"]["fit"])
        e = np.abs((fp - yp)[pos]).max() / max(np.abs(yp).max(), 1e-300) if pos.any() else 0.0
        if not e <= (max(1e-11 * max(cond, 1e3), _lowprec(case)) if well else max(1e-4, ltol)):
            within = all(case["ord"] <= dd["p"] + 1 for dd in case["dims"])
            bad("polynomial", f"a polynomial of degree {case['ord'] - 1} per coordinate is not reproduced: max error {e:.3g} "
                f"(degrees {[dd['p'] for dd in case['dims']]}, order {case['ord']}, penalties {[dd['lam'] for dd in case['dims']]})",
                causes + (["order_within_degree_plus_one"] if within else ["order_exceeds_degree_plus_one"]))
    return _oracle_predict(case, impl, vs, bad, y_hat, causes)


def _oracle_predict(case, impl, vs, bad, y_hat, causes):
    # predict
    if not impl["pred_none_is_yhat"]:
        bad("predict_fit_grid", "predict() does not return y_hat")
    e = np.abs(np.array(impl["pred_fit"]) - y_hat).max() / max(np.abs(y_hat).max(), 1e-300)
    if not e <= max(1e-10, _lowprec(case)):
        bad("predict_fit_grid", f"predict(x_fit) differs from y_hat by {e:.3g}")
    e = np.abs(np.array(impl["pred_nodes"]) - np.array(impl["nodes_ref"])).max() / max(np.abs(y_hat).max(), 1e-300)
    if not e <= max(1e-10, _lowprec(case)):
        bad("predict_fit_grid", f"predict on a subset of the fitting grid differs from the fitted values there by {e:.3g}", ["query_subset"])
    if impl.get("inputs_changed"):
        bad("input_unchanged", impl["inputs_changed"], causes)
    # nothing shared between instances
    if impl.get("interleave_bad"):
        bad("interleaved_instances", impl["interleave_bad"], causes)
    if impl.get("shared_changed"):
        bad("shared_state", f"class attributes / module globals changed while objects were fitted: {impl['shared_changed'][:4]}", causes)
    # rejected calls must leave the fitted state usable and consistent
    for r in impl.get("rejected", []):
        if r["outcome"].startswith("error") and r.get("state") != "ok":
            bad("failed_call_state", f"after a rejected fit ({r['kind']}: {r['outcome']}) the fitted object is inconsistent: {r['state']}",
                causes + ["rejected_call_" + r["kind"]])
    # earlier fits on the same object
    if impl.get("hist_bad"):
        bad("history", impl["hist_bad"], causes)
    # the fit under test on a used object
    if "fresh" in impl:
        fr = impl["fresh"]
        for k in ("y_hat", "beta", "hat", "pred_sub"):
            if not np.array_equal(np.array(impl[k]), np.array(fr[k])):
                bad("history", f"{k} of a re-used PSplines object differs from a fresh fit", causes)
                break
    return vs


def nontrivial(case, impl):
    if case.get("yk") == "zeros":
        return None
    return digest(case)


def classify(case, impl):
    tags = [case["kind"], "weights:" + case["wk"], "responses:" + case["yk"], f"order:{case['ord']}"]
    sizes = [dd["nseg"] + dd["p"] for dd in case["dims"]]
    if case["d"] > 1:
        tags.append("basis-sizes:" + ("different" if len(set(sizes)) > 1 else "equal"))
        tags.append("grid-sizes:" + ("different" if len({len(dd["x"]) for dd in case["dims"]}) > 1 else "equal"))
        tags.append("degrees:" + ("different" if len({dd["p"] for dd in case["dims"]}) > 1 else "equal"))
    M = _M(case)
    tags.append("unknowns:" + ("<=8" if M <= 8 else "<=16" if M <= 16 else "<=30" if M <= 30 else "<=60" if M <= 60 else ">60"))
    tags.append("mode:" + ("exact" if M <= EXACT_MAX[_TIER[0]] else "residual"))
    if any(dd["wide"] for dd in case["dims"]):
        tags.append("explicit-domain")
    if case.get("scale_case"):
        tags.append("domain-scale:tiny-or-offset(structured)")
    if case.get("layout"):
        tags.append("layout:y=" + str(case["layout"].get("y")) + ",x=" + str(case["layout"].get("x")))
    if case.get("use_defaults"):
        tags.append("options:all-defaults")
    if case.get("history"):
        tags.append("history:refit")
    if impl and "interleave_bad" in impl:
        tags.append("history:interleaved-instances")
    for r in (impl or {}).get("rejected", []):
        tags.append("rejected:" + r["kind"] + ":" + r["outcome"].split(":")[0])
    for dd in case["dims"]:
        e = F(dd["lam"])
        tags.append("penalty:" + ("<=2^-8" if e <= Fraction(1, 256) else ">=2^8" if e >= 256 else "moderate"))
    if impl and "ref" in impl:
        c = impl["ref"]["cond"]
        tags.append("cond:" + ("singular" if not math.isfinite(c) or c > 1e14 else ">1e11" if c >= 1e11 else ">1e6" if c > 1e6 else "<=1e6"))
    return tags


def extra_coverage(cases, impls, models):
    return dict(numeric=dict(_STATS), translator=TRANSLATOR_NOTE)
