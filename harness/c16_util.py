"""Helpers of the C16 check: subjects, object layouts (the heap view shared with the Lean model),
deep snapshots, alias observation, read-only inputs."""
from __future__ import annotations

import hashlib
import warnings

import numpy as np

warnings.simplefilter("ignore")

CACHE_ATTRS = {"_mean", "_covariance", "_noise_variance", "_inner_product_matrix", "_data_inpro", "_eigenvalues", "_eigenfunctions"}
DATA_CACHE_ATTRS = {"_mean", "_covariance", "_noise_variance", "_noise_variance_cov", "_inner_product_matrix", "_data_inpro"}


# --------------------------------------------------------------------------
# layouts: how an object is seen as a cell with ordered fields
# --------------------------------------------------------------------------

def layout(obj):
    """Ordered (name, child) fields of an object in the heap view of the model; [] for a leaf."""
    from FDApy.representation.argvals import DenseArgvals, IrregularArgvals
    from FDApy.representation.functional_data import (BasisFunctionalData, DenseFunctionalData, IrregularFunctionalData,
                                                      MultivariateFunctionalData)
    from FDApy.representation.values import IrregularValues

    if isinstance(obj, MultivariateFunctionalData):
        return [(f"data[{i}]", c) for i, c in enumerate(obj.data)]
    if isinstance(obj, BasisFunctionalData):
        return [("basis", obj.basis), ("coefficients", obj.coefficients)]
    if isinstance(obj, (DenseFunctionalData, IrregularFunctionalData)):
        return [("argvals", obj.argvals), ("values", obj.values)]
    if isinstance(obj, (DenseArgvals, IrregularArgvals, IrregularValues)):
        return [(f"[{k!r}]", v) for k, v in obj.items()]
    if isinstance(obj, dict):
        return [(f"[{k!r}]", v) for k, v in obj.items()]
    if isinstance(obj, (list, tuple)):
        return [(f"[{i}]", v) for i, v in enumerate(obj)]
    return []


def walk(obj, path="", depth=0, maxdepth=5, seen=None):
    """All (path, object) pairs reachable through the layout."""
    out = [(path, obj)]
    if depth >= maxdepth:
        return out
    for i, (name, child) in enumerate(layout(obj)):
        out += walk(child, f"{path}.{i}", depth + 1, maxdepth)
    return out


def named_path(root, path):
    """Human-readable form of a numeric path."""
    obj, names = root, []
    for tok in [t for t in path.split(".") if t != ""]:
        name, obj = layout(obj)[int(tok)]
        names.append(name if name.startswith("[") else "." + name)
    return "".join(names) or "(itself)"


def same_cell(a, b):
    """Do two objects occupy the same heap cell?  Arrays: share memory; other objects: identity."""
    if isinstance(a, np.ndarray) and isinstance(b, np.ndarray):
        if a.size == 0 or b.size == 0:
            return a is b
        return bool(np.shares_memory(a, b))
    if isinstance(a, np.ndarray) or isinstance(b, np.ndarray):
        return False
    if isinstance(a, (int, float, str, bool, type(None), np.generic)):
        return False
    return a is b


def alias_pairs(result, inputs):
    """Pairs (result path, input name, input path) occupying the same cell."""
    pairs = []
    rw = walk(result, "r")
    for iname, iobj in inputs:
        iw = walk(iobj, iname)
        for rp, ro in rw:
            for ip, io in iw:
                if same_cell(ro, io):
                    pairs.append((rp, ip))
    return sorted(set(pairs))


def heap_spec(inputs):
    """Cells of the inputs for the Lean driver: `id:child,child;…` and the roots `name=id`.
    Shared cells (same object reachable twice) get one id."""
    cells, ids, roots = [], [], []

    def visit(o):
        for k, (oo, cid) in enumerate(ids):
            if same_cell(oo, o) and type(oo) is type(o):
                return cid
        cid = len(cells)
        cells.append(None)
        ids.append((o, cid))
        cells[cid] = [visit(c) for _, c in layout(o)]
        return cid

    for name, o in inputs:
        roots.append((name, visit(o)))
    spec = ";".join(f"{i}:{','.join(str(c) for c in ch) if ch else '-'}" for i, ch in enumerate(cells))
    return spec, ",".join(f"{n}={i}" for n, i in roots)


# --------------------------------------------------------------------------
# deep snapshots
# --------------------------------------------------------------------------

def _h(b: bytes) -> str:
    return hashlib.sha1(b).hexdigest()[:12]


def deep(obj, skip_cache=True, depth=0):
    """Canonical, comparable, JSON-able deep value of an object (bitwise for arrays)."""
    import pandas as pd

    if depth > 8:
        return "<deep>"
    if obj is None or isinstance(obj, (bool, int, str)):
        return obj
    if isinstance(obj, float):
        return repr(obj)
    if isinstance(obj, np.generic):
        return [str(obj.dtype), _h(np.asarray(obj).tobytes())]
    if isinstance(obj, np.ndarray):
        if obj.dtype == object:
            return ["objarr", [deep(x, skip_cache, depth + 1) for x in obj.ravel().tolist()]]
        return [str(obj.dtype), list(obj.shape), _h(np.ascontiguousarray(obj).tobytes())]
    if isinstance(obj, pd.DataFrame):
        return ["df", list(map(str, obj.columns)), _h(np.ascontiguousarray(obj.to_numpy(dtype=float)).tobytes())]
    if isinstance(obj, dict):
        return {repr(k): deep(v, skip_cache, depth + 1) for k, v in obj.items()}
    if isinstance(obj, (list, tuple)):
        return [deep(v, skip_cache, depth + 1) for v in obj]
    if hasattr(obj, "__dict__") or hasattr(obj, "data"):
        out = {"__class__": type(obj).__name__}
        d = dict(getattr(obj, "__dict__", {}))
        for k, v in d.items():
            if skip_cache and k in DATA_CACHE_ATTRS:
                continue
            if callable(v):
                continue
            out[k] = deep(v, skip_cache, depth + 1)
        return out
    return repr(type(obj))


def diff_paths(a, b, path=""):
    """Paths at which two deep values differ."""
    if type(a) is not type(b):
        return [path or "(root)"]
    if isinstance(a, dict):
        out = []
        for k in sorted(set(a) | set(b)):
            if k not in a or k not in b:
                out.append(f"{path}.{k}")
            else:
                out += diff_paths(a[k], b[k], f"{path}.{k}")
        return out
    if isinstance(a, list):
        if len(a) != len(b):
            return [path or "(root)"]
        out = []
        for i, (x, y) in enumerate(zip(a, b)):
            out += diff_paths(x, y, f"{path}[{i}]")
        return out
    return [] if a == b else [path or "(root)"]


def arrays_of(obj, depth=0, seen=None):
    """All ndarrays reachable from an object (attributes, dict values, list items)."""
    if seen is None:
        seen = set()
    if id(obj) in seen or depth > 8:
        return []
    seen.add(id(obj))
    out = []
    if isinstance(obj, np.ndarray):
        out.append(obj)
        if isinstance(obj, np.ndarray) and obj.dtype == object:
            for x in obj.ravel().tolist():
                out += arrays_of(x, depth + 1, seen)
        # ndarray subclasses may carry attributes
        for v in getattr(obj, "__dict__", {}).values():
            out += arrays_of(v, depth + 1, seen)
        return out
    if isinstance(obj, dict):
        for v in obj.values():
            out += arrays_of(v, depth + 1, seen)
    elif isinstance(obj, (list, tuple)):
        for v in obj:
            out += arrays_of(v, depth + 1, seen)
    if hasattr(obj, "__dict__"):
        for v in obj.__dict__.values():
            out += arrays_of(v, depth + 1, seen)
    if hasattr(obj, "data") and isinstance(getattr(obj, "data", None), list):
        for v in obj.data:
            out += arrays_of(v, depth + 1, seen)
    return out


class ReadOnly:
    """Make every array reachable from the inputs read-only for the duration of a call."""

    def __init__(self, *objs):
        self.arrs = []
        for o in objs:
            self.arrs += arrays_of(o)
        self.flags = []

    def __enter__(self):
        for a in self.arrs:
            self.flags.append(a.flags.writeable)
            try:
                a.flags.writeable = False
            except ValueError:
                pass
        return self

    def __exit__(self, *exc):
        for a, f in zip(self.arrs, self.flags):
            try:
                a.flags.writeable = f
            except ValueError:
                pass
        return False


def poison(kind, shapes=()):
    """Fill-and-free heap blocks so that uninitialised results become observable."""
    val = np.nan if kind == "nan" else 1.0e300
    for nb in (8, 16, 32, 64, 128, 256, 512, 1024, 4096):
        blocks = [np.full(nb, val) for _ in range(6)]
        del blocks
    for shp in shapes:
        blocks = [np.full(shp, val) for _ in range(8)]
        del blocks


class _UfuncProxy:
    """`np.<ufunc>` stand-in: a call with `where=` and no `out=` gets an `out` pre-filled with the
    poison value, so that the entries the ufunc leaves untouched are observable."""

    def __init__(self, uf, val):
        self._uf, self._val = uf, val

    def __call__(self, *args, **kwargs):
        where = kwargs.get("where", True)
        res = self._uf(*args, **kwargs)
        if where is not True and kwargs.get("out") is None and isinstance(res, np.ndarray) and res.dtype.kind == "f":
            # the entries outside `where` were never written: make them visible (type of `res` preserved)
            mask = ~np.broadcast_to(np.asarray(where, dtype=bool), res.shape)
            if mask.any():
                np.asarray(res)[mask] = self._val
        return res

    def __getattr__(self, name):
        return getattr(self._uf, name)


class Poison:
    """Make uninitialised memory observable during a call: `np.empty` / `np.empty_like` return blocks
    filled with the poison value, ufuncs called with `where=` and without `out=` write into a poisoned
    block; freed heap blocks of the typical sizes are poisoned as well."""

    UFUNCS = ("divide", "true_divide", "multiply", "add", "subtract", "sqrt", "power", "log", "exp", "reciprocal")

    def __init__(self, kind, shapes=()):
        self.kind, self.shapes = kind, shapes
        self.val = np.nan if kind == "nan" else 1.0e300
        self.saved = {}

    def __enter__(self):
        poison(self.kind, self.shapes)
        val = self.val
        real_empty, real_empty_like = np.empty, np.empty_like
        self.saved = {"empty": real_empty, "empty_like": real_empty_like}

        def empty(shape, dtype=float, *a, **k):
            out = real_empty(shape, dtype, *a, **k)
            if out.dtype.kind == "f":
                out.fill(val)
            return out

        def empty_like(proto, *a, **k):
            out = real_empty_like(proto, *a, **k)
            if out.dtype.kind == "f":
                out.fill(val)
            return out

        np.empty, np.empty_like = empty, empty_like
        for n in self.UFUNCS:
            self.saved[n] = getattr(np, n)
            setattr(np, n, _UfuncProxy(self.saved[n], val))
        return self

    def __exit__(self, *exc):
        for n, f in self.saved.items():
            setattr(np, n, f)
        return False
