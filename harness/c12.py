"""C12 — arithmetic is pointwise and guarded; equality is a sound total comparison.

Implementation side: the real `DenseFunctionalData`, `IrregularFunctionalData`,
`MultivariateFunctionalData` of the tree under test: `+ - * / //` between datasets and
with scalars, `==`, `remove` / `in`.  Model side: `FDA.Arith.binop / binopImpl / scalarop /
rscalarop / eq / contains / removeFirst` (`lean/Drivers/C12.lean`) in exact rationals.
Oracle: the property's own predicate on the real objects only (plain NumPy on the raw arrays,
a plain closeness predicate, a plain Python list) — independent of the model.

A dataset in a case is JSON:
  {"k": "D", "grid": [[q..]..], "rows": [[q..]..]}                 rows row-major flattened
  {"k": "I", "obs": [[label, [[q..]..], [q..]], ..], "aord": [..]}   in the order of the *values*
                                                                      dictionary; aord = order of
                                                                      the argvals dictionary
  {"k": "X", "what": "basis" | "multi" | "none" | "int" | "str" | "array"}   not a grid dataset
with rationals as "num/den" strings (all exactly float64).
"""
from __future__ import annotations

import itertools
import json
import os
import math
import warnings
from fractions import Fraction

import numpy as np

import common
from common import F, Rng, digest, err_class, rs

PROP = "C12"
MODULES = ["FDAProofs.Props.C12"]
DRIVER = "Drivers/C12.lean"
PARALLEL = True
RULE = (
    "pairs of dense / irregular datasets in 1-D and 2-D (n_obs 0..5, 1..4 points per dimension, non-uniform dyadic "
    "grids), compatible or incompatible in exactly one respect (class incl. basis/multivariate/non-data operands, "
    "n_obs incl. 1-vs-k, number of points incl. 1-vs-m, dimension, one grid value, one label, order of the value "
    "dictionary), under all of + - * / //; scalars int/float/bool/np.float64/np.int64/np.float32/str/array/None on "
    "both sides; zero divisors; the identities of the statement; == on equal / near (0.5, 0.9, 1.1, 2 x tolerance, "
    "2^-40) / far values, asymmetric closeness, different shapes, grids, labels, classes, non-data operands; "
    "remove / in on multivariate objects with components on different grids (present, absent, duplicate, "
    "same-object items); non-trivial = the operation either produced a dataset with >= 1 value or was rejected; "
    "distinct by content hash"
)
PARTIAL = [
    "non-finite INPUT values: `==` / `in` / `remove` are pinned (NaN equals NaN only, infinities equal with the same sign only: "
    "`closeX`, `close_nonfinite`, `eqnf` cases); arithmetic on non-finite inputs is not modelled",
    "reflected operators whose LEFT operand is a NumPy scalar / array (np.int64(2) * fd, ndarray * fd): NumPy's operator runs "
    "first (object-array dispatch) — recorded, only required to raise or be pointwise; every other foreign operand is "
    "judged in both orders (`zoo_cases`, `foreign_rejected_both_orders`)",
    "bool-valued operands combined with bool-valued operands (`np.add` is a logical or there, `np.subtract` refuses) and "
    "quotients whose result dtype is float32 (rounded to 24 bits) are left out of the dtype sweep; integer division by zero "
    "(0 with a warning) is not covered",
    "in-place operators (`+=` …) are not defined: Python falls back to `x = x + y` (a new object, operands untouched) — every "
    "spelling (augmented, `operator.*`, dunder, ufunc call, `sum`) is compared with the infix operator on the same tree (`spell` "
    "cases, oracle only: the Lean model answers the infix form in the `bin` / `sc` cases); ufunc calls with non-Python scalars "
    "are NumPy's dispatch (not compared); unary `-`, `abs`, `**` and reflected `+ - /` are absent (TypeError, sampled in `sc` cases); "
    "BasisFunctionalData defines no arithmetic at all and its `==` is object identity (documented, not modelled)",
    "floating-point rounding of the results (model values are exact; compared at rtol 1e-9)",
    "non-finite *inputs* (inf/nan values as operands): == on them is only required to return a bool",
    "reflected operators with NumPy scalars / arrays on the left (`np.int64(2) * a`, `ndarray * a` are dispatched by "
    "NumPy, not by FDApy): only required to raise or to be pointwise",
    "names and order of the DenseArgvals keys (always input_dim_0, input_dim_1), order of the IrregularArgvals "
    "dictionary (permuted in the sample, not modelled), integer dtype values",
    "empty irregular datasets (n_dimension raises StopIteration; mirrored as `Other`, not judged)",
    "identity of the result's grid object with the left operand's (recorded in the histogram, equality is judged)",
]
EXHAUSTIVE = {"quick": False, "thorough": False}

FINDING_ORDER = "C12-irregular-value-order"

OPS = ["add", "sub", "mul", "div", "floordiv"]
ENTRY = {"add": "__add__", "sub": "__sub__", "mul": "__mul__", "div": "__truediv__", "floordiv": "__floordiv__"}
ATOL = Fraction(1, 10**8)
RTOL = Fraction(1, 10**5)


_BYLABEL_CACHE = {}


TRUSTED_EXTRA = [
    "harness/c12_translate.py: syntax-only translation of the isinstance dispatch of GridFunctionalData's operator methods into "
    "lean/FDAModel/Generated/Dispatch.lean (vocabulary: lean/FDAModel/Core/PyDispatch.lean, incl. the hand-written class hierarchy "
    "`Operand.isInstance`)",
]
GEN_DISPATCH = os.path.join(common.LEAN_DIR, "FDAModel", "Generated", "Dispatch.lean")
TRANSLATOR = {"note": None}


def translate():
    """Regenerate Generated/Dispatch.lean from the operator methods of `GridFunctionalData` as they are now.  A source whose
    shape the translator does not recognise is NOT an alarm: the reference translation kept beside the translator is used
    and the evidence says that for this run the dispatch is tied to the source by the correspondence only."""
    import c12_translate

    path = os.path.join(common.REPO, "FDApy", "representation", "functional_data.py")
    try:
        src = c12_translate.lean_source(path)
        TRANSLATOR["note"] = ("translator: operator dispatch of GridFunctionalData regenerated from the source and re-proved equal "
                              "to the model's guard (C12.dispatch_src_eq_model)")
    except (ValueError, SyntaxError, IndexError, AttributeError, KeyError, TypeError) as e:
        TRANSLATOR["note"] = f"translator: shape of the operator methods not recognised, tie rests on the correspondence only ({e})"
        print("note:", TRANSLATOR["note"])
        src = open(os.path.join(os.path.dirname(os.path.abspath(__file__)), "c12_dispatch_reference.lean")).read()
    except OSError as e:
        raise common.InfraError(f"translator: cannot read {path}: {e}")
    if not os.path.exists(GEN_DISPATCH) or open(GEN_DISPATCH).read() != src:
        with open(GEN_DISPATCH, "w") as fh:
            fh.write(src)


def extra_coverage(cases, impls, models):
    return dict(translator=TRANSLATOR["note"])


def _bylabel():
    """0: the value-dictionary-order defect is listed open (model = `_perform_computation` as coded); 1: repaired."""
    if "v" not in _BYLABEL_CACHE:     # read once per process (the findings files may be rewritten concurrently)
        import time

        for attempt in range(5):
            try:
                _BYLABEL_CACHE["v"] = 0 if any(f.get("id") == FINDING_ORDER for f in common.load_findings(PROP)) else 1
                break
            except ValueError:
                time.sleep(0.5)
        else:
            raise common.InfraError("known findings unreadable")
    return _BYLABEL_CACHE["v"]


def _fd():
    from FDApy.representation import argvals, functional_data, values

    return argvals, values, functional_data


def quiet():
    warnings.simplefilter("ignore")
    np.seterr(all="ignore")


# --------------------------------------------------------------------------
# datasets: JSON <-> real objects <-> tokens
# --------------------------------------------------------------------------

def q(x):
    return rs(x)


def D(grid, rows):
    return dict(k="D", grid=[[q(t) for t in g] for g in grid], rows=[[q(v) for v in r] for r in rows])


def I(obs, aord=None):
    d = dict(k="I", obs=[[int(l), [[q(t) for t in g] for g in grid], [q(v) for v in vals]] for l, grid, vals in obs])
    if aord is not None:
        d["aord"] = [int(l) for l in aord]
    return d


def X(what):
    return dict(k="X", what=what)


def _num(x):
    return float(x) if x in ("nan", "inf", "-inf") else float(F(x))


def _arr(v):
    return np.array([_num(x) for x in v], dtype=float)


def _dense_argvals(grid):
    A, V, FD = _fd()
    return A.DenseArgvals({f"input_dim_{i}": _arr(g) for i, g in enumerate(grid)})


LAYOUTS = ["F", "T", "neg", "strided", "negfirst"]


def _layout(arr, how):
    """The same logical array in another memory layout: Fortran order, a transposed view, negative strides, a
    non-contiguous slice of a larger buffer."""
    arr = np.asarray(arr)
    if not how or arr.ndim == 0:
        return arr
    if how == "F":
        return np.asfortranarray(arr)
    if how == "T":
        return np.ascontiguousarray(arr.T).T
    if how == "neg":
        return np.ascontiguousarray(arr[..., ::-1])[..., ::-1]
    if how == "negfirst":
        return np.ascontiguousarray(arr[::-1])[::-1]
    if how == "strided":
        big = np.full(arr.shape[:-1] + (2 * arr.shape[-1],), -777.0, dtype=arr.dtype)
        big[..., ::2] = arr
        return big[..., ::2]
    raise ValueError(how)


def build(d):
    """A real FDApy object (or a non-data operand) from its JSON description."""
    A, V, FD = _fd()
    if d["k"] == "D":
        pts = tuple(len(g) for g in d["grid"])
        vals = np.array([[_num(x) for x in r] for r in d["rows"]], dtype=float).reshape((len(d["rows"]),) + pts)
        if d.get("dtype"):
            vals = vals.astype(np.dtype(d["dtype"]))
        vals = _layout(vals, d.get("layout"))
        return FD.DenseFunctionalData(_dense_argvals(d["grid"]), V.DenseValues(vals))
    if d["k"] == "I":
        grids = {l: g for l, g, _ in d["obs"]}
        aord = d.get("aord") or [l for l, _, _ in d["obs"]]
        arg = A.IrregularArgvals({l: _dense_argvals(grids[l]) for l in aord})
        dt = np.dtype(d["dtype"]) if d.get("dtype") else np.dtype(float)
        val = V.IrregularValues({l: _layout(_arr(v).reshape(tuple(len(t) for t in g)).astype(dt), d.get("layout")) for l, g, v in d["obs"]})
        return FD.IrregularFunctionalData(arg, val)
    w = d["what"]
    if w == "basis":
        from FDApy.representation.basis import Basis

        basis = Basis(name="fourier", n_functions=3, argvals=A.DenseArgvals({"input_dim_0": np.linspace(0, 1, 5)}))
        return FD.BasisFunctionalData(basis=basis, coefficients=np.ones((int(d.get("n", 2)), 3)))
    if w == "multi":
        g = A.DenseArgvals({"input_dim_0": np.array([0.0, 1.0])})
        return FD.MultivariateFunctionalData([FD.DenseFunctionalData(g, V.DenseValues(np.ones((int(d.get("n", 2)), 2))))])
    return {"none": None, "int": 3, "str": "abc", "array": np.ones((2, 3)), "list": [1.0, 2.0]}[w]


def tok(d):
    """Tokens of a dataset for the driver."""
    def v(xs):
        return "-" if not xs else ",".join(q(x) for x in xs)

    def g(grid):
        return [str(len(grid))] + [v(t) for t in grid]

    if d["k"] == "D":
        return ["D"] + g(d["grid"]) + [str(len(d["rows"]))] + [v(r) for r in d["rows"]]
    out = ["I", str(len(d["obs"]))]
    for l, grid, vals in d["obs"]:
        out += [str(l)] + g(grid) + [v(vals)]
    return out


def read_obj(x):
    """Canonical content of a real object: class, grids, labels in value order, shapes, flat values (floats)."""
    A, V, FD = _fd()
    if isinstance(x, FD.DenseFunctionalData):
        vals = np.asarray(x.values)
        return dict(k="D", grid=[[float(t) for t in np.asarray(g)] for g in x.argvals.values()],
                    shape=list(vals.shape), rows=[[float(u) for u in np.asarray(r).ravel()] for r in vals],
                    vcls=type(x.values).__name__)
    if isinstance(x, FD.IrregularFunctionalData):
        obs = []
        for l, arr in x.values.items():
            gr = x.argvals[l] if l in x.argvals else {}
            obs.append([int(l), [[float(t) for t in np.asarray(g)] for g in gr.values()], [float(u) for u in np.asarray(arr).ravel()],
                        list(np.shape(arr))])
        return dict(k="I", obs=obs, alabels=sorted(int(l) for l in x.argvals.keys()), vcls=type(x.values).__name__)
    return dict(k="?", cls=type(x).__name__)


class PT:
    def __init__(self, toks):
        self.t, self.i = toks, 0

    def next(self):
        self.i += 1
        return self.t[self.i - 1]

    def vec(self):
        s = self.next()
        return [] if s == "-" else [None if u == "nf" else Fraction(u) for u in s.split(",")]

    def grid(self):
        return [self.vec() for _ in range(int(self.next()))]

    def data(self):
        k = self.next()
        if k == "D":
            g = self.grid()
            return dict(k="D", grid=g, rows=[self.vec() for _ in range(int(self.next()))])
        n = int(self.next())
        obs = []
        for _ in range(n):
            l = int(self.next())
            g = self.grid()
            obs.append([l, g, self.vec()])
        return dict(k="I", obs=obs)


def parse_answer(s):
    if s.startswith("error:"):
        return dict(err=s[6:])
    if s in ("true", "false"):
        return dict(res=(s == "true"))
    if s.startswith("ok "):
        p = PT(s.split(" ")[1:])
        if p.t[0] in ("D", "I"):
            return dict(res=p.data())
        n = int(p.next())
        return dict(res=[p.data() for _ in range(n)])
    return dict(bad=s)


# --------------------------------------------------------------------------
# the plain predicates of the property (read the raw arrays only)
# --------------------------------------------------------------------------

def _kind(x):
    A, V, FD = _fd()
    if isinstance(x, FD.DenseFunctionalData):
        return "D"
    if isinstance(x, FD.IrregularFunctionalData):
        return "I"
    return "X"


def _grids_equal(x, y):
    """Do two grid datasets of the same class live on the same sampling points?"""
    if _kind(x) == "D":
        gx, gy = list(x.argvals.values()), list(y.argvals.values())
        return len(gx) == len(gy) and all(np.shape(a) == np.shape(b) and bool(np.all(np.asarray(a) == np.asarray(b))) for a, b in zip(gx, gy))
    lx, ly = set(x.argvals.keys()), set(y.argvals.keys())
    if lx != ly:
        return False
    for l in lx:
        gx, gy = list(x.argvals[l].values()), list(y.argvals[l].values())
        if len(gx) != len(gy) or not all(np.shape(a) == np.shape(b) and bool(np.all(np.asarray(a) == np.asarray(b))) for a, b in zip(gx, gy)):
            return False
    return True


def _ndim(x):
    if _kind(x) == "D":
        return len(x.argvals)
    for g in x.argvals.values():
        return len(g)
    return None


def _nobs(x):
    return int(np.shape(x.values)[0]) if _kind(x) == "D" else len(x.values)


def incompat(x, y):
    """None when the two operands are compatible, otherwise the respect in which they are not."""
    kx, ky = _kind(x), _kind(y)
    if kx == "X" or ky == "X" or kx != ky:
        return "class"
    if _nobs(x) != _nobs(y):
        return "n_obs"
    if _ndim(x) != _ndim(y):
        return "dimension"
    if not _grids_equal(x, y):
        return "grid"
    return None


NPF = {"add": np.add, "sub": np.subtract, "mul": np.multiply, "div": np.true_divide, "floordiv": np.floor_divide}


def plain_binop(op, x, y):
    """What `x op y` must contain: plain NumPy on the raw arrays, observation by observation (by label)."""
    f = NPF[op]
    if _kind(x) == "D":
        return f(np.asarray(x.values), np.asarray(y.values))
    return {l: f(np.asarray(v), np.asarray(y.values[l])) for l, v in x.values.items()}


def plain_scalar(op, x, c, reflected=False):
    f = NPF[op]
    g = (lambda v: f(c, v)) if reflected else (lambda v: f(v, c))
    if _kind(x) == "D":
        return g(np.asarray(x.values))
    return {l: g(np.asarray(v)) for l, v in x.values.items()}


def same_content(res, expected, tol=0.0):
    """Is the value content of the dataset `res` exactly (or within tol) the plain expectation?"""
    def eqarr(a, b):
        a, b = np.asarray(a, dtype=float), np.asarray(b, dtype=float)
        if a.shape != b.shape:
            return False
        if tol == 0.0:
            return bool(np.array_equal(a, b, equal_nan=True))
        fin = np.isfinite(a) & np.isfinite(b)
        if not np.array_equal(np.isfinite(a), np.isfinite(b)):
            return False
        return bool(np.all(np.abs(a[fin] - b[fin]) <= tol * np.maximum(1.0, np.abs(b[fin]))))

    if isinstance(expected, dict):
        rv = res.values
        if list(rv.keys()) != list(expected.keys()):
            return False
        return all(eqarr(rv[l], expected[l]) for l in expected)
    return eqarr(res.values, expected)


def snapshot(x):
    """Bytes of everything a grid dataset holds (to see whether an operation touched it)."""
    if _kind(x) == "D":
        return [np.asarray(x.values).tobytes(), [np.asarray(g).tobytes() for g in x.argvals.values()], np.shape(x.values)]
    if _kind(x) == "I":
        return [[(l, np.asarray(v).tobytes(), np.shape(v)) for l, v in x.values.items()],
                [(l, [np.asarray(g).tobytes() for g in a.values()]) for l, a in x.argvals.items()]]
    return None


def plain_close(a, b):
    """np.allclose's documented predicate with the default tolerances, NaN == NaN, on equal shapes."""
    a, b = np.asarray(a, dtype=float), np.asarray(b, dtype=float)
    if a.shape != b.shape:
        return False
    for u, w in zip(a.ravel().tolist(), b.ravel().tolist()):
        if math.isnan(u) or math.isnan(w):
            if not (math.isnan(u) and math.isnan(w)):
                return False
        elif math.isinf(u) or math.isinf(w):
            if u != w:
                return False
        elif abs(Fraction(u) - Fraction(w)) > ATOL + RTOL * abs(Fraction(w)):
            return False
    return True


def plain_eq(x, y):
    """The statement's equality: same kind, coinciding sampling points, values of the same shape that are close."""
    if _kind(x) != _kind(y) or _kind(x) == "X":
        return False
    if not _grids_equal(x, y):
        return False
    if _kind(x) == "D":
        return plain_close(x.values, y.values)
    if set(x.values.keys()) != set(y.values.keys()):
        return False
    return all(plain_close(v, y.values[l]) for l, v in x.values.items())


def margin_ok(x, y):
    """Is the verdict of `plain_eq` far from the tolerance boundary (so that float evaluation cannot flip it)?"""
    if _kind(x) != _kind(y) or _kind(x) == "X" or not _grids_equal(x, y):
        return True
    pairs = []
    if _kind(x) == "D":
        if np.shape(x.values) != np.shape(y.values):
            return True
        pairs.append((np.asarray(x.values), np.asarray(y.values)))
    else:
        for l, v in x.values.items():
            if l in y.values and np.shape(v) == np.shape(y.values[l]):
                pairs.append((np.asarray(v), np.asarray(y.values[l])))
    for a, b in pairs:
        for u, w in zip(a.ravel().tolist(), b.ravel().tolist()):
            if math.isfinite(u) and math.isfinite(w):
                d, t = abs(Fraction(u) - Fraction(w)), ATOL + RTOL * abs(Fraction(w))
                if abs(d - t) <= t * Fraction(1, 10**6):
                    return False
    return True


# --------------------------------------------------------------------------
# generation
# --------------------------------------------------------------------------

def rgrid(rng: Rng, dim, sizes=None):
    """Sorted dyadic grids; every fourth one sits at a large offset (years, epoch-like), where a
    relative comparison of sampling points would identify neighbouring grids."""
    sizes = sizes or [rng.choice([1, 2, 2, 3, 3, 4]) for _ in range(dim)]
    return [rng.grid(m, lo=rng.choice([0, 0, -1, Fraction(3, 2), 0, 2000, 1048576, -365]), scale=rng.choice([1, 1, 2, Fraction(1, 2)])) for m in sizes]


def gsize(grid):
    n = 1
    for g in grid:
        n *= len(g)
    return n


def rvals(rng: Rng, n, zeros=False):
    vs = rng.dyadics(n, -8, 8, 3)
    if not zeros:
        vs = [v if v != 0 else Fraction(1, 8) for v in vs]
    return vs


def rdense(rng: Rng, nobs=None, dim=None, grid=None, zeros=True):
    dim = dim or rng.choice([1, 1, 2])
    grid = grid or rgrid(rng, dim)
    nobs = rng.choice([1, 2, 2, 3, 4]) if nobs is None else nobs
    return D(grid, [rvals(rng, gsize(grid), zeros) for _ in range(nobs)])


def rlabels(rng: Rng, n):
    r = rng.random()
    if r < 0.5:
        return list(range(n))
    if r < 0.75:
        return sorted(rng.sample(range(0, 12), n))
    ls = rng.sample(range(0, 12), n)
    return ls


def rirreg(rng: Rng, nobs=None, dim=None, labels=None, same_shape=False, zeros=True):
    dim = dim or rng.choice([1, 1, 2])
    nobs = rng.choice([1, 2, 3, 3, 4]) if nobs is None else nobs
    labels = rlabels(rng, nobs) if labels is None else labels
    sizes = [rng.choice([1, 2, 3]) for _ in range(dim)] if same_shape else None
    obs = []
    for l in labels:
        g = rgrid(rng, dim, sizes)
        obs.append((l, g, rvals(rng, gsize(g), zeros)))
    aord = None
    if nobs > 1 and rng.random() < 0.3:
        aord = list(labels)
        rng.shuffle(aord)
    return I(obs, aord)


def rdata(rng: Rng, kind=None, **kw):
    kind = kind or rng.choice(["D", "I"])
    return rdense(rng, **kw) if kind == "D" else rirreg(rng, **kw)


def revalue(rng: Rng, d, zeros=True):
    """Same class, grid, labels and order; fresh values."""
    if d["k"] == "D":
        return dict(k="D", grid=d["grid"], rows=[[q(v) for v in rvals(rng, len(r), zeros)] for r in d["rows"]])
    out = dict(k="I", obs=[[l, g, [q(v) for v in rvals(rng, len(vs), zeros)]] for l, g, vs in d["obs"]])
    if "aord" in d:
        out["aord"] = d["aord"]
    return out


def nobs_of(d):
    return len(d["rows"]) if d["k"] == "D" else len(d["obs"])


def dim_of(d):
    return len(d["grid"]) if d["k"] == "D" else (len(d["obs"][0][1]) if d["obs"] else 1)


def _move_point(rng, grid):
    """One sampling point moved (sizes kept, still increasing)."""
    g2 = [list(t) for t in grid]
    k = rng.randrange(len(g2))
    j = rng.randrange(len(g2[k]))
    t = [F(u) for u in g2[k]]
    lo = t[j - 1] if j > 0 else t[j] - 1
    hi = t[j + 1] if j + 1 < len(t) else t[j] + 1
    new = (lo + t[j]) / 2 if rng.random() < 0.5 else (t[j] + hi) / 2
    if rng.random() < 0.45:
        # a *tiny* move (absolute 2^-12 .. 2^-34, i.e. relative 1e-4 .. 1e-16 of the coordinate): still another grid
        for e in rng.sample([12, 16, 20, 24, 28, 30, 34], 7):
            cand = t[j] + rng.choice([1, -1]) * Fraction(1, 2**e)
            if lo < cand < hi and Fraction(float(cand)) == cand:
                new = cand
                break
    g2[k][j] = q(new)
    return g2


def _shift_grid(rng, grid):
    """The whole grid of one dimension shifted by a few of its own steps or by a tiny amount
    (same number of points, same spacing): e.g. t = 2000 + k/365 moved by one sampling step."""
    g2 = [list(u) for u in grid]
    k = rng.randrange(len(g2))
    t = [F(u) for u in g2[k]]
    step = (t[1] - t[0]) if len(t) > 1 else Fraction(1, 64)
    for _ in range(8):
        d = rng.choice([step, 2 * step, -step, Fraction(1, 2**20), Fraction(1, 2**28), -Fraction(1, 2**24)])
        cand = [u + d for u in t]
        if all(Fraction(float(c)) == c for c in cand):
            g2[k] = [q(c) for c in cand]
            return g2
    return _move_point(rng, grid)


def _resize(rng, grid, one_vs_m=False):
    """One dimension gets another number of points."""
    k = rng.randrange(len(grid))
    m = len(grid[k])
    m2 = 1 if (one_vs_m and m > 1) else rng.choice([u for u in (1, 2, 3, 4, 5) if u != m])
    g2 = [list(t) for t in grid]
    g2[k] = [q(t) for t in rng.grid(m2)]
    return g2


def variant(rng: Rng, a, respect):
    """A second operand that differs from `a` in exactly the given respect (`ok`: in none)."""
    k = a["k"]
    if respect == "ok":
        return revalue(rng, a)
    if respect == "class":
        r = rng.random()
        if r < 0.55:
            n, dim = nobs_of(a), dim_of(a)
            if k == "D":
                return I([(l, a["grid"], rvals(rng, gsize(a["grid"]))) for l in range(n)]) if n else X("basis")
            g = a["obs"][0][1]
            return D(g, [rvals(rng, gsize(g)) for _ in range(n)])
        return dict(X(rng.choice(["basis", "multi"])), n=nobs_of(a))
    if respect == "n_obs":
        n = nobs_of(a)
        choices = [u for u in (1, n + 1, n - 1, n + 2) if u >= 1 and u != n] if k == "D" else [u for u in (1, n + 1, n - 1) if u >= 1 and u != n]
        n2 = rng.choice(choices)
        if k == "D":
            rows = [a["rows"][0] if (a["rows"] and rng.random() < 0.5) else rvals(rng, gsize(a["grid"])) for _ in range(n2)]
            return dict(k="D", grid=a["grid"], rows=[[q(v) for v in r] for r in rows])
        obs = [list(o) for o in a["obs"]][:n2]
        nxt = max([o[0] for o in a["obs"]] + [0]) + 1
        while len(obs) < n2:
            g = a["obs"][0][1]
            obs.append([nxt, g, [q(v) for v in rvals(rng, gsize(g))]])
            nxt += 1
        return dict(k="I", obs=[[l, g, [q(v) for v in rvals(rng, len(vs))]] for l, g, vs in obs])
    if respect == "n_points":
        if k == "D":
            g2 = _resize(rng, a["grid"], one_vs_m=rng.random() < 0.5)
            return D(g2, [rvals(rng, gsize(g2)) for _ in a["rows"]])
        obs = [list(o) for o in a["obs"]]
        j = rng.randrange(len(obs))
        g2 = _resize(rng, obs[j][1], one_vs_m=rng.random() < 0.5)
        obs[j] = [obs[j][0], g2, [q(v) for v in rvals(rng, gsize(g2))]]
        return dict(k="I", obs=[[l, g, [q(v) for v in rvals(rng, len(vs))]] for l, g, vs in obs])
    if respect == "dimension":
        if k == "D":
            g2 = (a["grid"] + [[q(t) for t in rng.grid(rng.choice([1, 2, 3]))]]) if len(a["grid"]) == 1 else a["grid"][:1]
            return D(g2, [rvals(rng, gsize(g2)) for _ in a["rows"]])
        obs = []
        for l, g, vs in a["obs"]:
            g2 = (g + [[q(t) for t in rng.grid(rng.choice([1, 2]))]]) if len(g) == 1 else g[:1]
            obs.append((l, g2, rvals(rng, gsize(g2))))
        return I(obs)
    if respect == "grid":
        mover = _shift_grid if rng.random() < 0.35 else _move_point
        if k == "D":
            return D(mover(rng, a["grid"]), [rvals(rng, len(r)) for r in a["rows"]])
        obs = [list(o) for o in a["obs"]]
        j = rng.randrange(len(obs))
        obs[j] = [obs[j][0], mover(rng, obs[j][1]), obs[j][2]]
        return dict(k="I", obs=[[l, g, [q(v) for v in rvals(rng, len(vs))]] for l, g, vs in obs])
    if respect == "labels":
        obs = [list(o) for o in a["obs"]]
        j = rng.randrange(len(obs))
        used = {o[0] for o in obs}
        obs[j][0] = next(u for u in range(20, 40) if u not in used)
        return dict(k="I", obs=[[l, g, [q(v) for v in rvals(rng, len(vs))]] for l, g, vs in obs])
    if respect == "order":
        obs = [list(o) for o in a["obs"]]
        perm = list(range(len(obs)))
        while perm == list(range(len(obs))):
            rng.shuffle(perm)
        return dict(k="I", obs=[[obs[p][0], obs[p][1], [q(v) for v in rvals(rng, len(obs[p][2]))]] for p in perm])
    raise ValueError(respect)


def respects_for(a):
    rs_ = ["ok", "ok", "class", "n_obs", "n_points", "dimension", "grid"]
    if a["k"] == "I":
        rs_ += ["labels"]
        if len(a["obs"]) > 1:
            rs_ += ["order"]
    return rs_


SCALARS = ["int", "float", "bool", "npfloat64", "npint64", "npfloat32", "str", "array", "other"]


def mk_scalar(kind, c, shape_like=None):
    c = F(c)
    if kind == "int":
        return int(c)
    if kind == "float":
        return float(c)
    if kind == "bool":
        return bool(c)
    if kind == "npfloat64":
        return np.float64(float(c))
    if kind == "npint64":
        return np.int64(int(c))
    if kind == "npfloat32":
        return np.float32(float(c))
    if kind == "str":
        return "2"
    if kind == "array":
        return np.full(shape_like if shape_like is not None else (2,), float(c))
    if kind == "list":
        return [float(c)]
    if kind == "tuple":
        return (float(c),)
    if kind == "fraction":
        return Fraction(c)
    if kind == "decimal":
        from decimal import Decimal

        return Decimal(float(c))
    if kind == "complex":
        return complex(float(c), 1.0)
    if kind == "dict":
        return {"a": float(c)}
    if kind == "npbool":
        return np.bool_(bool(c))
    if kind == "array0d":
        return np.array(float(c))
    if kind == "npint32":
        return np.int32(int(c))
    if kind == "npfloat16":
        return np.float16(float(c))
    return None


def rscalar(rng: Rng, kind, allow_zero=True):
    if kind in ("int", "npint64"):
        c = Fraction(rng.choice([-3, -1, 1, 2, 5] + ([0] if allow_zero else [])))
    elif kind == "bool":
        c = Fraction(rng.choice([1, 1, 0] if allow_zero else [1]))
    else:
        c = rng.choice([rng.dyadic(-4, 4, 3), Fraction(1, 2), Fraction(-3, 8), Fraction(5, 2)] + ([Fraction(0)] if allow_zero else []))
        if c == 0 and not allow_zero:
            c = Fraction(3, 8)
    return c


def near_pair(rng: Rng, factor, big=False):
    """b and a = b ± factor·tol(b), both exactly float64."""
    b = rng.dyadic(-8, 8, 3) if not big else Fraction(rng.randint(-2000, 2000))
    tol = ATOL + RTOL * abs(b)
    d = Fraction(int(tol * factor * 2**48), 2**48)
    a = b + d if rng.random() < 0.5 else b - d
    return a, b


def perturb(rng: Rng, d, how):
    """A dataset on the same grid as `d` whose values differ from d's in one entry (b is `d`, a is returned)."""
    import copy

    a = copy.deepcopy(d)
    rows = a["rows"] if a["k"] == "D" else [o[2] for o in a["obs"]]
    rows = [r for r in rows if r]
    if not rows:
        return a, "none"
    r = rng.choice(rows)
    j = rng.randrange(len(r))
    b = F(r[j])
    tol = ATOL + RTOL * abs(b)
    if how == "tiny":
        delta = Fraction(1, 2**40)
    elif how == "far":
        delta = rng.choice([Fraction(1, 8), Fraction(3), Fraction(1, 1024)])
    else:
        delta = Fraction(int(tol * Fraction(how) * 2**48), 2**48)
    r[j] = q(b + delta if rng.random() < 0.5 else b - delta)
    return a, how


def eq_cases(rng: Rng, n):
    for _ in range(n):
        kind = rng.choice(["D", "I"])
        b = rdata(rng, kind)
        r = rng.random()
        if r < 0.10:
            yield dict(kind="eq", a=b, b=b, tag="identical")
        elif r < 0.45:
            how = rng.choice(["tiny", "far", "far", "1/2", "9/10", "11/10", "2", "2"])
            a, how = perturb(rng, b, how)
            yield dict(kind="eq", a=a, b=b, tag="values:" + how)
            if rng.random() < 0.5:
                yield dict(kind="eq", a=b, b=a, tag="values-swapped:" + how)
        elif r < 0.55:
            # asymmetric closeness: |a-b| between tol(a) and tol(b)
            bb = Fraction(rng.choice([4, 6, 8, 1000, 1536]))
            tol_b = ATOL + RTOL * bb
            dlt = Fraction(int((tol_b - RTOL * tol_b / 2) * 2**44), 2**44)
            aa = bb - dlt
            if kind == "D":
                g = rgrid(rng, 1, [2])
                yield dict(kind="eq", a=D(g, [[aa, 1]]), b=D(g, [[bb, 1]]), tag="asym:a-b")
                yield dict(kind="eq", a=D(g, [[bb, 1]]), b=D(g, [[aa, 1]]), tag="asym:b-a")
            else:
                g = rgrid(rng, 1, [2])
                yield dict(kind="eq", a=I([(0, g, [aa, 1])]), b=I([(0, g, [bb, 1])]), tag="asym:a-b")
                yield dict(kind="eq", a=I([(0, g, [bb, 1])]), b=I([(0, g, [aa, 1])]), tag="asym:b-a")
        elif r < 0.93:
            resp = rng.choice([x for x in respects_for(b) if x != "ok"])
            a = variant(rng, b, resp)
            if resp == "n_obs" and b["k"] == "D" and rng.random() < 0.6:
                # the single row repeated: broadcasting would call them equal
                row = b["rows"][0] if b["rows"] else [q(v) for v in rvals(rng, gsize(b["grid"]))]
                if nobs_of(b) == 1:
                    a = dict(k="D", grid=b["grid"], rows=[row] * rng.choice([2, 3]))
                else:
                    b = dict(k="D", grid=b["grid"], rows=[row] * nobs_of(b))
                    a = dict(k="D", grid=b["grid"], rows=[row])
            if resp == "order":
                # same content, other insertion order: equal
                a = dict(k="I", obs=[list(o) for o in reversed(b["obs"])])
            if resp == "n_points" and b["k"] == "D" and rng.random() < 0.4:
                # shapes that broadcast against each other (one point against m points, constant values)
                g1 = [[q(t) for t in rng.grid(1)]] + b["grid"][1:]
                c = q(rng.dyadic(-4, 4, 2))
                a = D(g1, [[c] * gsize(g1) for _ in b["rows"]])
                b = D(b["grid"], [[c] * gsize(b["grid"]) for _ in b["rows"]])
            if rng.random() < 0.5:
                a, b = b, a
            yield dict(kind="eq", a=a, b=b, tag="differs:" + resp)
        else:
            yield dict(kind="eq", a=b, b=X(rng.choice(["none", "int", "str", "array", "list", "multi", "basis"])), tag="nondata")


def mv_cases(rng: Rng, n):
    for _ in range(n):
        nobs = rng.choice([1, 2, 3])
        ncomp = rng.choice([1, 2, 3, 3, 4])
        comps = []
        for _ in range(ncomp):
            kind = rng.choice(["D", "D", "I"])
            comps.append(rdense(rng, nobs=nobs) if kind == "D" else rirreg(rng, nobs=nobs))
        r = rng.random()
        same = None
        if r < 0.35:
            j = rng.randrange(ncomp)
            item, tag = comps[j], "present-copy"
            if rng.random() < 0.3:
                same, tag = j, "present-same-object"
        elif r < 0.5:
            j = rng.randrange(ncomp)
            comps.insert(rng.randrange(ncomp + 1), comps[j])
            item, tag = comps[j], "duplicate"
        elif r < 0.65:
            j = rng.randrange(ncomp)
            item, _ = perturb(rng, comps[j], rng.choice(["tiny", "1/2"]))
            tag = "present-close"
        elif r < 0.8:
            j = rng.randrange(ncomp)
            item, _ = perturb(rng, comps[j], rng.choice(["far", "2"]))
            tag = "absent-values"
        elif r < 0.9:
            j = rng.randrange(ncomp)
            item = variant(rng, comps[j], rng.choice(["n_obs", "n_points", "grid", "dimension"]))
            tag = "absent-shape"
        else:
            item, tag = rdata(rng, nobs=nobs), "absent-random"
        yield dict(kind="mv", mode=rng.choice(["remove", "remove", "in"]), comps=comps, item=item, same=same, tag=tag)


def _pooled_variant(rng: Rng, a):
    """An irregular dataset with the same labels, the same sizes and the same POOLED grid as `a`, but other
    per-observation grids: the grids of two observations swapped, or one point moved onto a point that another
    observation already has (a point the pooled grid keeps through someone else).  None when impossible."""
    obs = [list(o) for o in a["obs"]]
    n = len(obs)
    pairs = [(i, j) for i in range(n) for j in range(i + 1, n)
             if [len(t) for t in obs[i][1]] == [len(t) for t in obs[j][1]] and obs[i][1] != obs[j][1]]
    if pairs and rng.random() < 0.6:
        i, j = rng.choice(pairs)
        obs[i][1], obs[j][1] = obs[j][1], obs[i][1]
        return dict(k="I", obs=[[l, g, [q(v) for v in rvals(rng, len(vs))]] for l, g, vs in obs])
    cands = []
    for j in range(n):
        for d in range(len(obs[j][1])):
            mine = [F(t) for t in obs[j][1][d]]
            others = [F(t) for k2 in range(n) if k2 != j and d < len(obs[k2][1]) for t in obs[k2][1][d]]
            for pos, t in enumerate(mine):
                if t in others:                      # the pooled grid keeps t through another observation
                    for new in sorted(set(others) - set(mine)):
                        cands.append((j, d, pos, new))
    if not cands:
        if pairs:
            i, j = rng.choice(pairs)
            obs[i][1], obs[j][1] = obs[j][1], obs[i][1]
            return dict(k="I", obs=[[l, g, [q(v) for v in rvals(rng, len(vs))]] for l, g, vs in obs])
        return None
    j, d, pos, new = rng.choice(cands)
    g = [list(t) for t in obs[j][1]]
    col = [F(t) for t in g[d]]
    col[pos] = new
    g[d] = [q(t) for t in sorted(col)]
    obs[j][1] = g
    return dict(k="I", obs=[[l, gg, [q(v) for v in rvals(rng, len(vs))]] for l, gg, vs in obs])


def pooled_cases(rng: Rng, n):
    """Irregular operands that differ in their per-observation grids only, sizes and pooled grid being equal."""
    for _ in range(n):
        dim = rng.choice([1, 1, 2])
        nobs = rng.choice([2, 2, 3])
        sizes = [rng.choice([2, 3]) for _ in range(dim)]
        lattice = [[Fraction(k, 4) for k in range(0, 7)] for _ in range(dim)]
        obs = []
        for l in range(nobs):
            g = [[q(t) for t in sorted(rng.sample(lattice[d], sizes[d]))] for d in range(dim)]
            obs.append((l, g, rvals(rng, gsize(g))))
        a = I(obs)
        b = _pooled_variant(rng, a)
        if b is None:
            continue
        if rng.random() < 0.5:
            a, b = b, a
        mode = rng.random()
        if mode < 0.4:
            yield dict(kind="bin", op=rng.choice(OPS), a=a, b=b, respect="grid", pooled=True)
        elif mode < 0.75:
            same_vals = dict(k="I", obs=[[l, g, va] for (l, g, _), (_, _, va) in zip(b["obs"], a["obs"])])
            yield dict(kind="eq", a=a, b=same_vals, tag="differs:grid-pooled")
        else:
            same_vals = dict(k="I", obs=[[l, g, va] for (l, g, _), (_, _, va) in zip(b["obs"], a["obs"])])
            yield dict(kind="mv", mode=rng.choice(["remove", "in"]), comps=[rdense(rng, nobs=nobs), a], item=same_vals, same=None, tag="absent-grid-pooled")


def mv_structured_cases():
    """Seed-independent: every list of up to 5 components over {A: equal to the item, B: not equal}, i.e. the
    removed item occurring 0, 1, 2 (adjacent and non-adjacent), 3 … times in every position; dense / irregular /
    mixed components; `remove`, `in`, `count`, `index` against Python's list semantics on the equality pattern."""
    g = [[0, Fraction(1, 2), 1]]
    flavours = {
        "dense": (D(g, [[1, 2, 3], [4, 5, 6]]), D(g, [[1, 2, 3], [4, 5, 7]])),
        "irregular": (I([(0, [[0, 1]], [1, 2]), (1, [[0, 1, 2]], [3, 4, 5])]), I([(0, [[0, 1]], [1, 2]), (1, [[0, 1, 2]], [3, 4, 6])])),
        "mixed": (D(g, [[1, 2, 3], [4, 5, 6]]), I([(0, [[0, 1]], [1, 2]), (1, [[0, 1, 2]], [3, 4, 5])])),
        "mixed2": (I([(0, [[0, 1]], [1, 2]), (1, [[0, 1, 2]], [3, 4, 5])]), D([[0, 1], [0, 1]], [[1, 2, 3, 4], [5, 6, 7, 8]])),
    }
    for fl, (A_, B_) in flavours.items():
        for L in range(0, 6):
            for pat in itertools.product("AB", repeat=L):
                comps = [A_ if c == "A" else B_ for c in pat]
                for mode in ("remove", "in", "count", "index"):
                    yield dict(kind="mv", mode=mode, comps=comps, item=A_, same=None, tag=f"structured:{fl}:{''.join(pat) or '-'}")


def share_cases():
    """In every run: two datasets that SHARE an object — the values object on different grids (built on the same
    `DenseValues` / `IrregularValues`, or assigned through the `values` setter), or the argvals object with different
    values — compared with `==` in both orders and looked up with `in` / `index` / `remove` / `count`."""
    g1, g2 = [[0, 1, 2]], [[0, 2, 4]]
    dense = (D(g1, [[1, 2, 3], [4, 5, 6]]), D(g2, [[1, 2, 3], [4, 5, 6]]), D(g1, [[1, 2, 3], [4, 5, 7]]))
    dense2 = (D([[0, 1], [0, 1, 2]], [[1, 2, 3, 4, 5, 6]]), D([[0, 1], [0, 1, 3]], [[1, 2, 3, 4, 5, 6]]), D([[0, 1], [0, 1, 2]], [[1, 2, 3, 4, 5, 9]]))
    irr = (I([(0, [[0, 1]], [1, 2]), (1, [[0, 1, 2]], [3, 4, 5])]), I([(0, [[0, 2]], [1, 2]), (1, [[0, 1, 2]], [3, 4, 5])]),
           I([(0, [[0, 1]], [1, 2]), (1, [[0, 1, 2]], [3, 4, 6])]))
    for name, (a, other_grid, other_vals) in (("dense", dense), ("dense2d", dense2), ("irregular", irr)):
        for via in ("ctor", "setter"):
            for mode in ("eq", "in", "index", "remove", "count"):
                yield dict(kind="share", a=a, b=other_grid, share="values", via=via, mode=mode, tag=name)
                yield dict(kind="share", a=a, b=other_vals, share="argvals", via=via, mode=mode, tag=name)


def run_share(case):
    A, V, FD = _fd()
    a = build(case["a"])
    proto = build(case["b"])           # what b must be equal to, built from scratch
    cls = type(a)
    if case["share"] == "values":
        if case["via"] == "ctor":
            b = cls(proto.argvals, a.values)
        else:
            b = proto
            b.values = a.values
        shared = b.values is a.values
    else:
        if case["via"] == "ctor":
            b = cls(a.argvals, proto.values)
        else:
            b = proto
            b.argvals = a.argvals
        shared = b.argvals is a.argvals
    out = dict(shared=bool(shared), plain=plain_eq(a, b), consistent=read_obj(b) == read_obj(build(case["b"])))
    try:
        if case["mode"] == "eq":
            r1, r2 = a == b, b == a
            out.update(res=[bool(r1), bool(r2)], rtype=type(r1).__name__)
        else:
            m = FD.MultivariateFunctionalData([b, a])
            if case["mode"] == "in":
                out.update(res=bool(a in m))
            elif case["mode"] == "index":
                out.update(res=int(m.index(a)))
            elif case["mode"] == "count":
                out.update(res=int(m.count(a)))
            else:
                m.remove(a)
                out.update(res=[0 if c is b else 1 for c in m.data])      # which of [b, a] is left
    except Exception as e:  # noqa: BLE001
        out.update(err=_ecls(e), msg=str(e)[:120])
    return out


# operands that are neither functional data nor a Python int / float (subclass): rejected with TypeError by every
# operator in both orders.  NUMPY_LEFT: on the LEFT NumPy's own operator runs first (object-array dispatch), so the
# reflected order is not FDApy's to decide and is only required to raise or be pointwise.
FOREIGN = ["npint64", "npfloat32", "str", "array", "none", "list", "tuple", "fraction", "decimal", "complex", "dict",
           "npbool", "array0d", "npint32", "npfloat16"]
NUMPY_LEFT = {"npint64", "npfloat32", "npfloat64", "array", "npbool", "array0d", "npint32", "npfloat16"}
NUMBERS = ["int", "float", "bool", "npfloat64"]


def zoo_cases():
    """In every run: every operator, both operand orders (`fd op x`, `x op fd`), the whole zoo of non-functional
    operands, on dense and irregular data."""
    datas = [D([[0, 1, 2]], [[1, 2, 3], [4, 5, 6]]), I([(0, [[0, 1]], [1, 2]), (1, [[0, 1, 2]], [3, 4, 5])]),
             D([[0, 1], [0, 1, 2]], [[1, 2, 3, 4, 5, 6]])]
    for a in datas:
        for kind in NUMBERS + FOREIGN:
            for op in OPS:
                for reflected in (False, True):
                    yield dict(kind="sc", op=op, a=a, skind="other" if kind == "none" else kind, c=q(2 if kind != "bool" else 1),
                               reflected=reflected, zoo=True)


def layout_cases():
    """In every run: operand arrays in every memory layout (Fortran order, transposed view, negative strides, a
    non-contiguous slice), dense 2-D / 1-D values and every irregular observation, all operators, scalar and functional
    operands in both orders: the result is pointwise whatever the layout."""
    g2 = [[0, 1], [0, 1, 2]]
    g1 = [[0, 1, 2, 3]]
    d2 = D(g2, [[1, 2, 3, 4, 5, 6], [7, 8, 9, 10, 11, 12]])
    d1 = D(g1, [[1, 2, 3, 4], [5, 6, 7, 8]])
    i2 = I([(0, g2, [1, 2, 3, 4, 5, 6]), (1, [[0, 1, 2], [0, 1]], [7, 8, 9, 10, 11, 12])])
    i1 = I([(0, [[0, 1, 2]], [1, 2, 3]), (1, g1, [4, 5, 6, 7])])
    for base in (d2, d1, i2, i1):
        other = dict(base)
        other = revalue(Rng("layout-other"), base, zeros=False)
        for lay in LAYOUTS:
            a = dict(base, layout=lay)
            for op in OPS:
                yield dict(kind="sc", op=op, a=a, skind="float", c=q(Fraction(3, 2)), reflected=False, layout=lay)
                yield dict(kind="bin", op=op, a=a, b=other, respect="ok", layout=lay)
                yield dict(kind="bin", op=op, a=other, b=dict(other, layout=lay) if op in ("add", "mul") else a, respect="ok", layout=lay)
            yield dict(kind="sc", op="mul", a=a, skind="int", c=q(3), reflected=True, layout=lay)
            yield dict(kind="eq", a=a, b=base, tag="layout:" + lay)


DTYPES = ["int64", "int32", "float32", "float64", "bool"]


def _dtype_vals(dt, n, salt, divisor=False):
    """n exact values of the given dtype (no zeros for a divisor); float64 values carry 30 fractional bits, so a cast to
    float32 or to an integer type changes them."""
    out = []
    for j in range(n):
        k = (3 * j + 2 * salt) % 7 + 1
        if dt in ("int64", "int32"):
            v = Fraction(k if (j + salt) % 3 else -k)
        elif dt == "bool":
            v = Fraction(1 if (divisor or (j + salt) % 2) else 0)
        elif dt == "float32":
            v = Fraction(2 * k + 1, 8) * (1 if (j + salt) % 4 else -1)
        else:
            v = Fraction(k) + Fraction(2 * k + 1, 2**30) + Fraction(1, 2)
        out.append(v)
    return out


def dtype_cases():
    """In every run: operands whose values have dtype int64 / int32 / float32 / float64 / bool in every combination and
    both orders (dense and irregular), data and scalar operands: the result is the pointwise result of the exact values."""
    g = [[0, 1, 2]]
    for kind in ("D", "I"):
        for da in DTYPES:
            for db in DTYPES:
                if da == "bool" and db == "bool":
                    continue      # NumPy: bool + bool is a logical or, bool - bool is refused: not arithmetic
                if kind == "D":
                    a = dict(D(g, [_dtype_vals(da, 3, 0), _dtype_vals(da, 3, 1)]), dtype=da)
                    b = dict(D(g, [_dtype_vals(db, 3, 2, True), _dtype_vals(db, 3, 3, True)]), dtype=db)
                else:
                    a = dict(I([(0, [[0, 1]], _dtype_vals(da, 2, 0)), (1, g, _dtype_vals(da, 3, 1))]), dtype=da)
                    b = dict(I([(0, [[0, 1]], _dtype_vals(db, 2, 2, True)), (1, g, _dtype_vals(db, 3, 3, True))]), dtype=db)
                narrow = {da, db} <= {"float32", "bool"}     # a float32 result: quotients are rounded to 24 bits
                for op in OPS:
                    if op in ("div", "floordiv") and narrow:
                        continue
                    yield dict(kind="bin", op=op, a=a, b=b, respect="ok", dtypes=[da, db])
                if "bool" not in (da, db) and not narrow:
                    yield dict(kind="ident", a=a, b=b, c=q(Fraction(3, 2)), dtypes=[da, db])
            for sk, c in (("int", 3), ("float", Fraction(5, 2)), ("bool", 1), ("npfloat64", Fraction(-3, 2))):
                a = dict(D(g, [_dtype_vals(da, 3, 0), _dtype_vals(da, 3, 1)]), dtype=da) if kind == "D" else \
                    dict(I([(0, [[0, 1]], _dtype_vals(da, 2, 0)), (1, g, _dtype_vals(da, 3, 1))]), dtype=da)
                for op in OPS:
                    if da == "bool" and sk == "bool" and op in ("add", "sub"):
                        continue
                    if da == "float32" and op == "div":
                        continue      # Python / NumPy scalars are "weak": the quotient stays float32 (24 bits)
                    yield dict(kind="sc", op=op, a=a, skind=sk, c=q(c), reflected=False, dtypes=[da, sk])
                yield dict(kind="sc", op="mul", a=a, skind=sk, c=q(c), reflected=True, dtypes=[da, sk])


def mvop_cases(rng: Rng, n):
    """The operators a multivariate object inherits from `UserList`: `+` (concatenation through the
    constructor), `*` (repetition), `==` (list equality) — not arithmetic."""
    for _ in range(n):
        nobs = rng.choice([1, 2, 3])
        cs = [rdata(rng, nobs=nobs) for _ in range(rng.randint(0, 3))]
        mode = rng.choice(["add", "add", "mul", "eq", "eq"])
        if mode == "add":
            n2 = nobs if rng.random() < 0.7 else nobs + 1
            ds = [rdata(rng, nobs=n2) for _ in range(rng.randint(0, 2))]
            yield dict(kind="mvop", mode="add", cs=cs, ds=ds, aslist=rng.random() < 0.4)
        elif mode == "mul":
            yield dict(kind="mvop", mode="mul", cs=cs, k=rng.randint(-1, 3), reflected=rng.random() < 0.4)
        else:
            r = rng.random()
            if r < 0.4:
                ds = list(cs)
            elif r < 0.6:
                ds = cs[:-1] if cs else [rdata(rng, nobs=nobs)]
            elif r < 0.8 and cs:
                j = rng.randrange(len(cs))
                ds = list(cs)
                ds[j] = perturb(rng, cs[j], rng.choice(["tiny", "far", "2"]))[0]
            else:
                ds = list(reversed(cs))
            yield dict(kind="mvop", mode="eq", cs=cs, ds=ds)


SPECIALS = ["nan", "inf", "-inf"]


def nonfinite_cases(rng: Rng, n):
    """`==`, `in`, `remove` between datasets on the same grid whose values hold NaN / +inf / -inf: NaN on both
    sides is equal, NaN on one side only is a difference, infinities are equal only with the same sign."""
    for _ in range(n):
        kind = rng.choice(["D", "I"])
        base = rdata(rng, kind, zeros=False)
        rows = base["rows"] if kind == "D" else [o[2] for o in base["obs"]]
        cells = [(i, j) for i, r in enumerate(rows) for j in range(len(r))]
        if not cells:
            continue
        import copy

        a, b = copy.deepcopy(base), copy.deepcopy(base)
        ra = a["rows"] if kind == "D" else [o[2] for o in a["obs"]]
        rb = b["rows"] if kind == "D" else [o[2] for o in b["obs"]]
        for (i, j) in rng.sample(cells, min(len(cells), rng.randint(1, 3))):
            c = rng.random()
            if c < 0.3:
                sp = rng.choice(SPECIALS)
                ra[i][j] = rb[i][j] = sp                         # the same special value on both sides
            elif c < 0.6:
                (ra if rng.random() < 0.5 else rb)[i][j] = rng.choice(SPECIALS)   # on one side only
            elif c < 0.8:
                ra[i][j], rb[i][j] = rng.choice([("inf", "-inf"), ("-inf", "inf")])
            else:
                ra[i][j], rb[i][j] = rng.choice([("nan", "inf"), ("inf", "nan"), ("nan", "-inf")])
        mode = rng.random()
        if mode < 0.7:
            yield dict(kind="eqnf", a=a, b=b, mode="eq")
        else:
            yield dict(kind="eqnf", a=a, b=b, mode=rng.choice(["in", "remove"]))


def _flat_tokens(d):
    rows = d["rows"] if d["k"] == "D" else [o[2] for o in d["obs"]]
    flat = [x for r in rows for x in r]
    return "-" if not flat else ",".join(x if x in SPECIALS else q(x) for x in flat)


def run_eqnf(case):
    A, V, FD = _fd()
    a, b = build(case["a"]), build(case["b"])
    out = dict(plain=plain_eq(a, b))
    try:
        if case["mode"] == "eq":
            r = a == b
            out.update(res=bool(r), rtype=type(r).__name__, res_ba=bool(b == a))
        else:
            other = build(D([[0, 1]], [[1, 2]] * _nobs(a))) if _nobs(a) else None
            comps = [c for c in (other, a) if c is not None]
            m = FD.MultivariateFunctionalData(list(comps))
            if case["mode"] == "in":
                out.update(res=bool(b in m), rtype="bool")
            else:
                try:
                    m.remove(b)
                    out.update(res=True, rtype="bool", removed_right=all(c is not a for c in m.data))
                except ValueError:
                    out.update(res=False, rtype="bool")
    except Exception as e:  # noqa: BLE001
        out.update(err=_ecls(e), msg=str(e)[:120])
    return out


def bin_cases(rng: Rng, n):
    for _ in range(n):
        a = rdata(rng)
        if rng.random() < 0.06 and a["k"] == "D":
            a = rdense(rng, nobs=0)
        resp = rng.choice(respects_for(a))
        if nobs_of(a) == 0 and resp in ("n_points", "grid", "dimension", "class"):
            resp = "ok"
        if resp == "order" and rng.random() < 0.6:
            a = rirreg(rng, nobs=rng.choice([2, 3]), same_shape=True)
        b = variant(rng, a, resp)
        if rng.random() < 0.3:
            a, b = (b, a) if b["k"] != "X" else (a, b)
        ops = OPS if rng.random() < 0.25 else [rng.choice(OPS)]
        for op in ops:
            yield dict(kind="bin", op=op, a=a, b=b, respect=resp)


def _derive_desc(d, base, ix):
    """Description of `base(x)[ix]` for the dataset described by `d` (plain list semantics)."""
    fac = {"x": 1, "x+x": 2, "2*x": 2, "x-x": 0}[base]
    sel = (lambda seq: [seq[ix]]) if isinstance(ix, int) else (lambda seq: seq[slice(*ix)] if isinstance(ix, tuple) else [seq[i] for i in ix])
    if d["k"] == "D":
        return dict(k="D", grid=d["grid"], rows=[[q(fac * F(v)) for v in r] for r in sel(d["rows"])])
    obs = d["obs"]
    if d.get("aord"):      # selection walks the labels in the order of the *argvals* dictionary
        by = {o[0]: o for o in obs}
        obs = [by[l] for l in d["aord"]]
    return dict(k="I", obs=[[l, g, [q(fac * F(v)) for v in vs]] for l, g, vs in sel(obs)])


def derived_cases(rng: Rng, n):
    """Operands DERIVED from each other by selection / arithmetic (they share argvals objects):
    another number of observations must still be rejected, the same number combined pointwise."""
    for _ in range(n):
        nobs = rng.choice([2, 2, 3, 4])
        x = rdense(rng, nobs=nobs) if rng.random() < 0.65 else rirreg(rng, nobs=nobs, labels=list(range(nobs)))
        base = rng.choice(["x", "x", "x+x", "2*x", "x-x"])
        ix = rng.choice([0, nobs - 1, -1, (0, 1, None), (1, 2, None), (None, None, None), (None, None, 2), [0], [nobs - 1], list(range(nobs))])
        if x["k"] == "I" and isinstance(ix, tuple) and ix == (None, None, 2) and nobs < 3:
            ix = 0
        y = _derive_desc(x, base, ix)
        same_n = nobs_of(y) == nobs
        target = rng.choice(["a", "b"])
        ops = OPS if rng.random() < 0.3 else [rng.choice(OPS)]
        for op in ops:
            case = dict(kind="bin", op=op, respect="ok" if same_n else "n_obs",
                        derive=dict(target=target, base=base, ix=list(ix) if isinstance(ix, tuple) else ix, slice=isinstance(ix, tuple)))
            case["a"], case["b"] = (y, x) if target == "a" else (x, y)
            yield case


DECIMALS = [0.1, 0.01, 0.3, 1.0 / 3.0, 0.7, 0.001, 0.05, 1e-9, 0.1 * 2.0**20, 2.5e6 / 3.0]


def _decimal_values(rng: Rng, n, d):
    """Floats next to integer multiples of `d` (k*d in floating point, or the decimal literal): their
    quotients by `d` sit within rounding of an integer.  The description holds the floats' *exact* rationals."""
    out = []
    for _ in range(n):
        k = rng.randint(-12, 60)
        c = rng.random()
        if c < 0.45:
            x = float(k) * d
        elif c < 0.8:
            x = float(f"{k * d:.12g}")
        else:
            x = float(k) * d + rng.choice([0.0, d / 2, 1e-12 * d])
        out.append(Fraction(x))
    return out


def decimal_cases(rng: Rng, n):
    """Decimal (non-dyadic) operands: `//` and `/` where the rounded quotient may land on an integer while
    the exact quotient of the two floats does not (1.0 // 0.1 is 9), data and scalar divisors."""
    for _ in range(n):
        d = rng.choice(DECIMALS)
        dim = rng.choice([1, 1, 2])
        nobs = rng.choice([1, 2, 3])
        if rng.random() < 0.6:
            grid = rgrid(rng, dim)
            m = gsize(grid)
            a = D(grid, [_decimal_values(rng, m, d) for _ in range(nobs)])
            b = D(grid, [[Fraction(rng.choice([d, d, -d, 2 * d, rng.choice(DECIMALS)])) for _ in range(m)] for _ in range(nobs)])
        else:
            labels = list(range(nobs))
            grids = [rgrid(rng, dim) for _ in labels]
            a = I([(l, g, _decimal_values(rng, gsize(g), d)) for l, g in zip(labels, grids)])
            b = I([(l, g, [Fraction(rng.choice([d, d, -d, 2 * d])) for _ in range(gsize(g))]) for l, g in zip(labels, grids)])
        for op in (["floordiv", "div"] if rng.random() < 0.7 else ["floordiv"] + [rng.choice(OPS)]):
            yield dict(kind="bin", op=op, a=a, b=b, respect="ok", decimal=True)
        c = Fraction(rng.choice([d, d, -d, 3 * d]))
        kind = rng.choice(["float", "float", "npfloat64"])
        yield dict(kind="sc", op="floordiv", a=a, skind=kind, c=q(c), reflected=False, decimal=True)
        if rng.random() < 0.4:
            yield dict(kind="sc", op=rng.choice(["div", "mul"]), a=a, skind=kind, c=q(c), reflected=False, decimal=True)


def sc_cases(rng: Rng, n):
    for _ in range(n):
        a = rdata(rng)
        kind = rng.choice(SCALARS)
        op = rng.choice(OPS)
        c = rscalar(rng, kind)
        yield dict(kind="sc", op=op, a=a, skind=kind, c=q(c), reflected=rng.random() < 0.35)


def ident_cases(rng: Rng, n):
    for _ in range(n):
        a = rdata(rng, zeros=True)
        b = revalue(rng, a, zeros=False)
        yield dict(kind="ident", a=a, b=b, c=q(rscalar(rng, rng.choice(["int", "float"]))))


FIXED = [
    # zero divisors: non-finite entries, no exception
    dict(kind="bin", op="div", a=D([[0, 1, 2]], [[1, 0, -3]]), b=D([[0, 1, 2]], [[0, 0, 2]]), respect="ok"),
    dict(kind="bin", op="floordiv", a=D([[0, 1, 2]], [[1, 0, -3]]), b=D([[0, 1, 2]], [[0, 0, 2]]), respect="ok"),
    dict(kind="bin", op="div", a=I([(0, [[0, 1]], [1, 0]), (1, [[0, 2, 3]], [1, 2, 3])]), b=I([(0, [[0, 1]], [0, 0]), (1, [[0, 2, 3]], [2, 0, 4])]), respect="ok"),
    dict(kind="sc", op="div", a=D([[0, 1]], [[1, 0]]), skind="int", c="0", reflected=False),
    dict(kind="sc", op="floordiv", a=I([(3, [[0, 1]], [1, -2])]), skind="float", c="0", reflected=False),
    dict(kind="sc", op="div", a=D([[0, 1]], [[1, 0]]), skind="bool", c="0", reflected=False),
    # reflected operators
    dict(kind="sc", op="mul", a=D([[0, 1], [0, 1, 2]], [[1, 2, 3, 4, 5, 6]]), skind="int", c="2", reflected=True),
    dict(kind="sc", op="add", a=D([[0, 1]], [[1, 2]]), skind="int", c="2", reflected=True),
    dict(kind="sc", op="mul", a=I([(0, [[0, 1]], [1, 2]), (5, [[0, 1, 2]], [1, 2, 3])]), skind="float", c="5/2", reflected=True),
    # broadcast temptations
    dict(kind="bin", op="add", a=D([[0, 1, 2]], [[1, 2, 3], [4, 5, 6]]), b=D([[0, 1, 2]], [[1, 1, 1]]), respect="n_obs"),
    dict(kind="bin", op="mul", a=D([[0, 1, 2]], [[1, 2, 3]]), b=D([[0, 1, 2]], [[1, 1, 1], [2, 2, 2]]), respect="n_obs"),
    dict(kind="bin", op="add", a=D([[0, 1, 2]], [[1, 2, 3], [4, 5, 6]]), b=D([[0]], [[1], [2]]), respect="n_points"),
    dict(kind="bin", op="sub", a=D([[0], [0, 1]], [[1, 2]]), b=D([[0]], [[1]]), respect="dimension"),
    dict(kind="bin", op="add", a=I([(0, [[0, 1, 2]], [1, 2, 3])]), b=I([(0, [[1]], [5])]), respect="n_points"),
    # empty datasets
    dict(kind="bin", op="add", a=D([[0, 1]], []), b=D([[0, 1]], []), respect="ok"),
    dict(kind="bin", op="add", a=I([]), b=I([]), respect="empty-irregular"),
    dict(kind="eq", a=D([[0, 1]], []), b=D([[0, 1]], []), tag="identical"),
    # equality: the repaired defects
    dict(kind="eq", a=I([(0, [[0, 1]], [1, 2]), (1, [[0, 1, 2]], [3, 4, 5])]), b=I([(0, [[0, 1]], [1, 2]), (1, [[0, 1, 2]], [3, 4, 6])]), tag="values:far"),
    dict(kind="eq", a=D([[0, 1, 2]], [[1, 2, 3], [4, 5, 6]]), b=D([[0, 1, 2]], [[1, 2, 3], [4, 5, 6], [7, 8, 9]]), tag="differs:n_obs"),
    dict(kind="eq", a=D([[0, 1, 2]], [[1, 2, 3], [4, 5, 6]]), b=D([[0, 1]], [[1, 2], [4, 5]]), tag="differs:n_points"),
    dict(kind="eq", a=D([[0, 1, 2]], [[1, 2, 3]]), b=I([(0, [[0, 1, 2]], [1, 2, 3])]), tag="differs:class"),
    dict(kind="eq", a=I([(0, [[0, 1, 2]], [1, 2, 3])]), b=D([[0, 1, 2]], [[1, 2, 3]]), tag="differs:class"),
    dict(kind="mv", mode="remove", comps=[D([[0, 1, 2]], [[1, 2, 3]]), D([[0, 1]], [[1, 2]])], item=D([[0, 1]], [[1, 2]]), same=None, tag="present-copy"),
    dict(kind="mv", mode="in", comps=[D([[0, 1, 2]], [[1, 2, 3]]), D([[0, 1]], [[1, 2]])], item=D([[0, 1]], [[1, 2]]), same=None, tag="present-copy"),
    dict(kind="mv", mode="remove", comps=[D([[0, 1, 2]], [[1, 2, 3]]), I([(0, [[0, 1]], [1, 2])])], item=I([(0, [[0, 1]], [1, 5])]), same=None, tag="absent-values"),
    dict(kind="mv", mode="in", comps=[I([(0, [[0, 1]], [1, 2])]), D([[0, 1, 2]], [[1, 2, 3]])], item=D([[0, 1, 2]], [[1, 2, 3]]), same=None, tag="present-copy"),
]

WITNESS_ORDER = dict(kind="bin", op="add", respect="order", witness=FINDING_ORDER,
                     a=I([(0, [[0, 1]], [1, 2]), (1, [[0, 2]], [3, 4])]),
                     b=I([(1, [[0, 2]], [30, 40]), (0, [[0, 1]], [10, 20])]))


def gen_cases(rng: Rng, tier):
    common.use_repo()
    k = dict(quick=1, thorough=12)[tier]
    yield from FIXED
    yield from mv_structured_cases()
    yield from share_cases()
    yield from zoo_cases()
    yield from dtype_cases()
    yield from layout_cases()
    yield from spell_cases()
    yield from bin_cases(rng, 130 * k)
    yield from derived_cases(rng, 45 * k)
    yield from decimal_cases(rng, 30 * k)
    yield from mvop_cases(rng, 40 * k)
    yield from pooled_cases(rng, 40 * k)
    yield from nonfinite_cases(rng, 50 * k)
    yield from sc_cases(rng, 90 * k)
    yield from ident_cases(rng, 40 * k)
    yield from eq_cases(rng, 120 * k)
    yield from mv_cases(rng, 70 * k)


def search_cases(rng: Rng, tier):
    yield from bin_cases(rng, 200)
    yield from derived_cases(rng, 80)
    yield from decimal_cases(rng, 60)
    yield from sc_cases(rng, 100)
    yield from eq_cases(rng, 200)
    yield from mv_cases(rng, 100)


def witness_cases():
    if _bylabel() == 0:
        yield dict(WITNESS_ORDER)


# --------------------------------------------------------------------------
# implementation
# --------------------------------------------------------------------------

def _ecls(e):
    c = err_class(e)
    return "Other" if c.startswith("Other") else c


PYOPS = {
    "add": lambda x, y: x + y, "sub": lambda x, y: x - y, "mul": lambda x, y: x * y,
    "div": lambda x, y: x / y, "floordiv": lambda x, y: x // y,
}


def _is_grid(x):
    return _kind(x) in ("D", "I")


def _check_result(res, left, expected, tol=0.0):
    """Property predicate on a result: class kept, sampling points kept, labels kept, values = expectation."""
    bad = []
    if type(res) is not type(left):
        return ["type_changed:" + type(res).__name__]
    if not _grids_equal(res, left):
        bad.append("grid_changed")
    A, V, FD = _fd()
    if not isinstance(res.values, V.DenseValues if _kind(left) == "D" else V.IrregularValues):
        bad.append("values_class:" + type(res.values).__name__)
    if _kind(left) == "I" and list(res.values.keys()) != list(left.values.keys()):
        bad.append("labels_changed")
    if not same_content(res, expected, tol):
        bad.append("not_pointwise")
    return bad


def _derive_obj(x, dv):
    base = {"x": lambda o: o, "x+x": lambda o: o + o, "2*x": lambda o: 2 * o, "x-x": lambda o: o - o}[dv["base"]](x)
    ix = dv["ix"]
    if dv.get("slice"):
        return base[slice(*ix)]
    if isinstance(ix, list):
        return base[np.array(ix, dtype=int)]
    return base[int(ix)]


def run_bin(case):
    dv = case.get("derive")
    if dv:
        # the derived operand is computed from the *object* of the other one (shared argvals)
        if dv["target"] == "b":
            a = build(case["a"])
            b = _derive_obj(a, dv)
        else:
            b = build(case["b"])
            a = _derive_obj(b, dv)
    else:
        a, b = build(case["a"]), build(case["b"])
    sa, sb = snapshot(a), snapshot(b)
    inc = incompat(a, b)
    out = dict(incompat=inc, order_differs=False)
    if inc is None and _kind(a) == "I":
        out["order_differs"] = list(a.values.keys()) != list(b.values.keys())
    try:
        res = PYOPS[case["op"]](a, b)
    except Exception as e:  # noqa: BLE001
        out.update(err=_ecls(e), msg=str(e)[:120])
        res = None
    out["untouched"] = (snapshot(a) == sa) and (snapshot(b) == sb)
    if res is not None:
        out["res"] = read_obj(res)
        out["shared_grid"] = bool(getattr(res, "argvals", None) is a.argvals)
        if inc is None:
            out["bad"] = _check_result(res, a, plain_binop(case["op"], a, b))
    return out


def run_sc(case):
    a = build(case["a"])
    shape_like = np.shape(a.values) if _kind(a) == "D" else (2,)
    c = mk_scalar(case["skind"], case["c"], shape_like)
    sa = snapshot(a)
    out = dict()
    try:
        res = PYOPS[case["op"]](c, a) if case["reflected"] else PYOPS[case["op"]](a, c)
    except Exception as e:  # noqa: BLE001
        out.update(err=_ecls(e), msg=str(e)[:120])
        res = None
    out["untouched"] = snapshot(a) == sa
    if res is not None:
        out["res"] = read_obj(res)
        if _is_grid(res) and case["skind"] in ("int", "float", "bool", "npfloat64", "npint64", "npfloat32"):
            out["bad"] = _check_result(res, a, plain_scalar(case["op"], a, c, case["reflected"]))
        elif not _is_grid(res):
            out["bad"] = ["type_changed:" + type(res).__name__]
    return out


def _try(f):
    try:
        return f(), None
    except Exception as e:  # noqa: BLE001
        return None, _ecls(e) + ": " + str(e)[:80]


def run_ident(case):
    a, b = build(case["a"]), build(case["b"])
    c = float(F(case["c"]))
    sa, sb = snapshot(a), snapshot(b)
    fails = []

    def values_of(x):
        return np.asarray(x.values) if _kind(x) == "D" else {l: np.asarray(v) for l, v in x.values.items()}

    def check(name, f, expected, tol):
        res, err = _try(f)
        if err:
            fails.append(f"{name}: raised {err}")
        else:
            bad = _check_result(res, a, expected, tol)
            if bad:
                fails.append(f"{name}: {','.join(bad)}")

    va = values_of(a)
    check("(a+b)-b=a", lambda: (a + b) - b, va, 1e-12)
    check("(a-b)+b=a", lambda: (a - b) + b, va, 1e-12)
    check("a*1=a", lambda: a * 1, va, 0.0)
    check("a+0=a", lambda: a + 0, va, 0.0)
    check("a/1=a", lambda: a / 1, va, 0.0)
    check("(a/b)*b=a", lambda: (a / b) * b, va, 1e-12)
    ab, err = _try(lambda: a + b)
    if not err:
        check("a+b=b+a", lambda: b + a, values_of(ab), 0.0)
    ab, err = _try(lambda: a * b)
    if not err:
        check("a*b=b*a", lambda: b * a, values_of(ab), 0.0)
    lhs, err = _try(lambda: c * (a + b))
    if not err:
        check("c*(a+b)=c*a+c*b", lambda: c * a + c * b, values_of(lhs), 1e-12)
    lhs, err = _try(lambda: (a + b) * c)
    if not err:
        check("(a+b)*c=a*c+b*c", lambda: a * c + b * c, values_of(lhs), 1e-12)
    return dict(fails=fails, untouched=(snapshot(a) == sa and snapshot(b) == sb))


def run_eq(case):
    a, b = build(case["a"]), build(case["b"])
    sa, sb = snapshot(a), snapshot(b)
    out = dict(both_grid=_is_grid(a) and _is_grid(b))
    if out["both_grid"]:
        out["plain"] = plain_eq(a, b)
        out["margin"] = margin_ok(a, b)
    try:
        res = a == b
        out.update(res=bool(res) if isinstance(res, (bool, np.bool_)) else repr(res)[:60], rtype=type(res).__name__)
    except Exception as e:  # noqa: BLE001
        out.update(err=_ecls(e), msg=str(e)[:120])
    try:
        ne = a != b
        out["ne"] = bool(ne) if isinstance(ne, (bool, np.bool_)) else repr(ne)[:60]
    except Exception as e:  # noqa: BLE001
        out["ne"] = "err:" + _ecls(e)
    out["untouched"] = snapshot(a) == sa and snapshot(b) == sb
    return out


def run_mv(case):
    A, V, FD = _fd()
    built = {}
    comps = []
    for d in case["comps"]:
        # the same description twice = two separately built, equal components
        comps.append(build(d))
    item = comps[case["same"]] if case.get("same") is not None else build(case["item"])
    mfd = FD.MultivariateFunctionalData(list(comps))
    plain = [plain_eq(c, item) or (c is item) for c in comps]
    first = plain.index(True) if True in plain else None
    ids = [id(c) for c in mfd.data]
    out = dict(plain_first=first, n=len(comps))
    out["plain_count"] = sum(1 for v in plain if v)
    if case["mode"] in ("count", "index"):
        try:
            r = mfd.count(item) if case["mode"] == "count" else mfd.index(item)
            out.update(res=int(r), rtype=type(r).__name__)
        except Exception as e:  # noqa: BLE001
            out.update(err=_ecls(e), msg=str(e)[:120])
        out["unchanged"] = [id(c) for c in mfd.data] == ids
    elif case["mode"] == "in":
        try:
            r = item in mfd
            out.update(res=bool(r), rtype=type(r).__name__)
        except Exception as e:  # noqa: BLE001
            out.update(err=_ecls(e), msg=str(e)[:120])
        out["unchanged"] = [id(c) for c in mfd.data] == ids
    else:
        try:
            mfd.remove(item)
            after = [id(c) for c in mfd.data]
            gone = [k for k in range(len(ids)) if ids[:k] + ids[k + 1:] == after]
            out["removed"] = gone[0] if gone else -1
            # with duplicates several k explain the same outcome: report the least
            out["after_n"] = len(after)
            out["after_positions"] = [ids.index(i) if i in ids else -1 for i in after]
        except Exception as e:  # noqa: BLE001
            out.update(err=_ecls(e), msg=str(e)[:120])
            out["unchanged"] = [id(c) for c in mfd.data] == ids
        out["remaining"] = [read_obj(c) for c in mfd.data]
    return out


def run_mvop(case):
    A, V, FD = _fd()
    cs = [build(d) for d in case["cs"]]
    m = FD.MultivariateFunctionalData(list(cs))
    out = {}
    try:
        if case["mode"] == "add":
            ds = [build(d) for d in case["ds"]]
            other = ds if case.get("aslist") else FD.MultivariateFunctionalData(list(ds)) if len({_nobs(d) for d in ds}) <= 1 else ds
            r = m + other
            out.update(n=len(r.data), rtype=type(r).__name__, plain=[id(c) for c in r.data] == [id(c) for c in cs + ds],
                       left_untouched=[id(c) for c in m.data] == [id(c) for c in cs])
        elif case["mode"] == "mul":
            r = case["k"] * m if case.get("reflected") else m * case["k"]
            out.update(n=len(r.data), rtype=type(r).__name__, plain=[id(c) for c in r.data] == [id(c) for c in cs] * max(case["k"], 0))
        else:
            ds = [build(d) for d in case["ds"]]
            r = m == FD.MultivariateFunctionalData(list(ds))
            out.update(res=bool(r), rtype=type(r).__name__,
                       plain=len(cs) == len(ds) and all(plain_eq(a, b) for a, b in zip(cs, ds)))
    except Exception as e:  # noqa: BLE001
        out.update(err=_ecls(e), msg=str(e)[:120])
    return out


def run_impl(case):
    common.use_repo()
    quiet()
    if case["kind"] == "mvop":
        return run_mvop(case)
    if case["kind"] == "eqnf":
        return run_eqnf(case)
    if case["kind"] == "share":
        return run_share(case)
    if case["kind"] == "spell":
        return run_spell(case)
    return {"bin": run_bin, "sc": run_sc, "ident": run_ident, "eq": run_eq, "mv": run_mv}[case["kind"]](case)


# --------------------------------------------------------------------------
# every spelling of an operator (augmented assignment, `operator.*`, dunder calls, NumPy ufunc calls, unary operators, `sum`)
# --------------------------------------------------------------------------

OPNAME = {"add": "add", "sub": "sub", "mul": "mul", "div": "truediv", "floordiv": "floordiv"}
SYMBOL = {"add": "+", "sub": "-", "mul": "*", "truediv": "/", "floordiv": "//", "mod": "%", "pow": "**", "matmul": "@",
          "and_": "&", "or_": "|", "xor": "^", "lshift": "<<", "rshift": ">>"}


def _operator_binaries():
    """By reflection: every binary operator of the `operator` module that has an in-place twin (`add`/`iadd`, ...)."""
    import operator

    return sorted(n for n in operator.__all__ if "i" + n in operator.__all__)


def _operator_unaries():
    import operator

    return [n for n in ("neg", "pos", "abs", "invert", "inv") if n in operator.__all__]


def _spellings(name):
    """name: a name of `_operator_binaries()`.  Each spelling maps the two operands to the value of the expression."""
    import operator

    sp = {}
    sym = SYMBOL.get(name)
    if sym:
        sp["infix"] = lambda a, b: eval("a " + sym + " b", {"a": a, "b": b})

        def aug(a, b):
            env = {"x": a, "b": b}
            exec("x " + sym + "= b", env)
            return env["x"]
        sp["augmented"] = aug
    sp["operator." + name] = getattr(operator, name)
    sp["operator.i" + name] = getattr(operator, "i" + name)
    dn = name.rstrip("_")

    def dunder(a, b):
        f = getattr(type(a), "__" + dn + "__", None)
        r = f(a, b) if f is not None else NotImplemented
        if r is NotImplemented:
            g = getattr(type(b), "__r" + dn + "__", None)
            r = g(b, a) if g is not None else NotImplemented
        if r is NotImplemented:
            raise TypeError("unsupported operand")
        return r
    if sym:
        sp["dunder"] = dunder

    def idunder(a, b):
        f = getattr(type(a), "__i" + dn + "__", None)
        r = f(a, b) if f is not None else NotImplemented
        return dunder(a, b) if r is NotImplemented else r
    if sym:
        sp["in-place dunder"] = idunder
    uf = {"add": np.add, "sub": np.subtract, "mul": np.multiply, "truediv": np.true_divide, "floordiv": np.floor_divide,
          "mod": np.mod, "pow": np.power}.get(name)
    if uf is not None:
        sp["numpy ufunc"] = uf
    if name == "add":
        sp["sum"] = lambda a, b: sum([b], a)
    return sp


def _operand(d):
    return mk_scalar(d["skind"], d["c"], (2, 3)) if d["k"] == "S" else build(d)


def _outcome(f, mk):
    a, b = mk()
    sa, sb = (snapshot(a) if _is_grid(a) else None), (snapshot(b) if _is_grid(b) else None)
    o = {}
    try:
        r = f(a, b)
        if _is_grid(r):
            o["res"] = read_obj(r)
            o["alias"] = bool(r is a or r is b)
        else:
            o["other"] = type(r).__name__
    except Exception as e:  # noqa: BLE001
        o["err"] = _ecls(e)
        o["msg"] = str(e)[:100]
    o["untouched"] = bool((sa is None or snapshot(a) == sa) and (sb is None or snapshot(b) == sb))
    return o


def spell_cases():
    """In every run: every spelling of every binary operator of the `operator` module (found by reflection) and the unary
    operators, on compatible operands, on operands that differ in each respect the guards look at, and with scalars."""
    g = [[0, 1, 2]]
    d = D(g, [[1, 2, 3], [4, 5, 6]])
    ir = I([(0, [[0, 1]], [1, 2]), (1, [[0, 1, 2]], [3, 4, 5])])
    pairs = [
        ("ok", d, D(g, [[2, 1, 4], [5, 2, 1]])), ("n_obs", d, D(g, [[2, 1, 4]])), ("n_obs", D(g, [[2, 1, 4]]), d),
        ("n_obs", d, D(g, [[2, 1, 4], [5, 2, 1], [1, 1, 1]])), ("grid", d, D([[0, 1, 3]], [[2, 1, 4], [5, 2, 1]])),
        ("n_points", d, D([[0, 1]], [[2, 1], [5, 2]])), ("dimension", d, D([[0, 1, 2], [0]], [[2, 1, 4], [5, 2, 1]])),
        ("class", d, ir), ("class", ir, d),
        ("ok", ir, I([(0, [[0, 1]], [2, 4]), (1, [[0, 1, 2]], [1, 2, 5])])), ("n_obs", ir, I([(0, [[0, 1]], [2, 4])])),
        ("n_obs", I([(0, [[0, 1]], [2, 4])]), ir), ("n_obs", ir, I([(0, [[0, 1]], [2, 4]), (1, [[0, 1, 2]], [1, 2, 5]), (2, [[0, 1]], [1, 1])])),
        ("grid", ir, I([(0, [[0, 2]], [2, 4]), (1, [[0, 1, 2]], [1, 2, 5])])),
        ("ok", D([[0, 1], [0, 1, 2]], [[1, 2, 3, 4, 5, 6]]), D([[0, 1], [0, 1, 2]], [[2, 2, 1, 1, 4, 3]])),
        ("n_obs", D([[0, 1], [0, 1, 2]], [[1, 2, 3, 4, 5, 6], [1, 1, 1, 1, 1, 1]]), D([[0, 1], [0, 1, 2]], [[2, 2, 1, 1, 4, 3]])),
    ]
    for x in (d, ir):
        for sk, c in (("int", "2"), ("float", "1/2"), ("bool", "1"), ("npfloat64", "3/2"), ("npint64", "2"), ("str", "2"), ("array", "2")):
            pairs.append(("scalar:" + sk, x, dict(k="S", skind=sk, c=c)))
            pairs.append(("rscalar:" + sk, dict(k="S", skind=sk, c=c), x))
    for name in _operator_binaries():
        for resp, a, b in pairs:
            yield dict(kind="spell", name=name, respect=resp, a=a, b=b)
    for name in _operator_unaries():
        for x in (d, ir):
            yield dict(kind="spell", name=name, unary=True, respect="unary", a=x, b=x)


def run_spell(case):
    import operator

    mk = lambda: (_operand(case["a"]), _operand(case["b"]))  # noqa: E731
    if case.get("unary"):
        f = getattr(operator, case["name"])
        sym = {"neg": "-", "pos": "+", "invert": "~", "inv": "~"}.get(case["name"])
        sp = {"operator." + case["name"]: lambda a, b: f(a)}
        if sym:
            sp["prefix"] = lambda a, b: eval(sym + "a", {"a": a})
        else:
            sp["builtin"] = lambda a, b: abs(a)
        return dict(sp={k: _outcome(v, mk) for k, v in sp.items()})
    a, b = mk()
    inc = incompat(a, b) if _is_grid(a) and _is_grid(b) else None
    return dict(incompat=inc, sp={k: _outcome(v, mk) for k, v in _spellings(case["name"]).items()})


def _spell_oracle(case, impl):
    vs = []
    sp = impl["sp"]
    dn = case["name"].rstrip("_")
    key = lambda o: ("err", o["err"]) if "err" in o else (("res", json.dumps(o["res"], sort_keys=True)) if "res" in o else ("other", o["other"]))  # noqa: E731
    ref_name = "infix" if "infix" in sp else ("prefix" if "prefix" in sp else [n for n in sorted(sp) if not n.startswith("operator.i")][0])
    ref = sp[ref_name]
    for nm, o in sp.items():
        inplace = nm in ("augmented", "in-place dunder") or nm.startswith("operator.i")
        entry = ("__i" if inplace else "__") + dn + "__"
        what = f"`{nm}` spelling of `{case['name']}` ({case['respect']})"
        if not o["untouched"]:
            vs.append(dict(clause="operands_untouched", entry=entry, causes=["spelling_mutates"], msg=f"{what}: an operand was modified (every spelling builds a new object)"))
        if "res" in o and o.get("alias"):
            vs.append(dict(clause="operands_untouched", entry=entry, causes=["spelling_aliases"], msg=f"{what}: the result IS one of the operands"))
        if impl.get("incompat") and "err" not in o:
            vs.append(dict(clause="rejects", entry=entry, causes=["spelling_unguarded"], msg=f"{what}: operands incompatible ({impl['incompat']}) yet no error: {key(o)[1][:160]}"))
        sk = case["respect"].split(":")[1] if ":" in case["respect"] else None
        if sk is not None and ((nm == "numpy ufunc" and sk not in ("int", "float", "bool")) or (case["respect"].startswith("rscalar") and sk in NUMPY_LEFT)):
            continue            # NumPy's own dispatch (its scalar / array on the left, or converted by the ufunc machinery)
        if key(o)[0] != key(ref)[0] or (key(o)[0] != "err" and key(o) != key(ref)):
            vs.append(dict(clause="pointwise" if "err" not in ref else "rejects", entry=entry, causes=["spelling_differs"],
                           msg=f"{what}: {key(o)[0]} {key(o)[1][:140]} but `{ref_name}` gives {key(ref)[0]} {key(ref)[1][:140]}"))
    return vs


# --------------------------------------------------------------------------
# model
# --------------------------------------------------------------------------

def _zip_shapes_equal(a, b):
    return all([len(t) for t in x[1]] == [len(t) for t in y[1]] for x, y in zip(a["obs"], b["obs"]))


def model_lines(case, impl):
    k = case["kind"]
    if k == "bin":
        if case["b"]["k"] == "X":
            return []
        flag = _bylabel()
        if flag == 0 and case["a"]["k"] == "I" and case["b"]["k"] == "I" and impl.get("order_differs") and not _zip_shapes_equal(case["a"], case["b"]):
            return []  # the open defect in a regime where NumPy's broadcasting decides; judged by the oracle only
        return [" ".join(["bin", str(flag), case["op"]] + tok(case["a"]) + tok(case["b"]))]
    if k == "sc":
        if case["reflected"] and case["skind"] in NUMPY_LEFT - {"npfloat64"}:
            return []  # NumPy's dispatch, not FDApy's
        return [" ".join(["rsc" if case["reflected"] else "sc", case["op"], case["skind"], case["c"]] + tok(case["a"]))]
    if k == "eq":
        if case["b"]["k"] == "X" or case["a"]["k"] == "X":
            return []
        return [" ".join(["eq"] + tok(case["a"]) + tok(case["b"]))]
    if k == "share":
        # sharing an object is invisible to the model: plain `==` / list semantics on [b, a] with item a
        if case["mode"] == "eq":
            return [" ".join(["eq"] + tok(case["a"]) + tok(case["b"]))]
        req = {"in": "in", "index": "idx", "count": "cnt", "remove": "rem"}[case["mode"]]
        return [" ".join([req, "2"] + tok(case["b"]) + tok(case["a"]) + tok(case["a"]))]
    if k == "eqnf":
        # same grid, same shapes by construction: the verdict is the closeness of the two value arrays
        return ["xclose " + _flat_tokens(case["a"]) + " " + _flat_tokens(case["b"])]
    if k == "mvop":
        toks = ["mv" + case["mode"]]
        if case["mode"] == "mul":
            toks.append(str(case["k"]))
        toks.append(str(len(case["cs"])))
        for d in case["cs"]:
            toks += tok(d)
        if case["mode"] != "mul":
            toks.append(str(len(case["ds"])))
            for d in case["ds"]:
                toks += tok(d)
        return [" ".join(toks)]
    if k == "mv":
        toks = [{"in": "in", "remove": "rem", "count": "cnt", "index": "idx"}[case["mode"]], str(len(case["comps"]))]
        for d in case["comps"]:
            toks += tok(d)
        item = case["comps"][case["same"]] if case.get("same") is not None else case["item"]
        return [" ".join(toks + tok(item))]
    return []


def parse_model(case, outs):
    if case["kind"] in ("mvop", "eqnf", "share") or (case["kind"] == "mv" and case.get("mode") in ("count", "index")):
        return dict(raw=outs[0])
    return parse_answer(outs[0])


def _cmp_vals(fs, qs, where):
    if len(fs) != len(qs):
        return f"{where}: {len(fs)} values vs model {len(qs)}"
    for j, (f, m) in enumerate(zip(fs, qs)):
        if m is None:
            if math.isfinite(f):
                return f"{where}[{j}]: impl {f} is finite, model says not finite (zero divisor)"
        elif not common.close(f, m, scale=max(abs(m), Fraction(1, 1024)), rtol=1e-9):
            return f"{where}[{j}]: impl {f!r} vs model {rs(m)}"
    return None


def _cmp_grid(gf, gq, where):
    if [len(t) for t in gf] != [len(t) for t in gq]:
        return f"{where}: grid sizes {[len(t) for t in gf]} vs model {[len(t) for t in gq]}"
    for tf, tq in zip(gf, gq):
        for f, m in zip(tf, tq):
            if Fraction(f) != m:
                return f"{where}: grid point {f} vs model {rs(m)}"
    return None


def cmp_data(ri, rm, where="result"):
    """Implementation dataset (floats) against model dataset (exact, None = not finite)."""
    if ri["k"] != rm["k"]:
        return f"{where}: class {ri['k']} vs model {rm['k']}"
    if ri["k"] == "D":
        d = _cmp_grid(ri["grid"], rm["grid"], where)
        if d:
            return d
        if len(ri["rows"]) != len(rm["rows"]):
            return f"{where}: n_obs {len(ri['rows'])} vs model {len(rm['rows'])}"
        for k, (a, b) in enumerate(zip(ri["rows"], rm["rows"])):
            d = _cmp_vals(a, b, f"{where} row {k}")
            if d:
                return d
        return None
    li, lm = [o[0] for o in ri["obs"]], [o[0] for o in rm["obs"]]
    if li != lm:
        return f"{where}: labels {li} vs model {lm}"
    for oi, om in zip(ri["obs"], rm["obs"]):
        d = _cmp_grid(oi[1], om[1], f"{where} obs {oi[0]}") or _cmp_vals(oi[2], om[2], f"{where} obs {oi[0]}")
        if d:
            return d
    return None


def compare(case, impl, model):
    if "__crash__" in impl:
        return [f"implementation harness crashed: {impl['__crash__']} {impl.get('msg')} {impl.get('tb', '')[-300:]}"]
    if case["kind"] == "share":
        raw = model["raw"]
        if "err" in impl:
            return [f"shared {case['share']} ({case['via']}): {case['mode']} raised {impl['err']}, model {raw}"]
        if case["mode"] == "eq":
            got = "true" if impl["res"][0] else "false"
        elif case["mode"] == "in":
            got = str(impl["res"]).lower()
        elif case["mode"] in ("index", "count"):
            got = str(impl["res"])
        else:
            got = "ok 1" if impl["res"] == [0] else "other"
            raw = raw[:4]
        return [] if got == raw else [f"shared {case['share']} ({case['via']}): {case['mode']} gave {impl['res']}, model {raw}"]
    if case["kind"] == "eqnf":
        raw = model["raw"]
        if raw not in ("true", "false"):
            return [f"model answered {raw!r}"]
        if "err" in impl:
            return [f"non-finite values: {case['mode']} raised {impl['err']}, model {raw}"]
        return [] if str(impl["res"]).lower() == raw else [f"non-finite values: {case['mode']} gave {impl['res']}, model {raw}"]
    if case["kind"] == "mvop":
        raw = model["raw"]
        if raw.startswith("bad") or raw == "illformed":
            return [f"model answered {raw!r}"]
        got = ("error:" + impl["err"]) if "err" in impl else (("ok " + str(impl["n"])) if case["mode"] != "eq" else str(impl["res"]).lower())
        return [] if got == raw else [f"multivariate {case['mode']}: impl {got} vs model {raw}"]
    if "bad" in model:
        return [f"model answered {model['bad']!r}"]
    k = case["kind"]
    if k in ("bin", "sc"):
        if "err" in impl or "err" in model:
            if impl.get("err") != model.get("err"):
                return [f"outcome: impl {impl.get('err', 'result')} vs model {model.get('err', 'result')}"]
            return []
        d = cmp_data(impl["res"], model["res"]) if impl["res"]["k"] != "?" else f"result class {impl['res'].get('cls')}"
        return [d] if d else []
    if k == "eq":
        if "err" in impl:
            return [f"== raised {impl['err']}, model {model.get('res')}"]
        if impl.get("margin", True) and impl["res"] != model["res"]:
            return [f"== impl {impl['res']} vs model {model['res']}"]
        return []
    if k == "mv" and case["mode"] in ("count", "index"):
        raw = model.get("raw")
        got = ("error:" + impl["err"]) if "err" in impl else str(impl["res"])
        return [] if got == raw else [f"{case['mode']}: impl {got} vs model {raw}"]
    if k == "mv":
        if case["mode"] == "in":
            if "err" in impl or impl.get("res") != model.get("res"):
                return [f"in: impl {impl.get('err', impl.get('res'))} vs model {model.get('res')}"]
            return []
        if "err" in impl or "err" in model:
            if impl.get("err") != model.get("err"):
                return [f"remove: impl {impl.get('err', 'removed')} vs model {model.get('err', 'removed')}"]
            return []
        if len(impl["remaining"]) != len(model["res"]):
            return [f"remove: {len(impl['remaining'])} components left vs model {len(model['res'])}"]
        for j, (ri, rm) in enumerate(zip(impl["remaining"], model["res"])):
            d = cmp_data(ri, rm, f"remaining component {j}")
            if d:
                return [d]
        return []
    return []


# --------------------------------------------------------------------------
# oracle: the property's predicate on the implementation
# --------------------------------------------------------------------------

def oracle(case, impl):
    if "__crash__" in impl:
        return [dict(clause="runs", entry=case["kind"], causes=["harness_crash"],
                     msg=f"crash {impl['__crash__']}: {impl.get('msg')} {impl.get('tb', '')[-300:]}")]
    k = case["kind"]
    vs = []
    if k == "spell":
        return _spell_oracle(case, impl)
    if k == "share":
        entry = {"eq": "__eq__", "in": "__contains__", "index": "index", "count": "count", "remove": "remove"}[case["mode"]]
        what = f"b shares the {case['share']} object of a ({case['via']}, {case['tag']}) and differs in the {'grid' if case['share'] == 'values' else 'values'}"
        if not impl["shared"] or not impl["consistent"]:
            return []        # the tree copied the object / rejected the assignment: nothing shared to judge
        if "err" in impl:
            return [dict(clause="eq_total", entry=entry, causes=["raises_" + impl["err"]], msg=f"{what}: {case['mode']} raised {impl['err']}")]
        want = {"eq": [False, False], "in": True, "index": 1, "count": 1, "remove": [0]}[case["mode"]]
        if impl["plain"] is False and impl["res"] != want:
            vs.append(dict(clause="eq_spec" if case["mode"] == "eq" else "membership", entry=entry, causes=["shared_object_shortcut"],
                           msg=f"{what}: {case['mode']} on [b, a] / (a, b) gave {impl['res']}, expected {want}"))
        return vs
    if k == "eqnf":
        entry = {"eq": "__eq__", "in": "__contains__", "remove": "remove"}[case["mode"]]
        if "err" in impl:
            return [dict(clause="eq_total", entry=entry, causes=["raises_" + impl["err"]], msg=f"{case['mode']} on data with non-finite values raised {impl['err']}: {impl.get('msg')}")]
        if impl["res"] != impl["plain"]:
            vs.append(dict(clause="eq_spec" if case["mode"] == "eq" else "membership", entry=entry, causes=["nonfinite_wrong_verdict"],
                           msg=f"{case['mode']} gave {impl['res']} on values {_flat_tokens(case['a'])} vs {_flat_tokens(case['b'])}; NaN equals NaN only, an infinity equals the infinity of the same sign only: {impl['plain']}"))
        if case["mode"] == "eq" and impl.get("rtype") != "bool":
            vs.append(dict(clause="eq_total", entry=entry, causes=["not_bool"], msg=f"== returned a {impl.get('rtype')}"))
        return vs
    if k == "mvop":
        entry = {"add": "MultivariateFunctionalData.__add__", "mul": "MultivariateFunctionalData.__mul__", "eq": "MultivariateFunctionalData.__eq__"}[case["mode"]]
        if "err" not in impl:
            if impl.get("rtype") != ("bool" if case["mode"] == "eq" else "MultivariateFunctionalData"):
                vs.append(dict(clause="membership", entry=entry, causes=["result_type"], msg=f"result is a {impl.get('rtype')}"))
            if case["mode"] == "eq" and impl["res"] != impl["plain"]:
                vs.append(dict(clause="eq_spec", entry=entry, causes=["wrong_verdict"], msg=f"== returned {impl['res']}, component-wise comparison says {impl['plain']}"))
            if case["mode"] != "eq" and not impl["plain"]:
                vs.append(dict(clause="membership", entry=entry, causes=["not_plain_list"], msg="the components of the result are not those of a plain list concatenation / repetition"))
        elif case["mode"] == "eq":
            vs.append(dict(clause="eq_total", entry=entry, causes=["raises_" + impl["err"]], msg=f"== raised {impl['err']}"))
        return vs
    if k == "bin":
        entry = ENTRY[case["op"]]
        if case.get("respect") == "empty-irregular":
            return []
        inc = impl["incompat"]
        if not impl["untouched"]:
            vs.append(dict(clause="operands_untouched", entry=entry, causes=["operand_modified"], msg="an operand changed during the operation"))
        if inc is not None:
            if "err" not in impl:
                vs.append(dict(clause="rejects", entry=entry, causes=[inc + "_mismatch_accepted"],
                               msg=f"operands differ in {inc} but `{case['op']}` returned a {impl['res'].get('k')} dataset (broadcast) instead of raising"))
        else:
            # the open finding covers wrong *values* (or a NumPy refusal) when the value dictionaries are in
            # different orders — not a changed class, grid or label set
            order = ["value_dict_order"] if (impl.get("order_differs") and set(impl.get("bad") or []) <= {"not_pointwise"}) else []
            if "err" in impl:
                vs.append(dict(clause="pointwise", entry=entry, causes=order or ["compatible_rejected"],
                               msg=f"compatible operands were rejected with {impl['err']}: {impl.get('msg')}"))
            elif impl.get("bad"):
                vs.append(dict(clause="pointwise", entry=entry, causes=order or impl["bad"],
                               msg=f"`{case['op']}` on compatible operands{' with value dtypes ' + ' / '.join(case['dtypes']) if case.get('dtypes') else ''}: "
                                   f"{','.join(impl['bad'])} (result differs from plain NumPy on the raw arrays)"
                                   + (" (the two value dictionaries are in different insertion orders)" if order else "")))
    elif k == "sc":
        entry = "__rmul__" if (case["reflected"] and case["op"] == "mul") else ("reflected " if case["reflected"] else "") + ENTRY[case["op"]]
        kind = case["skind"]
        if not impl["untouched"]:
            vs.append(dict(clause="operands_untouched", entry=entry, causes=["operand_modified"], msg="the dataset changed during a scalar operation"))
        python_number = kind in ("int", "float", "bool", "npfloat64")
        foreign = kind in FOREIGN or kind == "other"
        judged = foreign and not (case["reflected"] and kind in NUMPY_LEFT)
        if judged and "err" not in impl:
            vs.append(dict(clause="scalar_kinds", entry=entry, causes=["non_number_accepted"],
                           msg=f"{'x ' + case['op'] + ' fd' if case['reflected'] else 'fd ' + case['op'] + ' x'} with x of kind {kind} was accepted (must be a TypeError, never a broadcast)"))
        elif judged and impl.get("err") != "TypeError":
            vs.append(dict(clause="scalar_kinds", entry=entry, causes=["wrong_class_" + str(impl.get("err"))],
                           msg=f"operand of kind {kind} rejected with {impl.get('err')} instead of TypeError"))
        if "err" in impl:
            if python_number and (not case["reflected"] or case["op"] == "mul"):
                vs.append(dict(clause="scalar_kinds", entry=entry, causes=["number_rejected"],
                               msg=f"{kind} scalar {case['c']} rejected with {impl['err']}: {impl.get('msg')}"))
        elif impl.get("bad") and kind not in ("str", "other", "array"):
            vs.append(dict(clause="pointwise", entry=entry, causes=impl["bad"],
                           msg=f"{'scalar ' + case['op'] + ' a' if case['reflected'] else 'a ' + case['op'] + ' scalar'} ({kind} {case['c']}): {','.join(impl['bad'])}"))
    elif k == "ident":
        if not impl["untouched"]:
            vs.append(dict(clause="operands_untouched", entry="identities", causes=["operand_modified"], msg="an operand changed"))
        for f in impl["fails"]:
            vs.append(dict(clause="identities", entry=f.split(":")[0], causes=["identity_fails"], msg=f))
    elif k == "eq":
        if not impl["both_grid"]:
            if "err" not in impl and impl.get("res") is True:
                vs.append(dict(clause="eq_spec", entry="__eq__", causes=["nondata_equal"], msg="a dataset compared equal to a non-dataset"))
            return vs
        if not impl["untouched"]:
            vs.append(dict(clause="operands_untouched", entry="__eq__", causes=["operand_modified"], msg="== changed an operand"))
        tag = case.get("tag", "")
        if "err" in impl:
            cause = "class_mismatch_raises" if case["a"]["k"] != case["b"]["k"] else "shape_mismatch_raises"
            vs.append(dict(clause="eq_total", entry="__eq__", causes=[cause], msg=f"== raised {impl['err']} ({impl.get('msg')}) on {tag}"))
        else:
            if impl["rtype"] != "bool":
                vs.append(dict(clause="eq_total", entry="__eq__", causes=["not_a_bool"], msg=f"== returned a {impl['rtype']}"))
            if impl["margin"] and impl["res"] != impl["plain"]:
                cause = "irregular_values_ignored" if (case["a"]["k"] == "I" and impl["res"] is True) else "wrong_verdict"
                vs.append(dict(clause="eq_spec", entry="__eq__", causes=[cause],
                               msg=f"== returned {impl['res']} but sampling points coincide and values are close is {impl['plain']} ({tag})"))
            if isinstance(impl.get("ne"), bool) and isinstance(impl.get("res"), bool) and impl["ne"] == impl["res"]:
                vs.append(dict(clause="eq_spec", entry="__ne__", causes=["ne_not_negation"], msg="!= is not the negation of =="))
    elif k == "mv" and case["mode"] in ("count", "index"):
        first, cnt = impl["plain_first"], impl["plain_count"]
        entry = case["mode"]
        if case["mode"] == "count":
            if "err" in impl or impl.get("res") != cnt:
                vs.append(dict(clause="membership", entry=entry, causes=["wrong_count"], msg=f"count gave {impl.get('err', impl.get('res'))}; {cnt} components equal the item ({case.get('tag')})"))
        else:
            want = first if first is not None else "ValueError"
            got = impl.get("err", impl.get("res"))
            if got != want:
                vs.append(dict(clause="membership", entry=entry, causes=["wrong_index"], msg=f"index gave {got}; a plain list gives {want} ({case.get('tag')})"))
        if not impl.get("unchanged", True):
            vs.append(dict(clause="membership", entry=entry, causes=["changed"], msg=f"{case['mode']} changed the object"))
    elif k == "mv":
        first = impl["plain_first"]
        if case["mode"] == "in":
            if "err" in impl:
                vs.append(dict(clause="membership", entry="__contains__", causes=["in_raises"], msg=f"`in` raised {impl['err']}: {impl.get('msg')} ({case.get('tag')})"))
            elif impl["res"] != (first is not None):
                vs.append(dict(clause="membership", entry="__contains__", causes=["wrong_verdict"],
                               msg=f"`in` returned {impl['res']}, a plain list with the plain predicate gives {first is not None} ({case.get('tag')})"))
        else:
            if "err" in impl:
                if first is not None or impl["err"] != "ValueError":
                    vs.append(dict(clause="membership", entry="remove", causes=["remove_raises" if first is not None else "wrong_class"],
                                   msg=f"remove raised {impl['err']}: {impl.get('msg')}; plain list: {'removes position ' + str(first) if first is not None else 'ValueError'} ({case.get('tag')})"))
                if not impl.get("unchanged", True):
                    vs.append(dict(clause="membership", entry="remove", causes=["changed_on_error"], msg="remove raised but the object changed"))
            elif first is None:
                vs.append(dict(clause="membership", entry="remove", causes=["absent_removed" if impl.get("removed", -1) >= 0 else "absent_silent"],
                               msg=f"the item is in no component's == class but remove did not raise (removed position {impl.get('removed')}) ({case.get('tag')})"))
            elif impl.get("removed") != first or impl.get("after_positions", None) not in (None, [p for p in range(impl["n"]) if p != first]):
                vs.append(dict(clause="membership", entry="remove", causes=["wrong_component"],
                               msg=f"remove left the components at positions {impl.get('after_positions')} of {impl['n']}; a plain list removes the first equal one ({first}) and keeps the rest in order ({case.get('tag')})"))
    return vs


def nontrivial(case, impl):
    if "__crash__" in impl:
        return None
    k = case["kind"]
    if k in ("bin", "sc"):
        if "err" in impl:
            return digest(case)
        r = impl.get("res", {})
        n = sum(len(x) for x in r.get("rows", [])) + sum(len(o[2]) for o in r.get("obs", []))
        return digest(case) if n >= 1 else None
    return digest(case)


def classify(case, impl):
    k = case["kind"]
    if "__crash__" in impl:
        return [k + ":crash"]
    tags = []
    if k == "bin":
        kinds = case["a"]["k"] + case["b"]["k"]
        dim = dim_of(case["a"]) if case["a"]["k"] != "X" else 0
        tags.append(f"bin:{case['op']}:{impl.get('err', 'ok')}")
        tags.append(f"bin:{kinds}{dim}d:{case.get('respect')}:{impl.get('err', 'ok')}")
        if case.get("derive"):
            tags.append(f"bin:derived:{case['derive']['base']}:{case.get('respect')}:{impl.get('err', 'ok')}")
        if "res" in impl:
            tags.append("bin:grid-object-shared" if impl.get("shared_grid") else "bin:grid-object-copied")
            r = impl["res"]
            vals = [v for row in r.get("rows", []) for v in row] + [v for o in r.get("obs", []) for v in o[2]]
            if any(not math.isfinite(v) for v in vals):
                tags.append("bin:nonfinite-entries")
    elif k == "sc":
        tags.append(f"sc:{'r' if case['reflected'] else ''}{case['op']}:{case['skind']}:{impl.get('err', 'ok')}")
        if F(case["c"]) == 0 and case["op"] in ("div", "floordiv") and not case["reflected"]:
            tags.append("sc:zero-divisor:" + impl.get("err", "ok"))
    elif k == "spell":
        tags += [f"spell:{case['name']}:{case['respect']}:{nm}:{'err' if 'err' in o else 'ok'}" for nm, o in impl["sp"].items()][:3]
    elif k == "ident":
        tags.append("ident:" + case["a"]["k"] + str(dim_of(case["a"])) + "d")
    elif k == "eq":
        tags.append(f"eq:{case['a']['k']}{case['b']['k']}:{case.get('tag')}:{impl.get('err', impl.get('res'))}")
        if impl.get("margin") is False:
            tags.append("eq:borderline-not-judged")
    elif k == "mv":
        tags.append(f"mv:{case['mode']}:{case.get('tag')}:{impl.get('err', impl.get('res', impl.get('removed')))}")
    return tags
