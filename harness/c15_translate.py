"""Translator for C15: the guards and the bookkeeping of `IrregularFunctionalData` that are pure logic
-> `lean/FDAModel/Generated/IrregularGuards.lean`.

Read off `FDApy/representation/functional_data.py` (class `IrregularFunctionalData`), syntactically, with no
arithmetic of its own (constants are only re-written as exact rationals, comparisons put in the form `c < x`):

* `standardize`: the `where=` guard of the guarded division (`std_obs > 1e-12`), with IEEE semantics for a NaN
  deviation (every comparison with NaN is False, `!=` is True), and the `out=` buffer
  (`np.where(np.isnan(values), np.nan, 0.0)`: NaN at a missing sample, 0 at an observed one);
* `mean`: the switch to the binned approximation `approx and len(fdata_long) > 2000`, and that the length is that of
  the pooled long table `self.to_long()`;
* `covariance`: the smoothing weights `weights = np.ones_like(cov); weights[cov == 0] = 0`, and that the mask is
  taken on the raw covariance itself.

`C15.guards_match_source` proves each of them equal to the model's `stdGuard`, `stdBuffer`, `approxSwitch`, `covWeight`.
A source whose shape is not recognised raises `Shape`: no alarm (see `translate()` in `harness/c15.py`).
"""
import ast
from fractions import Fraction


class Shape(ValueError):
    pass


def _q(c):
    if isinstance(c, bool) or not isinstance(c, (int, float)):
        raise Shape(f"constant {c!r} is not a number")
    f = Fraction(c) if isinstance(c, int) else Fraction(repr(c))
    return f"({f.numerator} : Rat)" if f.denominator == 1 else f"(({f.numerator} : Rat) / {f.denominator})"


def _const(e):
    if isinstance(e, ast.Constant) and not isinstance(e.value, bool) and isinstance(e.value, (int, float)):
        return e.value
    if isinstance(e, ast.UnaryOp) and isinstance(e.op, ast.USub) and isinstance(e.operand, ast.Constant):
        return -e.operand.value
    return None


def _method(tree, cls, name):
    c = next((n for n in tree.body if isinstance(n, ast.ClassDef) and n.name == cls), None)
    if c is None:
        raise Shape(f"class {cls} not found")
    f = next((n for n in c.body if isinstance(n, ast.FunctionDef) and n.name == name), None)
    if f is None:
        raise Shape(f"{cls}.{name} not found")
    return f


def _is_np(e, name):
    return (isinstance(e, ast.Call) and isinstance(e.func, ast.Attribute) and e.func.attr == name
            and isinstance(e.func.value, ast.Name) and e.func.value.id in ("np", "numpy"))


def _compare(e, var):
    """A comparison of `var` with a constant -> (lean proposition on `s`, value for NaN)."""
    if not (isinstance(e, ast.Compare) and len(e.ops) == 1):
        raise Shape(f"guard is not a single comparison: {ast.unparse(e)}")
    l, r, op = e.left, e.comparators[0], e.ops[0]
    flip = {ast.Gt: ast.Lt, ast.Lt: ast.Gt, ast.GtE: ast.LtE, ast.LtE: ast.GtE, ast.Eq: ast.Eq, ast.NotEq: ast.NotEq}
    if isinstance(r, ast.Name) and _const(l) is not None:
        l, r, op = r, l, flip[type(op)]()
    if not (isinstance(l, ast.Name) and (var is None or l.id == var) and _const(r) is not None):
        raise Shape(f"guard does not compare the deviation with a constant: {ast.unparse(e)}")
    c = _q(_const(r))
    prop = {ast.Gt: f"{c} < s", ast.GtE: f"{c} ≤ s", ast.Lt: f"s < {c}", ast.LtE: f"s ≤ {c}", ast.Eq: f"s = {c}",
            ast.NotEq: f"s ≠ {c}"}.get(type(op))
    if prop is None:
        raise Shape("comparison operator not recognised")
    return prop, ("true" if isinstance(op, ast.NotEq) else "false"), l.id


def _standardize(fn):
    calls = [n for n in ast.walk(fn) if _is_np(n, "divide")]
    if len(calls) != 1:
        raise Shape("standardize: not exactly one np.divide")
    kw = {k.arg: k.value for k in calls[0].keywords}
    if "where" not in kw or "out" not in kw or len(calls[0].args) != 2:
        raise Shape("standardize: np.divide without out=/where=")
    den = calls[0].args[1]
    prop, nanval, _ = _compare(kw["where"], den.id if isinstance(den, ast.Name) else None)
    out = kw["out"]
    if _is_np(out, "where") and len(out.args) == 3 and _is_np(out.args[0], "isnan") \
            and ast.unparse(out.args[0].args[0]) == ast.unparse(calls[0].args[0]):
        a, b = out.args[1], out.args[2]
        isnan_ = lambda x: isinstance(x, ast.Attribute) and x.attr == "nan"  # noqa: E731
        miss = "none" if isnan_(a) else (f"some {_q(_const(a))}" if _const(a) is not None else None)
        obs = "none" if isnan_(b) else (f"some {_q(_const(b))}" if _const(b) is not None else None)
        if miss is None or obs is None:
            raise Shape("standardize: out=np.where(...) with branches that are not constants")
        buf = f"  | none => {miss}\n  | some _ => {obs}"
    elif _is_np(out, "zeros_like") or _is_np(out, "zeros"):
        buf = "  | none => some (0 : Rat)\n  | some _ => some (0 : Rat)"
    elif _is_np(out, "full_like") and len(out.args) == 2 and isinstance(out.args[1], ast.Attribute) and out.args[1].attr == "nan":
        buf = "  | none => none\n  | some _ => none"
    else:
        raise Shape(f"standardize: out buffer not recognised: {ast.unparse(out)[:60]}")
    return prop, nanval, buf


def _mean(fn):
    pooled = {t.id for n in ast.walk(fn) if isinstance(n, ast.Assign) and ast.unparse(n.value) == "self.to_long()"
              for t in n.targets if isinstance(t, ast.Name)}
    for n in ast.walk(fn):
        if isinstance(n, ast.If) and isinstance(n.test, ast.BoolOp) and isinstance(n.test.op, ast.And) and len(n.test.values) == 2:
            a, c = n.test.values
            if isinstance(c, ast.Name):
                a, c = c, a
            if not (isinstance(a, ast.Name) and a.id == "approx" and isinstance(c, ast.Compare) and len(c.ops) == 1):
                continue
            l, r, op = c.left, c.comparators[0], c.ops[0]
            if _const(l) is not None:
                l, r, op = r, l, {ast.Lt: ast.Gt, ast.LtE: ast.GtE, ast.Gt: ast.Lt, ast.GtE: ast.LtE}.get(type(op), type(op))()
            if not (isinstance(l, ast.Call) and isinstance(l.func, ast.Name) and l.func.id == "len" and len(l.args) == 1
                    and isinstance(l.args[0], ast.Name) and isinstance(_const(r), int)):
                raise Shape(f"mean: switch not of the form len(<table>) > <int>: {ast.unparse(c)}")
            k = _const(r)
            prop = {ast.Gt: f"{k} < n", ast.GtE: f"{k} ≤ n", ast.Lt: f"n < {k}", ast.LtE: f"n ≤ {k}"}.get(type(op))
            if prop is None:
                raise Shape("mean: comparison operator not recognised")
            return prop, (l.args[0].id in pooled)
    raise Shape("mean: no `approx and len(...) > ...` switch")


def _covariance(fn):
    ones = None
    for n in ast.walk(fn):
        if isinstance(n, ast.Assign) and _is_np(n.value, "ones_like") and len(n.targets) == 1 and isinstance(n.targets[0], ast.Name) \
                and len(n.value.args) == 1 and isinstance(n.value.args[0], ast.Name):
            ones = (n.targets[0].id, n.value.args[0].id)
    if ones is None:
        raise Shape("covariance: no `weights = np.ones_like(<cov>)`")
    for n in ast.walk(fn):
        if isinstance(n, ast.Assign) and len(n.targets) == 1 and isinstance(n.targets[0], ast.Subscript) \
                and isinstance(n.targets[0].value, ast.Name) and n.targets[0].value.id == ones[0]:
            m = n.targets[0].slice
            v = _const(n.value)
            if not (isinstance(m, ast.Compare) and len(m.ops) == 1 and isinstance(m.ops[0], ast.Eq) and v is not None
                    and _const(m.comparators[0]) is not None):
                raise Shape(f"covariance: weights mask not `<array> == <const>`: {ast.unparse(n)}")
            on_cov = isinstance(m.left, ast.Name) and m.left.id == ones[1]
            return _q(_const(m.comparators[0])), _q(v), on_cov
    raise Shape("covariance: no masked assignment to the weights")


def lean_source(path):
    tree = ast.parse(open(path).read())
    prop, nanval, buf = _standardize(_method(tree, "IrregularFunctionalData", "standardize"))
    sw, pooled = _mean(_method(tree, "IrregularFunctionalData", "mean"))
    k, v, on_cov = _covariance(_method(tree, "IrregularFunctionalData", "covariance"))
    b = lambda x: "true" if x else "false"  # noqa: E731
    return f"""/-
GENERATED by harness/c15_translate.py from FDApy/representation/functional_data.py (class IrregularFunctionalData:
`standardize`, `mean`, `covariance`).  Do not edit: regenerated on every run of `./check C15`.
`C15.guards_match_source` proves these equal to the model's `stdGuard`, `stdBuffer`, `approxSwitch`, `covWeight`.
-/
namespace FDA.Generated.IrregularGuards

/-- `where=` guard of the guarded division of `standardize`; `none` = a NaN deviation. -/
def stdGuardSrc : Option Rat → Bool
  | none => {nanval}
  | some s => decide ({prop})

/-- `out=` buffer of that division, by the sample it belongs to (`none` = missing). -/
def stdBufferSrc : Option Rat → Option Rat
{buf}

/-- the switch of `mean` to the binned approximation, `n` = length of the table tested. -/
def approxSwitchSrc (approx : Bool) (n : Nat) : Bool := approx && decide ({sw})

/-- the table whose length is tested is the pooled long table `self.to_long()`. -/
def approxCountsPooledSamples : Bool := {b(pooled)}

/-- smoothing weight of a raw covariance entry `c` (`np.ones_like`, then the masked assignment). -/
def covWeightSrc (c : Rat) : Rat := if c = {k} then {v} else 1

/-- the mask of that assignment is taken on the raw covariance itself. -/
def covWeightMaskOnCov : Bool := {b(on_cov)}

end FDA.Generated.IrregularGuards
"""


if __name__ == "__main__":
    import sys
    print(lean_source(sys.argv[1]))
