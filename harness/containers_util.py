"""Shared by C11 / C13 (builder: containers): realise abstract descriptors as real FDApy
objects and read real objects back into the canonical strings the Lean driver prints.

Token grammar (identical to `lean/Drivers/C11.lean`):
  arg  := da natvec nat | ia n (int natvec nat)^n | oa | ba
  val  := dv natvec natvec | iv n (int natvec nat)^n | ov | bv
  recipe := D arg val | I arg val        srecipe := U recipe | M n recipe^n

Realisation (injective, so that `==` on the real objects is equality of descriptors):
  grid with m points and tag g :  t_j = j + g/8 (+ g/16 for interior points)   (g in 0..7, m >= 1)
  values of an observation with tag r and shape S :  (r+1) * (1, 2, …, prod S) reshaped to S
"""
from __future__ import annotations

import warnings

import numpy as np


def _fd():
    from FDApy.representation import argvals, functional_data, values

    return argvals, values, functional_data


def natvec(tok):
    return [] if tok == "-" else [int(x) for x in tok.split(",")]


def intvec(tok):
    return natvec(tok)


def nv(xs):
    xs = list(xs)
    return "-" if not xs else ",".join(str(int(x)) for x in xs)


DIM_NAMES = {1: lambda d, D: f"input_dim_{D - 1 - d}", 2: lambda d, D: ["time", "depth", "z", "a"][d % 4]}


def dim_name(d, D, g):
    """Name of dimension d of D for the tag g: (g // 24) % 3 = 0 `input_dim_d`; 1 the same names inserted in REVERSE
    (non-sorted) order; 2 arbitrary names ('time', 'depth', 'z')."""
    naming = (g // 24) % 3
    return f"input_dim_{d}" if naming == 0 or D < 2 else DIM_NAMES[naming](d, D)


def _scaled(u, g):
    """Coordinate scale / offset of the tag: g // 72 = 0 around the origin; 1 hourly Unix time stamps (1.7e9 + 3600 u);
    2 years (2020 + u / 500); 3 tiny units (1e-9 u)."""
    sc = g // 72
    if sc == 1:
        return 1.7e9 + 3600.0 * u
    if sc == 2:
        return 2020.0 + u / 500.0
    if sc == 3:
        return 1e-9 * u
    return u


def grid(m, g):
    """m points tagged g.  g % 8 = which translate of 0..m-1 (interior points moved a little further, so that
    the *normalised* grid depends on it too: a stale `argvals_stand` is visible); (g // 8) % 3 = style:
    0 strictly increasing, 1 with a REPEATED point (m >= 3), 2 UNSORTED (first and last swapped, m >= 2);
    g // 72 = coordinate scale / offset (see `_scaled`)."""
    base, style = g % 8, (g // 8) % 3
    t = np.arange(m, dtype=float) + base / 8.0 + ((g // 24) % 3) / 64.0      # the naming style moves the grid a little too
    t[1:-1] += base / 16.0
    if style == 1 and m >= 3:
        t[2] = t[1]
    elif style == 2 and m >= 2:
        t[0], t[-1] = t[-1], t[0]
    return _scaled(t, g)


def style_ok(pts, g):
    """Can the style of tag g be realised (and read back) on grids with these numbers of points?"""
    style = (g // 8) % 3
    return style == 0 or (style == 1 and all(m >= 3 for m in pts) and len(pts) > 0) or (style == 2 and all(m >= 2 for m in pts) and len(pts) > 0)


def obs_values(shape, r):
    n = int(np.prod(shape)) if len(shape) else 1
    return ((r + 1.0) * np.arange(1, n + 1, dtype=float)).reshape(tuple(shape))


class Tokens:
    def __init__(self, toks):
        self.t = list(toks)
        self.i = 0

    def next(self):
        x = self.t[self.i]
        self.i += 1
        return x

    def done(self):
        return self.i >= len(self.t)


class Build:
    """A value to be built lazily (building may raise, as in the Python expression)."""

    def __init__(self, fn):
        self.fn = fn

    def __call__(self):
        return self.fn()


N_BAD_ARG = 10
N_BAD_VAL = 7


def bad_argvals(n):
    """The n-th way of building sampling points with a key / value of the wrong class: every one must
    raise TypeError (typed dictionaries) — also when the wrong value is itself an Argvals / a Values."""
    A, V, FD = _fd()
    da = lambda: A.DenseArgvals({"input_dim_0": grid(3, 0)})  # noqa: E731
    n %= N_BAD_ARG
    if n == 0:
        return A.DenseArgvals({0: grid(3, 0)})
    if n == 1:
        return A.DenseArgvals({"input_dim_0": [0.0, 1.0, 2.0]})
    if n == 2:
        return A.IrregularArgvals({"a": da()})
    if n == 3:
        return A.IrregularArgvals({0: grid(3, 0)})
    if n == 4:
        return A.IrregularArgvals({0: A.IrregularArgvals({0: da()})})
    if n == 5:
        return A.DenseArgvals({"input_dim_0": da()})
    if n == 6:
        return A.IrregularArgvals({0: V.DenseValues(np.ones((2, 3)))})
    if n == 7:
        return A.IrregularArgvals({0: {"input_dim_0": grid(3, 0)}})
    if n == 8:
        return A.IrregularArgvals({0: None})
    return A.IrregularArgvals({1.5: da()})


def bad_values(n):
    A, V, FD = _fd()
    n %= N_BAD_VAL
    if n == 0:
        return V.IrregularValues({"a": np.ones(3)})
    if n == 1:
        return V.IrregularValues({0: [1.0, 2.0, 3.0]})
    if n == 2:
        return V.IrregularValues({0: V.IrregularValues({0: np.ones(3)})})
    if n == 3:
        return V.IrregularValues({0: A.DenseArgvals({"input_dim_0": grid(3, 0)})})
    if n == 4:
        return V.IrregularValues({0: None})
    if n == 5:
        return V.IrregularValues({0.5: np.ones(3)})
    return V.IrregularValues({0: 3.0})


N_BAD_ITEM = 8


def bad_item_assign(obj, target, n, ior=False):
    """`obj.argvals[k] = w` / `obj.values[k] = w` (or, with `ior`, `d = obj.argvals; d |= {k: w}`) with a key
    or value of the wrong class (n-th variant).
    Returns False when the target is not a typed dictionary (values of a dense object)."""
    A, V, FD = _fd()
    da = lambda: A.DenseArgvals({"input_dim_0": grid(3, 0)})  # noqa: E731
    n %= N_BAD_ITEM
    if isinstance(obj, FD.DenseFunctionalData):
        if target == "v":
            return False
        k0 = next(iter(obj.argvals.keys()), "input_dim_0")
        key, val = [(k0, da()), (k0, [0.0, 1.0]), (0, grid(3, 0)), (k0, A.IrregularArgvals({0: da()})), (k0, None),
                    (k0, {"x": grid(2, 0)}), (1.5, grid(3, 0)), (k0, 2.0)][n]
        _assign(obj.argvals, key, val, ior)
        return True
    if target == "a":
        k0 = next(iter(obj.argvals.keys()), 0)
        key, val = [(k0, A.IrregularArgvals({0: da()})), (k0, grid(3, 0)), (k0, {"input_dim_0": grid(3, 0)}), ("a", da()),
                    (k0, V.DenseValues(np.ones((2, 3)))), (k0, None), (k0, V.IrregularValues({0: np.ones(3)})), (0.5, da())][n]
        _assign(obj.argvals, key, val, ior)
        return True
    k0 = next(iter(obj.values.keys()), 0)
    key, val = [(k0, [1.0, 2.0]), (k0, V.IrregularValues({0: np.ones(3)})), ("a", np.ones(3)), (k0, da()), (k0, None),
                (0.5, np.ones(3)), (k0, 3.0), (k0, A.IrregularArgvals({0: da()}))][n]
    _assign(obj.values, key, val, ior)
    return True


def _assign(d, key, val, ior):
    if ior:
        d |= {key: val}
    else:
        d[key] = val


_BAD_ARG = 0


def parse_arg(tk: Tokens):
    A, V, FD = _fd()
    k = tk.next()
    if k == "da":
        pts, g = natvec(tk.next()), int(tk.next())
        return lambda: A.DenseArgvals({dim_name(d, len(pts), g): grid(m, g) for d, m in enumerate(pts)})
    if k == "ia":
        n = int(tk.next())
        obs = []
        for _ in range(n):
            obs.append((int(tk.next()), natvec(tk.next()), int(tk.next())))
        return lambda: A.IrregularArgvals(
            {l: A.DenseArgvals({f"input_dim_{d}": grid(m, g) for d, m in enumerate(pts)}) for l, pts, g in obs}
        )
    if k == "oa":
        return lambda: {"input_dim_0": grid(3, 0)}
    if k.startswith("ba"):
        n = int(k[2:] or 0)
        return lambda: bad_argvals(n)
    raise ValueError("bad arg token " + k)


def parse_val(tk: Tokens):
    A, V, FD = _fd()
    k = tk.next()
    if k == "dv":
        rows, pts = natvec(tk.next()), natvec(tk.next())
        def mk():
            if rows:
                return V.DenseValues(np.stack([obs_values(pts, r) for r in rows]))
            return V.DenseValues(np.zeros((0, *pts)))
        return mk
    if k == "iv":
        n = int(tk.next())
        obs = []
        for _ in range(n):
            obs.append((int(tk.next()), natvec(tk.next()), int(tk.next())))
        return lambda: V.IrregularValues({l: obs_values(sh, r) for l, sh, r in obs})
    if k == "ov":
        return lambda: np.ones((2, 3))
    if k.startswith("bv"):
        n = int(k[2:] or 0)
        return lambda: bad_values(n)
    raise ValueError("bad val token " + k)


def parse_recipe(tk: Tokens):
    A, V, FD = _fd()
    k = tk.next()
    a, v = parse_arg(tk), parse_val(tk)
    if k == "D":
        return lambda: FD.DenseFunctionalData(a(), v())
    if k == "I":
        return lambda: FD.IrregularFunctionalData(a(), v())
    raise ValueError("bad recipe token " + k)


def parse_counted(tk: Tokens, p):
    n = int(tk.next())
    return [p(tk) for _ in range(n)]


def parse_srecipe(tk: Tokens):
    A, V, FD = _fd()
    k = tk.next()
    if k == "U":
        return parse_recipe(tk)
    if k == "M":
        rs = parse_counted(tk, parse_recipe)
        return lambda: FD.MultivariateFunctionalData([r() for r in rs])
    raise ValueError("bad srecipe token " + k)


# --------------------------------------------------------------------------
# reading a real object back
# --------------------------------------------------------------------------

def shp(s):
    s = list(s)
    return "-" if not s else ".".join(str(int(x)) for x in s)


def _join(sep, xs):
    xs = list(xs)
    return "-" if not xs else sep.join(xs)


def _unscale(t):
    lo = float(np.min(t))
    if lo >= 1e9:
        return (t - 1.7e9) / 3600.0, 1
    if 2000.0 < lo < 3000.0:
        return (t - 2020.0) * 500.0, 2
    if 0 <= lo and float(np.max(t)) < 1e-6 and float(np.max(t)) > 0:
        return t / 1e-9, 3
    return t, 0


def _gtag(dense_argvals):
    keys = list(dense_argvals.keys())
    D = len(keys)
    naming = 0
    if D >= 2:
        if keys == [DIM_NAMES[1](d, D) for d in range(D)]:
            naming = 1
        elif keys == [DIM_NAMES[2](d, D) for d in range(D)]:
            naming = 2
    for t in dense_argvals.values():
        t = np.asarray(t, dtype=float)
        if len(t):
            u, sc = _unscale(t)
            base = int(round(float(np.min(u)) * 8))
            style = 0
            if len(t) >= 3 and np.any(np.diff(t) == 0):
                style = 1
            elif len(t) >= 2 and t[0] > t[-1]:
                style = 2
            return base + 8 * style + 24 * naming + 72 * sc
    return 24 * naming


def _rtag(arr):
    a = np.asarray(arr)
    if a.size == 0:
        return 0
    return int(round(float(a.flat[0]) - 1))


def dense_pts(da):
    return [len(t) for t in da.values()]


def show_stand(st):
    A, V, FD = _fd()
    if isinstance(st, A.DenseArgvals):
        return "D" + shp(dense_pts(st))
    if isinstance(st, A.IrregularArgvals):
        return "I" + _join(",", (f"{l}/{shp(dense_pts(d))}" for l, d in st.items()))
    return "?" + type(st).__name__


def show_grid(x):
    A, V, FD = _fd()
    if isinstance(x, FD.DenseFunctionalData):
        a, v = x.argvals, x.values
        rows = [_rtag(v[i]) for i in range(v.shape[0])]
        return f"D:a={shp(dense_pts(a))}@{_gtag(a)}:v={shp(rows)}x{shp(v.shape[1:])}:s={show_stand(x.argvals_stand)}"
    if isinstance(x, FD.IrregularFunctionalData):
        a, v = x.argvals, x.values
        sa = _join(",", (f"{l}/{shp(dense_pts(d))}@{_gtag(d)}" for l, d in a.items()))
        sv = _join(",", (f"{l}/{shp(np.shape(arr))}#{_rtag(arr)}" for l, arr in v.items()))
        return f"I:a={sa}:v={sv}:s={show_stand(x.argvals_stand)}"
    return "?" + type(x).__name__


def show_state(x):
    try:
        return _show_state(x)
    except Exception as e:  # noqa: BLE001  (a corrupted object: wrong-class items inside the dictionaries)
        return "?corrupt:" + type(e).__name__


def _show_state(x):
    A, V, FD = _fd()
    if x is None:
        return "E"
    if isinstance(x, FD.MultivariateFunctionalData):
        return "M[" + ";".join(show_grid(c) for c in x.data) + "]"
    return show_grid(x)


def _try(f):
    try:
        return f()
    except StopIteration:
        return "err"
    except Exception as e:  # noqa: BLE001
        return "err"


def show_npoints(np_):
    if isinstance(np_, dict):
        return "I" + _join(",", (f"{l}/{shp(p)}" for l, p in np_.items()))
    return "D" + shp(np_)


def show_observers(x):
    """`nobs= ndim= nfun= npts=` as the real object reports them (the model's `inv=` part is not included)."""
    A, V, FD = _fd()
    if x is None:
        return "nobs=- ndim=- nfun=- npts=-"
    if isinstance(x, FD.MultivariateFunctionalData):
        nobs = _try(lambda: str(x.n_obs))
        ndim = []
        for c in x.data:
            ndim.append(_try(lambda c=c: str(c.n_dimension)))
        npts = _try(lambda: _join(";", (show_npoints(p) for p in x.n_points)))
        return f"nobs={nobs} ndim={_join(',', ndim)} nfun={x.n_functional} npts={npts}"
    nobs = _try(lambda: str(x.n_obs))
    ndim = _try(lambda: str(x.n_dimension))
    npts = _try(lambda: show_npoints(x.n_points))
    return f"nobs={nobs} ndim={ndim} nfun=- npts={npts}"


def quiet():
    warnings.simplefilter("ignore")
    np.seterr(all="ignore")
