"""C18 — basis families have their defining analytic properties."""
from fractions import Fraction
import math

import numpy as np

from common import F, Rng, close, err_class, fl, mat, pmat, pvec, rs, vec, digest

PROP = "C18"
MODULES = ["FDAProofs.Props.C18"]
DRIVER = "Drivers/C18.lean"
PARALLEL = True
RULE = (
    "seeded structured cases: _basis_bsplines for degree 1..5, n_functions degree+1..40 on sorted non-uniform grids "
    "that contain both domain end points, exact knots and points outside the domain (explicit and default domains, "
    "dyadic and non-dyadic knot spacing); _simulate_basis for every family with/without intercept and normalisation; "
    "orthogonality cases on Gauss-Legendre nodes (Legendre) and uniform full-period grids (Fourier, Wiener); Basis(...) in "
    "1-D, all 16 2-D family combinations and 3-D bases (mixed families, different tiny sizes per dimension; also as components of MultivariateBasis) with different sizes per dimension, and isotropic 2-D bases (same family and size, grids of equal "
    "length but different values); boundary sizes n_functions in {degree-1, degree, degree+1} with/without intercept, degree passed or "
    "defaulted; MultivariateBasis; rejected configurations. "
    "A case is non-trivial when the grid has >= 3 points; distinct by content hash"
)
PARTIAL = [
    "Fourier / Wiener: orthonormality is proved over the reals for the continuous integral (C18.fourier_orthonormal, "
    "C18.wiener_orthonormal) AND for the trapezoid rule on uniform grids, where it is exact — no quadrature error — for "
    "frequencies below the grid size (C18.fourier_discrete_orthonormal, C18.wiener_discrete_orthonormal); on non-uniform grids "
    "the quadrature error is not bounded by a theorem. The values are compared with a Float evaluation of the same formulas "
    "(tolerance 1e-12·(1+|argument|)); the link Float formula <-> real formula is by inspection",
    "Legendre orthogonality is proved for degrees < 16 (exact polynomial integral, tied to the Riemann integral over the "
    "reals); all degrees would need Rodrigues' formula or the Sturm-Liouville argument for the recurrence-defined model, not "
    "done; scipy.special.eval_legendre is taken as Bonnet's recursion",
    "scipy.integrate.simpson is a parameter: normalisation is proved for every weight-based quadrature and the "
    "captured squared norms are fed to the model",
    "IEEE rounding of the truncated-power construction is not modelled: tolerance 64·eps·(1+p·max|domain|/h)·max(1,Σ|terms|)",
]
TRUSTED_EXTRA = [
    "harness/c18_translate.py: syntactic map of the closed formulas of FDApy/misc/basis.py (_basis_wiener, _basis_fourier, "
    "_basis_legendre loop ranges / row indices / right-hand sides; the scalar expressions of _basis_bsplines) onto Lean terms over "
    "R, Q, N (np.sqrt, np.sin, np.cos, np.pi, np.min -> a, np.ptp -> L, //, %, np.power); no arithmetic, no simplification",
]
EPS = 2.0 ** -52
FAMILIES = ["bsplines", "legendre", "fourier", "wiener"]


import os as _os

import common as _common
import c18_translate as _translator

GEN_FILE = _os.path.join(_common.LEAN_DIR, "FDAModel", "Generated", "BasisFormulas.lean")
TRANSLATOR_NOTE = None


def translate():
    """Regenerate Generated/BasisFormulas.lean from what the source says now.  A source whose shape the translator does not recognise
    (a refactor) is NOT an alarm: the reference translation stored beside the translator is used (not what an earlier run left in
    Generated/), a note is printed and the evidence says that for this run these formulas are tied to the source by the
    correspondence only.  Only a successful translation can break the `*_src_eq_model` obligations."""
    global TRANSLATOR_NOTE
    path = _os.path.join(_common.REPO, *('FDApy', 'misc', 'basis.py'))
    here = _os.path.dirname(_os.path.abspath(__file__))
    try:
        src = _translator.lean_source(path)
        TRANSLATOR_NOTE = ("translator: formulas regenerated from the source and re-proved equal to the model (C18.wiener_src_eq_model, C18.fourier_src_eq_model, C18.legendre_src_eq_model, C18.bspline_scalars_src_eq_model, C18.tpower_src_eq_model)")
    except OSError as e:
        raise _common.InfraError(f"translator: cannot read {path}: {e}")
    except (ValueError, SyntaxError, IndexError, AttributeError, KeyError, TypeError, StopIteration) as e:
        TRANSLATOR_NOTE = f"translator: shape of the source not recognised, tie rests on the correspondence only ({e})"
        print("note:", TRANSLATOR_NOTE)
        src = open(_os.path.join(here, "c18_basisformulas_reference.lean")).read()
    if not _os.path.exists(GEN_FILE) or open(GEN_FILE).read() != src:
        with open(GEN_FILE, "w") as fh:
            fh.write(src)


# --------------------------------------------------------------------------
# generation
# --------------------------------------------------------------------------

def _bs_grid(rng: Rng, dmin, dmax, nseg, p, m, neighbours=True):
    """Sorted grid with both end points, some exact knots (when representable as floats),
    random interior points and optionally points outside the domain."""
    h = (dmax - dmin) / nseg
    pts = {dmin, dmax}
    for _ in range(min(nseg + 1, max(2, m // 3))):
        k = rng.randint(0, nseg)
        q = dmin + k * h
        if Fraction(float(q)) == q:
            pts.add(q)
        else:  # the floats next to a non-representable knot
            f = float(q)
            pts.add(Fraction(f))
            if neighbours:
                pts.add(Fraction(np.nextafter(f, np.inf if rng.random() < 0.5 else -np.inf)))
    while len(pts) < m:
        bits = rng.choice([3, 6, 10, 20])
        u = Fraction(rng.randint(0, 2 ** bits), 2 ** bits)
        pts.add(dmin + u * (dmax - dmin) if Fraction(float(dmin + u * (dmax - dmin))) == dmin + u * (dmax - dmin)
                else Fraction(float(dmin + u * (dmax - dmin))))
    out = rng.random() < 0.25
    if out:
        pts.add(Fraction(float(dmin - h * rng.choice([Fraction(1, 2), 1, 3, p + 2]))))
        pts.add(Fraction(float(dmax + h * rng.choice([Fraction(1, 4), 1, 2, p + 2]))))
    pts = sorted(p_ for p_ in pts if dmin <= p_ <= dmax or out)
    return pts


def _domain(rng: Rng):
    dmin = rng.choice([Fraction(0), Fraction(0), Fraction(-1), Fraction(1), Fraction(-7, 2), Fraction(100), Fraction(1, 8), rng.dyadic(-50, 50, 3)])
    width = rng.choice([Fraction(1), Fraction(1), Fraction(2), Fraction(1, 4), Fraction(364), Fraction(10), Fraction(3, 8), rng.dyadic(1, 30, 2)])
    if width <= 0:
        width = Fraction(1)
    return dmin, dmin + width


def _bs_cfg(rng: Rng, big):
    p = rng.randint(1, 5)
    nmax = 40 if big else 24
    nfun = rng.choice([p + 1, p + 2, rng.randint(p + 1, nmax), rng.randint(p + 1, nmax), rng.randint(p + 1, min(nmax, p + 9))])
    return p, nfun


def _std_grid(rng: Rng, fam, m):
    if fam == "legendre":
        return rng.grid(m, lo=-1, scale=2)
    if fam == "wiener":
        return rng.grid(m, lo=0, scale=1)
    lo = rng.choice([0, 0, -1, 1, Fraction(-7, 2), 100])
    scale = rng.choice([1, 1, 2, Fraction(1, 8), 364, 10])
    return rng.grid(m, lo=lo, scale=scale)


EXHAUSTIVE = dict(quick=False, thorough=True)


LABEL_SETS = [None, None, ("t", "s", "r"), ("z", "a", "m"), ("input_dim_1", "input_dim_0", "input_dim_2"), ("x2", "x1", "x0"), ("b", "c", "a")]


def _labels(case, k):
    """Dimension labels of the sampling points: the default `input_dim_i`, or labels whose alphabetical order is not
    the insertion order (the order of the dimensions is the insertion order, never the sorted one)."""
    ls = case.get("labels")
    return [f"input_dim_{i}" for i in range(k)] if not ls else list(ls)[:k]


def _basis3_case(rng: Rng):
    """Basis with THREE input dimensions: mixed families, tiny and different sizes / grid lengths per dimension."""
    add = rng.random() < 0.6
    p = rng.choice([1, 1, 2])
    fams = [rng.choice(FAMILIES) for _ in range(3)]
    ns = rng.sample([1, 2, 3], 3) if rng.random() < 0.6 else [rng.randint(1, 3) for _ in range(3)]
    ns = [max(n, p + (1 if add else 0)) if f == "bsplines" else n for f, n in zip(fams, ns)]
    ms = rng.sample([2, 3, 4, 5], 3)
    xs = [_std_grid(rng, f, m) for f, m in zip(fams, ms)]
    c = dict(kind="basis3", fam=fams, n=ns, p=p, add=add, norm=rng.random() < 0.25, x3=[[rs(v) for v in x] for x in xs],
             labels=rng.choice(LABEL_SETS))
    if "bsplines" in fams and rng.random() < 0.4:
        bsx = [v for f, x in zip(fams, xs) if f == "bsplines" for v in x]
        c.update(dmin=rs(min(bsx) - rng.choice([0, Fraction(1, 2)])), dmax=rs(max(bsx) + rng.choice([0, 1])))
    return c


def _multi_case(rng: Rng):
    """Wrapper chain MultivariateBasis -> Basis -> _simulate_basis -> family: components of different dimension
    (1-D string names and 2-D tuple names), every option non-default some of the time."""
    N = rng.choice([4, 4, 6, 6, 8, 9])
    splits = {4: [(2, 2)], 6: [(2, 3), (3, 2)], 8: [(2, 4), (4, 2)], 9: [(3, 3)]}[N]
    splits3 = {4: [(2, 2, 1), (1, 2, 2), (2, 1, 2)], 6: [(1, 2, 3), (3, 1, 2), (2, 3, 1)], 8: [(2, 2, 2), (2, 4, 1)], 9: [(3, 3, 1), (1, 3, 3)]}[N]
    comps = []
    for _ in range(rng.choice([2, 2, 3])):
        u = rng.random()
        if u < 0.25:  # a component with three input dimensions
            n = list(rng.choice(splits3))
            fams = [rng.choice(FAMILIES + ["bsplines"]) if k > 1 else rng.choice(["legendre", "fourier", "wiener"]) for k in n]
        elif u < 0.7:
            n = list(rng.choice(splits))
            fams = [rng.choice(FAMILIES + ["bsplines"]) for _ in n]
        else:
            n = [N]
            fams = [rng.choice(FAMILIES + ["bsplines"])]
        comps.append(dict(fam=fams, n=n))
    if not any(len(c["n"]) == 2 and "bsplines" in c["fam"] for c in comps):
        comps[0] = dict(fam=["bsplines", rng.choice(FAMILIES)] if rng.random() < 0.5 else [rng.choice(FAMILIES), "bsplines"], n=list(rng.choice(splits)))
    add = rng.random() < 0.6
    nmin = min(n + (0 if add else 1) for c in comps for f, n in zip(c["fam"], c["n"]) if f == "bsplines")
    p = rng.choice([q for q in (1, 1, 2, 2, 3, 4, None) if (q or 3) < nmin] or [1])
    for c in comps:
        c["x"] = [[rs(v) for v in _std_grid(rng, f, rng.randint(3, 6) if len(c["fam"]) < 3 else rng.randint(2, 4))] for f in c["fam"]]
    bsx = [F(v) for c in comps for f, x in zip(c["fam"], c["x"]) if f == "bsplines" for v in x]
    case = dict(kind="multi", comps=comps, p=p, add=add, norm=rng.random() < 0.4, labels=rng.choice(LABEL_SETS))
    if rng.random() < 0.5:  # explicit domain, wider than every B-spline grid
        case["dmin"] = rs(min(bsx) - rng.choice([0, Fraction(1, 2), 1]))
        case["dmax"] = rs(max(bsx) + rng.choice([0, Fraction(1, 4), 2]))
    return case


def gen_cases(rng: Rng, tier):
    n = dict(quick=330, thorough=4400)[tier]
    big = tier == "thorough"
    # large, high-degree bases on a grid covering the domain: beyond its end knot every function must be EXACTLY zero (the residue of the
    # truncated-power construction there grows like eps·((x − knot)/dx)^degree)
    for p_, nf_ in ((5, 40), (5, 20), (5, 15), (4, 30), (4, 21), (3, 40)):
        g_ = [Fraction(i, 32) for i in range(33)]
        yield dict(kind="bs", p=p_, nfun=nf_, dmin="0", dmax="1", x=[rs(v) for v in g_], default_dom=(nf_ % 2 == 0), structured=True)
    # scale of the domain: B-splines on domains of tiny absolute length (2^-20 ~ 1e-6, 2^-30 ~ 1e-9, [2e-7, 5e-7]) and on unit-length
    # domains at a large offset (±2^20 ~ 1e6), with points on, a few ulps and h/64, h/2^16 left / right of every knot; the
    # tolerances are relative to the domain's own scale (knot-index coordinate), so absolute thresholds in the code show up
    srng = Rng("C18-scale-block")
    sdoms = [(Fraction(0), Fraction(1, 2 ** 20)), (F(2e-7), F(5e-7)), (Fraction(0), Fraction(1, 2 ** 30)), (Fraction(2 ** 20), Fraction(2 ** 20 + 1)),
             (Fraction(-2 ** 20 - 2), Fraction(-2 ** 20)), (Fraction(1, 2 ** 10), Fraction(1, 2 ** 10) + Fraction(1, 2 ** 24))]
    for di, (a_, b_) in enumerate(sdoms):
        for p_ in (1, 2, 3, 5):
            nseg_ = [4, 5, 8, 3][(di + p_) % 4]
            h_ = (b_ - a_) / nseg_
            pts = {a_, b_}
            for k_ in range(nseg_ + 1):
                t_ = a_ + k_ * h_
                for off in (Fraction(0), h_ / 64, -h_ / 64, h_ / 2 ** 16, -h_ / 2 ** 16, h_ / 3):
                    q_ = Fraction(float(t_ + off))
                    if a_ <= q_ <= b_:
                        pts.add(q_)
                f_ = float(t_)
                for nb_ in (np.nextafter(f_, np.inf), np.nextafter(f_, -np.inf)):
                    if a_ <= Fraction(float(nb_)) <= b_:
                        pts.add(Fraction(float(nb_)))
            xs_ = sorted(pts)
            yield dict(kind="bs", p=p_, nfun=nseg_ + p_, dmin=rs(a_), dmax=rs(b_), x=[rs(v) for v in xs_], default_dom=False, structured=True, scale=True)
            if p_ in (1, 3):
                sub = xs_[:: max(1, len(xs_) // 12)] + [xs_[-1]]
                yield dict(kind="basis1", fam="bsplines", n=nseg_ + p_, p=p_, add=True, norm=False, x=[rs(v) for v in sorted(set(sub))],
                           dmin=rs(a_), dmax=rs(b_), default_dom=False, labels=None, structured=True, scale=True)
                yield dict(kind="sim", fam="bsplines", n=nseg_ + p_, p=p_, add=(di % 2 == 0), norm=False, x=[rs(v) for v in sorted(set(sub))],
                           dmin=rs(a_), dmax=rs(b_), default_dom=True, structured=True, scale=True)
    # inputs left as they were + argument objects reused: ONE ndarray / ONE DenseArgvals serves several bases (grids not starting at 0)
    sgrid = {"legendre": [Fraction(-1) + Fraction(i, 6) for i in range(13)], "other": [Fraction(3) + Fraction(i * i, 32) for i in range(9)],
             "wiener": [Fraction(1, 8) + Fraction(i, 16) for i in range(13)]}
    for fa, fb in [("fourier", "legendre"), ("fourier", "bsplines"), ("fourier", "wiener"), ("fourier", "fourier"), ("legendre", "fourier"),
                   ("bsplines", "legendre"), ("wiener", "bsplines")]:
        g = sgrid["legendre"] if "legendre" in (fa, fb) else (sgrid["wiener"] if "wiener" in (fa, fb) else sgrid["other"])
        for sc in ("same_array_both_directions", "shared_argvals_in_multivariate", "successive_calls_on_one_argvals"):
            c = dict(kind="shared", scenario=sc, fam=[fa, fb], n=[3, 3], p=2, add=True, x=[rs(v) for v in g], structured=True)
            if "bsplines" in (fa, fb):
                c.update(dmin=rs(g[0]), dmax=rs(g[-1]))
            yield c
    # options meant for ONE family reaching another: the documented keywords of Basis / _simulate_basis (degree, domain_min,
    # domain_max) handed to every family, alone and inside mixed multi-dimensional / multivariate bases — same cases in every run
    fgrid = {"fourier": [Fraction(1) + Fraction(i, 8) for i in range(17)], "wiener": [Fraction(i, 16) for i in range(17)],
             "legendre": [Fraction(-1) + Fraction(i, 8) for i in range(17)]}
    foreigns = [dict(degree=2), dict(dmin="0", dmax="10"), dict(dmin="3/2", dmax="2"), dict(degree=1, dmin="-5", dmax="7")]
    for fam_, g in fgrid.items():
        for fk in foreigns:
            for add_ in (True, False):
                yield dict(kind="sim", fam=fam_, n=4, add=add_, norm=False, x=[rs(v) for v in g], foreign=fk, structured=True)
            yield dict(kind="basis1", fam=fam_, n=3, add=True, norm=False, x=[rs(v) for v in g], foreign=fk, structured=True, labels=None)
        yield dict(kind="ortho", fam=fam_, n=5, x=[rs(v) for v in ([Fraction(i, 32) for i in range(33)] if fam_ != "legendre" else
                                                                     [F(float(v)) for v in np.polynomial.legendre.leggauss(16)[0]])],
                   **({"w": [rs(F(float(v))) for v in np.polynomial.legendre.leggauss(16)[1]]} if fam_ == "legendre" else {}),
                   foreign=dict(dmin="-3", dmax="9", degree=2), structured=True)
    mixes = [("bsplines", "fourier"), ("fourier", "bsplines"), ("fourier", "legendre"), ("wiener", "bsplines"), ("legendre", "wiener"), ("fourier", "fourier")]
    for f1_, f2_ in mixes:
        g1 = [Fraction(i, 4) for i in range(5)] if f1_ != "legendre" else [Fraction(-1) + Fraction(i, 2) for i in range(5)]
        g2 = [Fraction(i, 8) for i in range(7)] if f2_ != "legendre" else [Fraction(-1) + Fraction(i, 3) for i in range(7)]
        for dom in (("-1", "3"), ("0", "1")):
            yield dict(kind="basis2", fam=[f1_, f2_], n=[3, 4], p=2, add=True, norm=False, x1=[rs(v) for v in g1], x2=[rs(v) for v in g2],
                       dmin=dom[0], dmax=dom[1], iso=False, labels=("t", "s", "r"), structured=True)
        yield dict(kind="multi", comps=[dict(fam=[f1_, f2_], n=[2, 3], x=[[rs(v) for v in g1], [rs(v) for v in g2]]),
                                        dict(fam=[f2_], n=[6], x=[[rs(v) for v in g2]])],
                   p=1, add=True, norm=False, labels=None, dmin="-2", dmax="4", structured=True)
    # closed-form families on grids that do NOT contain the end points of their interval ([0,1] for Wiener, [-1,1] for
    # Legendre), and on sub-intervals / shifted ranges — the same structured cases in every run
    N_ = 20
    special = {
        "wiener": [[Fraction(2 * i + 1, 2 * N_) for i in range(N_)],                       # cell centres
                   [F(float(v)) for v in np.arange(0, 1, 0.05)],                           # np.arange(0, 1, 0.05): misses 1
                   [F(float(v)) for v in (np.polynomial.legendre.leggauss(12)[0] + 1) / 2],  # Gauss nodes in (0,1)
                   [Fraction(1, 5) + Fraction(i, 32) for i in range(17)],                  # sub-interval [0.2, 0.7]
                   [Fraction(i, 16) for i in range(1, 17)]],                               # misses 0
        "legendre": [[Fraction(-1, 2) + Fraction(i, 20) for i in range(17)],               # sub-interval of [-1,1]
                     [F(float(v)) for v in np.polynomial.legendre.leggauss(9)[0]],         # open nodes
                     [Fraction(i, 10) for i in range(0, 10)]],                             # [0, 0.9]
        "fourier": [[Fraction(3) + Fraction(2 * i + 1, 16) for i in range(16)],            # cell centres of [3,5]
                    [F(float(v)) for v in np.arange(0, 1, 0.05)],
                    [Fraction(-7, 2) + Fraction(i * i, 64) for i in range(12)]],           # non-uniform
    }
    for fam_, grids in special.items():
        for gi, g in enumerate(grids):
            for add_ in (True, False):
                yield dict(kind="sim", fam=fam_, n=[3, 5, 2, 4, 6][gi % 5], add=add_, norm=False, x=[rs(v) for v in g], structured=True)
    # value dtypes / containers of the sampling points: integer-valued grids stored as int64 / int32 / float32 / Python list
    # (float32 grids are legitimately processed in single precision for sin / cos: tolerance 1e-6)
    dgrids = {"bsplines": [Fraction(v) for v in (0, 1, 2, 4, 5, 7, 8)], "fourier": [Fraction(v) for v in (0, 1, 2, 3, 5, 6, 8)],
              "legendre": [Fraction(-1), Fraction(0), Fraction(1)], "wiener": [Fraction(0), Fraction(1)]}
    for fam_, g in dgrids.items():
        for xdt in ("int64", "int32", "float32", "list"):
            if fam_ == "wiener" and xdt == "list":
                continue  # rejected by the unchanged code (TypeError): a list cannot be multiplied by a float
            for add_ in (True, False):
                c = dict(kind="sim", fam=fam_, n=3, add=add_, norm=False, x=[rs(v) for v in g], xdtype=xdt, structured=True)
                if fam_ == "bsplines":
                    c.update(p=2, dmin=rs(g[0]), dmax=rs(g[-1]), default_dom=(xdt != "list"))
                yield c
    # boundary sizes of the B-spline family through _simulate_basis: n_functions in {degree-1, degree, degree+1},
    # with and without intercept, degree passed or left to its default (3); every degree, every run
    for p in range(1, 6):
        for nf in (p - 1, p, p + 1):
            for add in (True, False):
                nfull = nf if add else nf + 1
                if nf < 1 or nfull < p:
                    continue  # fewer functions than the degree (negative n_segments) is outside the property: the code
                    # returns finite numbers there without complaint (noted in docs/C18.md), the model does not cover it
                dmin, dmax = _domain(rng)
                if nfull > p:
                    xs = [v for v in _bs_grid(rng, dmin, dmax, nfull - p, p, rng.randint(4, 9)) if dmin <= v <= dmax]
                else:
                    xs = sorted({dmin, dmax, dmin + (dmax - dmin) * Fraction(rng.randint(1, 15), 16), dmin + (dmax - dmin) * Fraction(rng.randint(1, 15), 16)})
                yield dict(kind="simedge", fam="bsplines", n=nf, p=p, add=add, norm=False, dmin=rs(dmin), dmax=rs(dmax),
                           x=[rs(v) for v in xs], default_dom=rng.random() < 0.5, pass_degree=not (p == 3 and rng.random() < 0.6))
    if big:
        # exhaustive small scope of the quantifier: every (n_functions, degree), degree 1..5, n_functions degree+1..40
        for p in range(1, 6):
            for nfun in range(p + 1, 41):
                dmin, dmax = _domain(rng)
                xs = _bs_grid(rng, dmin, dmax, nfun - p, p, rng.randint(4, 12))
                yield dict(kind="bs", p=p, nfun=nfun, dmin=rs(dmin), dmax=rs(dmax), x=[rs(v) for v in xs], default_dom=False)
        # every ordered pair of families in 2-D, with and without intercept
        for f1 in FAMILIES:
            for f2 in FAMILIES:
                for add in (True, False):
                    yield dict(kind="basis2", fam=[f1, f2], n=[3, 4], p=2, add=add, norm=False, labels=("t", "s") if add else None,
                               x1=[rs(v) for v in _std_grid(rng, f1, 4)], x2=[rs(v) for v in _std_grid(rng, f2, 5)])
                    if f1 == f2:  # isotropic sizes, equal grid lengths, different grid values
                        g1, g2 = _std_grid(rng, f1, 5, ), _std_grid(rng, f1, 5)
                        while g1 == g2:
                            g2 = _std_grid(rng, f1, 5)
                        yield dict(kind="basis2", fam=[f1, f1], n=[3, 3], p=2, add=add, norm=False, iso=True,
                                   x1=[rs(v) for v in g1], x2=[rs(v) for v in g2])
    kinds = ["bs", "bs", "bs", "sim", "sim", "ortho", "basis1", "basis2", "basis2", "multi", "reject", "basis3"]
    for k in range(n):
        kind = kinds[k % len(kinds)]
        if kind == "bs":
            p, nfun = _bs_cfg(rng, big)
            dmin, dmax = _domain(rng)
            m = rng.randint(3, 30 if big else 16)
            xs = _bs_grid(rng, dmin, dmax, nfun - p, p, m)
            if rng.random() < 0.1:  # tiny grids: the end points alone, or with one interior point
                xs = [dmin, dmax] if rng.random() < 0.5 else [dmin, dmin + (dmax - dmin) * Fraction(rng.randint(1, 7), 8), dmax]
            default_dom = rng.random() < (0.5 if len(xs) <= 3 else 0.2) and xs[0] == dmin and xs[-1] == dmax
            yield dict(kind=kind, p=p, nfun=nfun, dmin=rs(dmin), dmax=rs(dmax), x=[rs(v) for v in xs], default_dom=default_dom)
        elif kind == "sim":
            fam = rng.choice(FAMILIES)
            nf = rng.randint(1, 15)
            m = rng.randint(5, 25)
            add = rng.random() < 0.5
            norm = rng.random() < 0.5
            c = dict(kind=kind, fam=fam, n=nf, add=add, norm=norm)
            if fam == "bsplines":
                p = rng.randint(1, 5)
                nf = max(nf, p + 1)
                dmin, dmax = _domain(rng)
                xs = _bs_grid(rng, dmin, dmax, (nf if add else nf + 1) - p, p, m, neighbours=not norm)
                xs = [v for v in xs if dmin <= v <= dmax]
                c.update(n=nf, p=p, dmin=rs(dmin), dmax=rs(dmax), x=[rs(v) for v in xs], default_dom=rng.random() < 0.3 and len(xs) >= 3)
            else:
                if not norm and rng.random() < 0.12:
                    m = rng.choice([2, 3])  # tiny grids
                c.update(x=[rs(v) for v in _std_grid(rng, fam, m)])
            yield c
        elif kind == "ortho":
            fam = rng.choice(["legendre", "fourier", "wiener"])
            nf = rng.randint(1, 15)
            if fam == "legendre":
                nodes, wts = np.polynomial.legendre.leggauss(rng.randint(16, 22))
                yield dict(kind=kind, fam=fam, n=nf, x=[rs(F(float(v))) for v in nodes], w=[rs(F(float(v))) for v in wts])
            else:
                N = rng.choice([32, 64, 128])
                lo, scale = (Fraction(0), Fraction(1)) if fam == "wiener" else (rng.choice([Fraction(0), Fraction(-1), Fraction(5, 2)]), rng.choice([Fraction(1), Fraction(2), Fraction(1, 4), Fraction(8)]))
                yield dict(kind=kind, fam=fam, n=nf, x=[rs(lo + scale * Fraction(i, N)) for i in range(N + 1)])
        elif kind == "basis1":
            fam = rng.choice(FAMILIES)
            nf = rng.randint(1, 12)
            m = rng.randint(5, 20)
            c = dict(kind=kind, fam=fam, n=nf, add=rng.random() < 0.6, norm=rng.random() < 0.4, x=[rs(v) for v in _std_grid(rng, fam, m)],
                     labels=rng.choice(LABEL_SETS))
            if fam == "bsplines":
                p = rng.randint(1, 4)
                c.update(p=p, n=max(nf, p + 1))
                if rng.random() < 0.5:  # non-default options must be forwarded by Basis(...)
                    xs = _Fv(c["x"])
                    c.update(dmin=rs(xs[0] - rng.choice([0, Fraction(1, 2), 1])), dmax=rs(xs[-1] + rng.choice([0, Fraction(1, 4), 2])), default_dom=False)
            yield c
        elif kind == "basis2":
            f1 = FAMILIES[(k // len(kinds)) % 4]
            f2 = FAMILIES[(k // (4 * len(kinds))) % 4] if k >= 16 * len(kinds) else rng.choice(FAMILIES)
            p = rng.randint(1, 3)
            n1, n2 = rng.randint(1, 5), rng.randint(1, 5)
            if f1 == "bsplines":
                n1 = max(n1, p + 1)
            if f2 == "bsplines":
                n2 = max(n2, p + 1)
            m1, m2 = rng.randint(3, 7), rng.randint(3, 7)
            iso = rng.random() < 0.35
            if iso:  # same family, same size, grids of EQUAL length but different values in the two directions
                f2, n2, m2 = f1, n1, m1
            elif rng.random() < 0.8 and m1 == m2:
                m2 += 1
            g1, g2 = _std_grid(rng, f1, m1), _std_grid(rng, f2, m2)
            while iso and g1 == g2:
                g2 = _std_grid(rng, f2, m2)
            c = dict(kind=kind, fam=[f1, f2], n=[n1, n2], p=p, add=rng.random() < 0.6, norm=rng.random() < 0.3,
                     x1=[rs(v) for v in g1], x2=[rs(v) for v in g2], iso=iso, labels=rng.choice(LABEL_SETS))
            if "bsplines" in (f1, f2) and rng.random() < 0.5:  # explicit domain through the n-D Basis wrapper
                bsx = [v for f, g in ((f1, g1), (f2, g2)) if f == "bsplines" for v in g]
                c.update(dmin=rs(min(bsx) - rng.choice([0, Fraction(1, 2), 1])), dmax=rs(max(bsx) + rng.choice([0, Fraction(1, 4), 2])))
            yield c
        elif kind == "multi":
            yield _multi_case(rng)
        elif kind == "basis3":
            yield _basis3_case(rng)
        elif kind == "reject":
            which = rng.choice(["name", "nseg0", "flat"])
            p = rng.randint(1, 4)
            if which == "name":
                yield dict(kind=kind, which=which, fam=rng.choice(["bspline", "Fourier", "poly", ""]), n=3, x=[rs(v) for v in rng.grid(5)])
            elif which == "nseg0":
                yield dict(kind=kind, which=which, p=p, nfun=p, dmin="0", dmax="1", x=[rs(v) for v in rng.grid(5)])
            else:
                d = rs(rng.dyadic(-3, 3, 2))
                yield dict(kind=kind, which=which, p=p, nfun=p + rng.randint(1, 4), dmin=d, dmax=d, x=[d, d, d])


def search_cases(rng, tier):
    yield from gen_cases(rng, "thorough" if tier == "thorough" else "quick")


def witness_cases():
    return []


# --------------------------------------------------------------------------
# implementation side
# --------------------------------------------------------------------------

def _Fv(v):
    return [F(x) for x in v]


_REG = []


def _arr(v):
    """A fresh float array for the code under test; a private copy is kept to detect in-place changes of the caller's data."""
    a = np.array(fl(_Fv(v)), dtype=float)
    _REG.append((a, a.copy()))
    return a


def _sim(fam, x, n, norm, add, **kw):
    from FDApy.representation.basis import _simulate_basis

    return _simulate_basis(fam, x, n, norm, add, **kw)


def _bs_kwargs(case):
    kw = {}
    if "p" in case:
        kw["degree"] = case["p"]
    if "dmin" in case and not case.get("default_dom"):
        kw["domain_min"] = float(F(case["dmin"]))
        kw["domain_max"] = float(F(case["dmax"]))
    return kw


def _foreign_kwargs(case):
    """Keywords documented for `Basis` / `_simulate_basis` that concern the B-splines family only, handed to a basis of ANOTHER
    family: they must change nothing there."""
    fk = case.get("foreign") or {}
    kw = {}
    if "degree" in fk:
        kw["degree"] = fk["degree"]
    if "dmin" in fk:
        kw["domain_min"] = float(F(fk["dmin"]))
        kw["domain_max"] = float(F(fk["dmax"]))
    return kw


def _multi_kwargs(case):
    kw = {}
    if case.get("p") is not None:
        kw["degree"] = case["p"]
    if "dmin" in case:
        kw["domain_min"] = float(F(case["dmin"]))
        kw["domain_max"] = float(F(case["dmax"]))
    return kw


def _finite(a):
    return bool(np.all(np.isfinite(a)))


def _run_shared(case):
    """Several bases built from ONE sampling array / ONE DenseArgvals object, each compared with a basis built from fresh copies."""
    from FDApy.representation.argvals import DenseArgvals
    from FDApy.representation.basis import Basis, MultivariateBasis

    f1, f2 = case["fam"]
    n1, n2 = case["n"]
    kw = _multi_kwargs(case)
    flat = lambda v: np.asarray(v).reshape(np.shape(v)[0], -1)  # noqa: E731
    out = {"scenario": case["scenario"]}
    x = _arr(case["x"])
    fresh = lambda: np.array(fl(_Fv(case["x"])), dtype=float)  # noqa: E731
    if case["scenario"] == "same_array_both_directions":
        b = Basis(name=(f1, f2), n_functions=(n1, n2), argvals=DenseArgvals({"s": x, "t": x}), add_intercept=case["add"], **kw)
        r = Basis(name=(f1, f2), n_functions=(n1, n2), argvals=DenseArgvals({"s": fresh(), "t": fresh()}), add_intercept=case["add"], **kw)
        out["got"], out["ref"] = [flat(b.values).tolist()], [flat(r.values).tolist()]
    elif case["scenario"] == "shared_argvals_in_multivariate":
        arg = DenseArgvals({"t": x})
        mb = MultivariateBasis(name=[f1, f2], n_functions=[n1, n1], argvals=[arg, arg], add_intercept=case["add"], **kw)
        rf = MultivariateBasis(name=[f1, f2], n_functions=[n1, n1], argvals=[DenseArgvals({"t": fresh()}), DenseArgvals({"t": fresh()})],
                               add_intercept=case["add"], **kw)
        out["got"], out["ref"] = [flat(c.values).tolist() for c in mb.data], [flat(c.values).tolist() for c in rf.data]
    else:  # successive_calls_on_one_argvals
        arg = DenseArgvals({"t": x})
        b1 = Basis(name=f1, n_functions=n1, argvals=arg, add_intercept=case["add"], **kw)
        b2 = Basis(name=f2, n_functions=n2, argvals=arg, add_intercept=case["add"], **kw)
        b3 = Basis(name=f1, n_functions=n1, argvals=arg, add_intercept=case["add"], **kw)
        r1 = Basis(name=f1, n_functions=n1, argvals=DenseArgvals({"t": fresh()}), add_intercept=case["add"], **kw)
        r2 = Basis(name=f2, n_functions=n2, argvals=DenseArgvals({"t": fresh()}), add_intercept=case["add"], **kw)
        out["got"] = [flat(b1.values).tolist(), flat(b2.values).tolist(), flat(b3.values).tolist()]
        out["ref"] = [flat(r1.values).tolist(), flat(r2.values).tolist(), flat(r1.values).tolist()]
    return out


def run_impl(case):
    del _REG[:]
    out = _run_impl(case)
    changed = [i for i, (a, a0) in enumerate(_REG) if not np.array_equal(a, a0, equal_nan=True)]
    if changed:
        a, a0 = _REG[changed[0]]
        out["inputs_changed"] = f"{len(changed)} of the {len(_REG)} arrays handed to the basis code were modified in place (first: {a0[:4].tolist()}… became {a[:4].tolist()}…)"
    return out


def _run_impl(case):
    import warnings

    from FDApy.misc.basis import _basis_bsplines
    from scipy.integrate import simpson

    warnings.simplefilter("ignore")
    kind = case["kind"]
    out = {}
    if kind == "shared":
        return _run_shared(case)
    if kind == "bs":
        x = _arr(case["x"])
        kw = {} if case["default_dom"] else dict(domain_min=float(F(case["dmin"])), domain_max=float(F(case["dmax"])))
        v = _basis_bsplines(x, case["nfun"], case["p"], **kw)
        out["shape"] = list(v.shape)
        out["v"] = v.tolist()
    elif kind in ("sim", "basis1"):
        x = _arr(case["x"])
        if case.get("xdtype"):  # the same grid in another storage type (lossless by construction of the case)
            x = x.tolist() if case["xdtype"] == "list" else x.astype({"int64": np.int64, "int32": np.int32, "float32": np.float32}[case["xdtype"]])
        fam = case["fam"]
        kw = _bs_kwargs(case) if fam == "bsplines" else _foreign_kwargs(case)
        if kind == "sim":
            raw = _sim(fam, x, case["n"], False, case["add"], **kw)
            val = _sim(fam, x, case["n"], case["norm"], case["add"], **kw)
            out["other"] = _sim(fam, x, case["n"] + 1, case["norm"], True, **kw)[1:].tolist()
        else:
            from FDApy.representation.argvals import DenseArgvals
            from FDApy.representation.basis import Basis

            arg = DenseArgvals({_labels(case, 1)[0]: x})
            b = Basis(name=fam, n_functions=case["n"], argvals=arg, is_normalized=case["norm"], add_intercept=case["add"], **kw)
            val = b.values
            raw = _sim(fam, x, case["n"], False, case["add"], **kw)
            out["sim"] = _sim(fam, x, case["n"], case["norm"], case["add"], **kw).tolist()
            out["n_obs"] = int(b.n_obs)
        out["shape"] = list(np.shape(val))
        out["v"] = np.asarray(val).tolist()
        out["raw"] = raw.tolist()
        # squared norms of the full family (before the intercept is dropped), as the code computes them
        nfull = case["n"] if case["add"] else case["n"] + 1
        full = _sim(fam, x, nfull, False, True, **kw)
        out["q"] = simpson(full * full, x=x).tolist()
        if case["norm"]:
            out["unit"] = simpson(np.asarray(val) * np.asarray(val), x=x).tolist()
    elif kind == "simedge":
        x = _arr(case["x"])
        kw = _bs_kwargs(case)
        if not case["pass_degree"]:
            kw.pop("degree", None)
        try:
            v = _sim("bsplines", x, case["n"], False, case["add"], **kw)
            out["result"] = "finite" if _finite(v) else "nonfinite"
            out["shape"] = list(v.shape)
            out["v"] = np.where(np.isfinite(v), v, 0.0).tolist()
        except Exception as e:  # noqa: BLE001
            out["result"] = "error:" + err_class(e)
        if not case["add"]:
            try:
                o = _sim("bsplines", x, case["n"] + 1, False, True, **kw)[1:]
                out["other"] = np.where(np.isfinite(o), o, 0.0).tolist()
                out["other_result"] = "finite" if _finite(o) else "nonfinite"
            except Exception as e:  # noqa: BLE001
                out["other_result"] = "error:" + err_class(e)
    elif kind == "ortho":
        x = _arr(case["x"])
        v = _sim(case["fam"], x, case["n"], False, True, **_foreign_kwargs(case))
        out["v"] = v.tolist()
        if case["fam"] == "legendre":
            w = _arr(case["w"])
            G = (v * w) @ v.T
        else:
            G = np.array([[np.trapz(v[i] * v[j], x) for j in range(len(v))] for i in range(len(v))])
        out["G"] = G.tolist()
    elif kind == "basis2":
        from FDApy.representation.argvals import DenseArgvals
        from FDApy.representation.basis import Basis, MultivariateBasis

        x1, x2 = _arr(case["x1"]), _arr(case["x2"])
        f1, f2 = case["fam"]
        n1, n2 = case["n"]
        kw = {"degree": case["p"]} if "bsplines" in (f1, f2) else {}
        if "dmin" in case:
            kw.update(domain_min=float(F(case["dmin"])), domain_max=float(F(case["dmax"])))
        if True:
            lb = _labels(case, 2)
            arg = DenseArgvals({lb[0]: x1, lb[1]: x2})
            b = Basis(name=(f1, f2), n_functions=(n1, n2), argvals=arg, is_normalized=case["norm"], add_intercept=case["add"], **kw)
            out["shape"] = list(b.values.shape)
            out["v"] = np.asarray(b.values).reshape(b.values.shape[0], -1).tolist()
            out["m1"] = _sim(f1, x1, n1, case["norm"], case["add"], **kw).tolist()
            out["m2"] = _sim(f2, x2, n2, case["norm"], case["add"], **kw).tolist()
            out["marg_raw"] = [_sim(f1, x1, n1, False, case["add"], **kw).tolist(), _sim(f2, x2, n2, False, case["add"], **kw).tolist()]
    elif kind == "basis3":
        from FDApy.representation.argvals import DenseArgvals
        from FDApy.representation.basis import Basis

        kw = _multi_kwargs(case)
        xs3 = [_arr(x) for x in case["x3"]]
        arg = DenseArgvals({lb: x for lb, x in zip(_labels(case, 3), xs3)})
        b = Basis(name=tuple(case["fam"]), n_functions=tuple(case["n"]), argvals=arg, is_normalized=case["norm"], add_intercept=case["add"], **kw)
        out["shape"] = list(b.values.shape)
        out["v"] = np.asarray(b.values).reshape(b.values.shape[0], -1).tolist()
        out["marg"] = [_sim(f, x, n, case["norm"], case["add"], **kw).tolist() for f, n, x in zip(case["fam"], case["n"], xs3)]
        out["marg_raw"] = [_sim(f, x, n, False, case["add"], **kw).tolist() for f, n, x in zip(case["fam"], case["n"], xs3)]
    elif kind == "multi":
        from FDApy.representation.argvals import DenseArgvals
        from FDApy.representation.basis import Basis, MultivariateBasis

        kw = _multi_kwargs(case)
        comps = case["comps"]
        names = [c["fam"][0] if len(c["fam"]) == 1 else tuple(c["fam"]) for c in comps]
        nfs = [c["n"][0] if len(c["n"]) == 1 else tuple(c["n"]) for c in comps]
        args = [DenseArgvals({lb: _arr(x) for lb, x in zip(_labels(case, len(c["x"])), c["x"])}) for c in comps]
        mb = MultivariateBasis(name=names, n_functions=nfs, argvals=args, is_normalized=case["norm"], add_intercept=case["add"], **kw)
        out["n_functional"] = int(mb.n_functional)
        out["shapes"] = [list(np.shape(c.values)) for c in mb.data]
        flat = lambda v: np.asarray(v).reshape(np.shape(v)[0], -1)  # noqa: E731
        out["comp"] = [flat(c.values).tolist() for c in mb.data]
        # the same component built directly, with the same arguments
        out["direct"] = [flat(Basis(name=nm, n_functions=nf, argvals=ar, is_normalized=case["norm"], add_intercept=case["add"], **kw).values).tolist()
                         for nm, nf, ar in zip(names, nfs, args)]
        # the marginal families, with the same options
        out["marg"] = [[_sim(f, _arr(x), n, case["norm"], case["add"], **kw).tolist() for f, n, x in zip(c["fam"], c["n"], c["x"])] for c in comps]
        out["marg_raw"] = [[_sim(f, _arr(x), n, False, case["add"], **kw).tolist() for f, n, x in zip(c["fam"], c["n"], c["x"])] for c in comps]
        try:
            from FDApy.simulation.karhunen import KarhunenLoeve

            kl = KarhunenLoeve(n_functions=nfs, basis_name=names, argvals=args, is_normalized=case["norm"], add_intercept=case["add"], **kw)
            out["kl"] = [flat(c.values).tolist() for c in kl.basis.data]
        except Exception as e:  # noqa: BLE001
            out["kl_error"] = err_class(e) + ": " + str(e)[:120]
    elif kind == "reject":
        x = _arr(case["x"])
        try:
            if case["which"] == "name":
                v = _sim(case["fam"], x, case["n"], False, True)
            else:
                v = _basis_bsplines(x, case["nfun"], case["p"], float(F(case["dmin"])), float(F(case["dmax"])))
            out["result"] = "finite" if _finite(v) else "nonfinite"
        except Exception as e:  # noqa: BLE001
            out["result"] = "error:" + err_class(e)
    return out


# --------------------------------------------------------------------------
# model side
# --------------------------------------------------------------------------

def _dom(case):
    xs = _Fv(case["x"])
    if case.get("default_dom") or "dmin" not in case:
        return min(xs), max(xs)
    return F(case["dmin"]), F(case["dmax"])


def model_lines(case, impl):
    if "__crash__" in impl:
        return []
    kind = case["kind"]
    J = ",".join
    if kind == "bs":
        a, b = _dom(case)
        return [f"bs {rs(a)} {rs(b)} {case['nfun']} {case['p']} {J(case['x'])}"]
    if kind == "simedge":
        a, b = _dom(case)
        return [f"simbs {rs(a)} {rs(b)} {case['n']} {case['p']} {'1' if case['add'] else '0'} {J(case['x'])}"]
    if kind in ("sim", "basis1", "ortho"):
        fam = case["fam"]
        add = "1" if case.get("add", True) else "0"
        if fam == "bsplines":
            a, b = _dom(case)
            return [f"simbs {rs(a)} {rs(b)} {case['n']} {case.get('p', 3)} {add} {J(case['x'])}"]
        if fam == "legendre":
            return [f"leg {case['n']} {add} {J(case['x'])}"]
        nfull = case["n"] if case.get("add", True) else case["n"] + 1
        return [f"{'fou' if fam == 'fourier' else 'wie'} {nfull} {J(case['x'])}"]
    if kind == "basis2":
        if not (_finite(np.array(impl["m1"])) and _finite(np.array(impl["m2"]))):
            return []  # a marginal function has zero norm on this grid: 0/0 under normalisation
        return [f"b2 {mat([[F(v) for v in r] for r in impl['m1']])} {mat([[F(v) for v in r] for r in impl['m2']])}"]
    if kind == "basis3":
        mg = impl["marg"]
        if not all(_finite(np.array(m_)) for m_ in mg):
            return []
        return ["b3 " + " ".join(mat([[F(v) for v in r] for r in m_]) for m_ in mg)]
    if kind == "multi":
        lines = []
        for c, mg in zip(case["comps"], impl["marg"]):
            if len(c["n"]) >= 2 and all(_finite(np.array(m_)) for m_ in mg):
                lines.append(f"b{len(mg)} " + " ".join(mat([[F(v) for v in r] for r in m_]) for m_ in mg))
            for f, n, x in zip(c["fam"], c["n"], c["x"]):
                if f == "bsplines":
                    xs = _Fv(x)
                    a, b = (F(case["dmin"]), F(case["dmax"])) if "dmin" in case else (min(xs), max(xs))
                    p = case["p"] if case.get("p") is not None else 3
                    lines.append(f"simbs {rs(a)} {rs(b)} {n} {p} {'1' if case['add'] else '0'} {J(x)}")
        return lines
    if kind == "reject" and case["which"] != "name":
        return [f"bs {case['dmin']} {case['dmax']} {case['nfun']} {case['p']} {J(case['x'])}"]
    return []


def _pfloat(tok):
    if tok in ("nan", "inf"):
        return None
    neg = tok.startswith("-")
    k, e = tok.lstrip("-").split("p")
    q = Fraction(int(k)) * (Fraction(2) ** int(e))
    return -q if neg else q


def parse_model(case, outs):
    return dict(outs=outs)


def _bs_tol(case, scale_x, a, b, nfun_eff):
    p = case.get("p", 3)
    h = (b - a) / (nfun_eff - p)
    cond = 1 + p * float(max(abs(a), abs(b)) / h)
    return 64 * EPS * cond * max(1.0, float(scale_x))


_CAL = dict(max_ratio=0.0)


def _cmp_matrix(name, V, Q, tolf):
    """V float matrix, Q exact matrix, tolf(i, j) absolute tolerance."""
    if len(V) != len(Q):
        return [f"{name}: {len(V)} rows vs model {len(Q)}"]
    for i, (vr, qr) in enumerate(zip(V, Q)):
        if len(vr) != len(qr):
            return [f"{name}[{i}]: {len(vr)} columns vs model {len(qr)}"]
        for j, (v, q) in enumerate(zip(vr, qr)):
            if not math.isfinite(v):
                return [f"{name}[{i}][{j}]: non-finite {v!r}"]
            if abs(Fraction(v) - q) > Fraction(tolf(i, j)):
                return [f"{name}[{i}][{j}]: impl {v!r} vs exact {float(q)!r} (tol {tolf(i, j):.3g})"]
    return []


def compare(case, impl, model):
    if "__crash__" in impl:
        return [f"implementation crashed: {impl['__crash__']} {impl.get('msg')}"]
    kind = case["kind"]
    outs = model["outs"]
    if kind == "reject":
        if outs[0].startswith("error") != (impl["result"] != "finite"):
            return [f"model says {outs[0][:30]} but the implementation returned {impl['result']}"]
        return []
    if kind == "basis3":
        Q = pmat(outs[0])
        return _cmp_matrix("triple tensor product", impl["v"], Q, lambda i, j: 6 * EPS * abs(float(Q[i][j])) + 1e-300)
    if kind == "multi":
        ds, k = [], 0
        for ci, (c, mg) in enumerate(zip(case["comps"], impl["marg"])):
            if len(c["n"]) >= 2 and all(_finite(np.array(m_)) for m_ in mg):
                Q = pmat(outs[k]); k += 1
                ds += _cmp_matrix(f"component {ci} (tensor product)", impl["comp"][ci], Q, lambda i, j: 6 * EPS * abs(float(Q[i][j])) + 1e-300)
            for mi, (f, n, x) in enumerate(zip(c["fam"], c["n"], c["x"])):
                if f != "bsplines":
                    continue
                o = outs[k]; k += 1
                if o.startswith("error") or o.startswith("bad"):
                    ds.append(f"model rejects marginal {mi} of component {ci}: {o}")
                    continue
                if case["norm"]:
                    continue  # normalised marginals are covered by the sim cases; here the options matter
                xs = _Fv(x)
                a, b = (F(case["dmin"]), F(case["dmax"])) if "dmin" in case else (min(xs), max(xs))
                V, sc = o.split(" ")
                Q2, sc = pmat(V), pvec(sc)
                pc = dict(p=case["p"] if case.get("p") is not None else 3)
                tols = [_bs_tol(pc, s_, a, b, n if case["add"] else n + 1) for s_ in sc]
                ds += _cmp_matrix(f"component {ci} marginal {mi} (bsplines, options)", mg[mi], Q2, lambda i, j: tols[j])
            if ds:
                break
        return ds
    if kind == "simedge":
        if outs[0].startswith("error") != (impl["result"] != "finite"):
            return [f"model says {outs[0][:30]} but the implementation returned {impl['result']}"]
        if outs[0].startswith("error"):
            return []
        a, b = _dom(case)
        V, sc = outs[0].split(" ")
        Q, sc = pmat(V), pvec(sc)
        nfun_eff = case["n"] if case["add"] else case["n"] + 1
        tols = [_bs_tol(case, s_, a, b, nfun_eff) for s_ in sc]
        return _cmp_matrix("bsplines (boundary size)", impl["v"], Q, lambda i, j: tols[j])
    if outs[0].startswith("error") or outs[0].startswith("bad"):
        return [f"model rejects the case: {outs[0]}"]
    if kind == "bs":
        a, b = _dom(case)
        V, sc = outs[0].split(" ")
        Q, sc = pmat(V), pvec(sc)
        tols = [_bs_tol(case, s, a, b, case["nfun"]) for s in sc]
        if impl["shape"] != [case["nfun"], len(case["x"])]:
            return [f"shape {impl['shape']} vs ({case['nfun']}, {len(case['x'])})"]
        for i, (vr, qr) in enumerate(zip(impl["v"], Q)):
            for j, (v, q) in enumerate(zip(vr, qr)):
                if math.isfinite(v):
                    _CAL["max_ratio"] = max(_CAL["max_ratio"], float(abs(Fraction(v) - q)) / (tols[j] / 64))
        return _cmp_matrix("bsplines", impl["v"], Q, lambda i, j: tols[j])
    if kind in ("sim", "basis1", "ortho"):
        fam = case["fam"]
        add = case.get("add", True)
        norm = case.get("norm", False)
        if fam in ("bsplines", "legendre"):
            if fam == "bsplines":
                a, b = _dom(case)
                V, sc = outs[0].split(" ")
                Q, sc = pmat(V), pvec(sc)
                nfun_eff = case["n"] if add else case["n"] + 1
                tols = [_bs_tol(case, s, a, b, nfun_eff) for s in sc]
                tolf = lambda i, j: tols[j]  # noqa: E731
            else:
                Q = pmat(outs[0])
                tolf = lambda i, j: 1e-12 * max(1.0, abs(float(Q[i][j])))  # noqa: E731
        else:
            rows = outs[0].split(";")
            Q = [[_pfloat(t) for t in r.split(",")] for r in rows]
            if not add:
                Q = Q[1:]
            xs = fl(_Fv(case["x"]))
            amax = max(abs(v) for v in xs) if fam == "wiener" else 1.0
            lp = 1e-6 if case.get("xdtype") == "float32" else 1e-12
            tolf = lambda i, j: lp * (1 + (case["n"] + 1) * math.pi * amax) * max(1.0, abs(float(Q[i][j])))  # noqa: E731
        ds = _cmp_matrix(f"{fam} raw", impl["raw"] if "raw" in impl else impl["v"], Q, tolf)
        if ds or not norm:
            if not ds and "raw" in impl:
                ds += _cmp_matrix(f"{fam} values", impl["v"], Q, tolf)
            return ds
        # normalised: value² · q_k = raw² and same sign (q = squared norms captured from scipy's simpson)
        q = impl["q"] if add else impl["q"][1:]
        for i, (vr, qr) in enumerate(zip(impl["v"], Q)):
            if not (q[i] > 0):
                continue
            for j, (v, qv) in enumerate(zip(vr, qr)):
                t = tolf(i, j)
                want = float(qv) / math.sqrt(q[i])
                if abs(v - want) > (t + 1e-13 * abs(want)) / math.sqrt(q[i]) + 1e-300:
                    return [f"{fam} normalised[{i}][{j}]: impl {v!r} vs exact/sqrt(q) {want!r}"]
        return []
    if kind == "basis2":
        Q = pmat(outs[0])
        return _cmp_matrix("kron", impl["v"], Q, lambda i, j: 4 * EPS * abs(float(Q[i][j])) + 1e-300)
    return []


# --------------------------------------------------------------------------
# the property's own predicate, evaluated on the implementation
# --------------------------------------------------------------------------

def _cdb(knots, p, j, x):
    """Cox–de Boor recursion in exact arithmetic (independent of the Lean model)."""
    if p == 0:
        return Fraction(1) if knots[j] <= x < knots[j + 1] else Fraction(0)
    return ((x - knots[j]) / (knots[j + p] - knots[j]) * _cdb(knots, p - 1, j, x)
            + (knots[j + p + 1] - x) / (knots[j + p + 1] - knots[j + 1]) * _cdb(knots, p - 1, j + 1, x))


def _cdb_all(knots, p, x, nfun):
    """All B-splines of degree p at x by the triangular scheme (exact)."""
    K = len(knots)
    b = [Fraction(1) if knots[j] <= x < knots[j + 1] else Fraction(0) for j in range(K - 1)]
    for d in range(1, p + 1):
        b = [((x - knots[j]) / (knots[j + d] - knots[j]) * b[j] + (knots[j + d + 1] - x) / (knots[j + d + 1] - knots[j + 1]) * b[j + 1])
             for j in range(K - 1 - d)]
    return b[:nfun]


def _cond_float(x, a, b, nfun, p):
    """Σ|terms| of the truncated-power sum in floats (independent numpy code): tolerance scale."""
    from math import comb, factorial

    h = (b - a) / (nfun - p)
    best = 0.0
    for j in range(nfun):
        s = 0.0
        for i in range(p + 2):
            t = a + (j + i - p) * h
            if x >= t:
                s += comb(p + 1, i) * ((x - t) / h) ** p
        best = max(best, s / factorial(p))
    return best


def _closed_form(fam, x, nfull):
    """The defining closed forms, evaluated independently (NumPy, float64): rows 0..nfull-1 on the grid x.
    wiener: sqrt(2) sin((k - 1/2) pi t), k = 1..; fourier on [min x, max x] = [a, a + L]: 1/sqrt(L), then
    sqrt(2/L) cos(m th), sqrt(2/L) sin(m th) with th = 2 pi (t - a)/L - pi; legendre: Bonnet's recursion."""
    x = np.asarray(x, dtype=float)
    if fam == "wiener":
        return np.array([math.sqrt(2.0) * np.sin((k - 0.5) * math.pi * x) for k in range(1, nfull + 1)])
    if fam == "fourier":
        a, L = x.min(), x.max() - x.min()
        th = 2.0 * math.pi * (x - a) / L - math.pi
        rows = []
        for k in range(nfull):
            m_ = (k + 1) // 2
            rows.append(np.full_like(x, 1.0 / math.sqrt(L)) if k == 0 else
                        (math.sqrt(2.0 / L) * np.cos(m_ * th) if k % 2 == 1 else math.sqrt(2.0 / L) * np.sin(m_ * th)))
        return np.array(rows)
    if fam == "legendre":
        rows = [np.ones_like(x), x.copy()]
        for n_ in range(1, nfull):
            rows.append(((2 * n_ + 1) * x * rows[n_] - n_ * rows[n_ - 1]) / (n_ + 1))
        return np.array(rows[:nfull])
    return None


def _oracle_closed_form(case, raw, entry, bad):
    """Pointwise closed form of the Legendre / Fourier / Wiener values on ANY grid (end points of [0,1], [-1,1] or of
    the spanned interval included or not)."""
    fam = case["fam"]
    if fam not in ("wiener", "fourier", "legendre"):
        return
    add = case.get("add", True)
    nfull = case["n"] if add else case["n"] + 1
    xs = fl(_Fv(case["x"]))
    if fam == "fourier" and max(xs) == min(xs):
        return
    want = _closed_form(fam, xs, nfull)
    want = want if add else want[1:]
    V = np.array(raw, dtype=float)
    if V.shape != want.shape:
        bad("shape", f"{fam}: shape {V.shape} vs {want.shape}", entry)
        return
    amax = max(abs(v) for v in xs) if fam == "wiener" else 1.0
    tol = (1e-6 if case.get("xdtype") == "float32" else 1e-11) * (1 + (nfull + 1) * math.pi * amax) * np.maximum(1.0, np.abs(want))
    err = np.abs(V - want)
    if not np.all(err <= tol):
        i, j = np.unravel_index(np.argmax(err - tol), err.shape)
        span = f"grid in [{min(xs)!r}, {max(xs)!r}]"
        bad("closed_form", f"{fam} function {i + (0 if add else 1)} at t={xs[j]!r} ({span}): {V[i, j]!r} vs closed form {want[i, j]!r}", entry)


def _oracle_marginals(fams, ns, xs, add, raws, entry, bad, opts):
    """The marginal families that do not document the options of the whole basis must give exactly their closed-form values."""
    for f, n, x, raw in zip(fams, ns, xs, raws):
        if f in ("wiener", "fourier", "legendre"):
            got = []
            _oracle_closed_form(dict(fam=f, n=n, add=add, x=x), raw, entry, lambda c_, m_, e_: got.append((c_, m_, e_)))
            for c_, m_, e_ in got:
                bad("closed_form" if c_ == "closed_form" else c_, f"marginal family {f!r} evaluated with the options of the whole basis ({opts}): {m_}", e_)
                return


def _oracle_bs(V, xs, a, b, nfun, p, entry, bad, row0=0):
    """V: rows row0..nfun-1 of the nfun-function basis (row0 = 1: the basis without its first function)."""
    if row0:
        return _oracle_bs_tail(V, xs, a, b, nfun, p, entry, bad, row0)
    h = (b - a) / (nfun - p)
    knots = [a + (k - p) * h for k in range(nfun + p + 1)]
    fa, fb = float(a), float(b)
    cond = 1 + p * float(max(abs(a), abs(b)) / h)
    for c, x in enumerate(xs):
        col = [V[j][c] for j in range(nfun)]
        tol = 64 * EPS * cond * max(1.0, _cond_float(float(x), fa, fb, nfun, p))
        if min(col) < -tol:
            bad("nonneg", f"negative value {min(col)!r} at x={float(x)!r} (function {col.index(min(col))})", entry)
            return
        if a <= x <= b and abs(sum(col) - 1) > tol * (p + 1):
            bad("partition_of_unity", f"functions sum to {sum(col)!r} at x={float(x)!r} in [{fa},{fb}]", entry)
            return
        beyond = [j for j in range(nfun) if col[j] != 0.0 and x > knots[j + p + 1] + h / 2 ** 20]
        if beyond:
            bad("local_support", f"function {beyond[0]} is {col[beyond[0]]!r} (not exactly 0) at x={float(x)!r}, beyond its end knot {float(knots[beyond[0] + p + 1])!r}: "
                f"{sum(1 for v in col if v != 0.0)} non-zero functions at this point (degree {p})", entry)
            return
        nz = [j for j in range(nfun) if abs(col[j]) > tol]
        if len(nz) > p + 1:
            bad("local_support", f"{len(nz)} functions non-zero at x={float(x)!r} (degree {p})", entry)
            return
        for j in nz:
            if not (knots[j] - Fraction(tol) * h <= x <= knots[j + p + 1] + Fraction(tol) * h):
                bad("local_support", f"function {j} is {col[j]!r} at x={float(x)!r} outside its support", entry)
                return
        ex = _cdb_all(knots, p, x, nfun)
        for j in range(nfun):
            if abs(Fraction(col[j]) - ex[j]) > Fraction(tol):
                bad("cox_de_boor", f"function {j} at x={float(x)!r}: {col[j]!r} vs Cox-de Boor {float(ex[j])!r}", entry)
                return


def _oracle_bs_tail(V, xs, a, b, nfun, p, entry, bad, row0):
    h = (b - a) / (nfun - p)
    knots = [a + (k - p) * h for k in range(nfun + p + 1)]
    fa, fb = float(a), float(b)
    cond = 1 + p * float(max(abs(a), abs(b)) / h)
    if len(V) != nfun - row0:
        bad("shape", f"{len(V)} functions, expected {nfun - row0}", entry)
        return
    for c, x in enumerate(xs):
        tol = 64 * EPS * cond * max(1.0, _cond_float(float(x), fa, fb, nfun, p))
        ex = _cdb_all(knots, p, x, nfun)
        col = [V[j][c] for j in range(nfun - row0)]
        if min(col) < -tol:
            bad("nonneg", f"negative value {min(col)!r} at x={float(x)!r}", entry)
            return
        for j in range(nfun - row0):
            if abs(Fraction(col[j]) - ex[j + row0]) > Fraction(tol):
                bad("cox_de_boor", f"function {j} (= function {j + row0} of the {nfun}-function basis of degree {p}) at x={float(x)!r}: "
                    f"{col[j]!r} vs Cox-de Boor {float(ex[j + row0])!r}", entry)
                return
        if a <= x <= b and abs(sum(col) + float(ex[0]) - 1) > tol * (p + 1):
            bad("partition_of_unity", f"functions plus the dropped one sum to {sum(col) + float(ex[0])!r} at x={float(x)!r}", entry)
            return


def _tensor(mg):
    """Row-major tensor product of 1, 2 or 3 marginal value matrices: [prod K, m1, (m2, (m3))]."""
    if len(mg) == 1:
        return mg[0]
    if len(mg) == 2:
        return np.einsum("ia,jb->ijab", mg[0], mg[1]).reshape(-1, mg[0].shape[1], mg[1].shape[1])
    return np.einsum("ia,jb,kc->ijkabc", mg[0], mg[1], mg[2]).reshape(-1, mg[0].shape[1], mg[1].shape[1], mg[2].shape[1])

def oracle(case, impl):
    if "__crash__" in impl:
        return [dict(clause="runs", entry=case["kind"], msg=f"crash {impl['__crash__']}: {impl.get('msg')} {impl.get('tb', '')[-300:]}")]
    kind = case["kind"]
    vs = []

    def bad(clause, msg, entry):
        vs.append(dict(clause=clause, entry=entry, msg=msg))

    if impl.get("inputs_changed"):
        bad("input_unchanged", impl["inputs_changed"] + f" (case kind {kind}, famil(y/ies) {case.get('fam', [c['fam'] for c in case.get('comps', [])])})",
            {"bs": "_basis_bsplines", "sim": "_simulate_basis", "simedge": "_simulate_basis", "ortho": "_simulate_basis", "multi": "MultivariateBasis"}.get(kind, "Basis"))
    if kind == "shared":
        for i, (g, r) in enumerate(zip(impl["got"], impl["ref"])):
            if not np.array_equal(np.array(g), np.array(r), equal_nan=True):
                d = np.nanmax(np.abs(np.array(g) - np.array(r))) if np.shape(g) == np.shape(r) else float("nan")
                bad("shared_argument", f"{impl['scenario']} (families {case['fam']}, grid starting at {float(F(case['x'][0]))}): basis {i} built from the shared "
                    f"array / DenseArgvals differs from the one built from fresh copies by {d:.3g}", "Basis" if "multivariate" not in impl["scenario"] else "MultivariateBasis")
                break
        return vs

    if kind == "bs":
        a, b = _dom(case)
        if impl["shape"] != [case["nfun"], len(case["x"])]:
            bad("shape", f"shape {impl['shape']}", "_basis_bsplines")
        else:
            _oracle_bs(impl["v"], _Fv(case["x"]), a, b, case["nfun"], case["p"], "_basis_bsplines", bad)
    elif kind in ("sim", "basis1"):
        entry = "_simulate_basis" if kind == "sim" else "Basis"
        fam = case["fam"]
        if impl["shape"] != [case["n"], len(case["x"])]:
            bad("shape", f"shape {impl['shape']} for n_functions={case['n']}", entry)
            return vs
        if kind == "basis1" and impl["n_obs"] != case["n"]:
            bad("shape", f"n_obs {impl['n_obs']}", entry)
        _oracle_closed_form(case, impl["raw"], "_basis_" + fam if kind == "sim" else entry, bad)
        if kind == "sim" and not case["add"]:
            # dropping the intercept removes exactly the first function of the (n+1)-family
            if not np.array_equal(np.array(impl["v"]), np.array(impl["other"]), equal_nan=True):
                bad("intercept", "add_intercept=False is not rows 1.. of the family with one more function", entry)
        if kind == "basis1" and not np.array_equal(np.array(impl["v"]), np.array(impl["sim"]), equal_nan=True):
            bad("basis_values", "Basis(...).values differ from _simulate_basis", entry)
        if case["norm"]:
            for k_, u in enumerate(impl["unit"]):
                qk = (impl["q"] if case["add"] else impl["q"][1:])[k_]
                if qk > 1e-280 and abs(u - 1) > 1e-10:
                    bad("normalized", f"function {k_} has squared norm {u!r} after normalisation", entry)
                    break
        if fam == "bsplines" and not case["norm"]:
            a, b = _dom(case)
            if case["add"]:
                _oracle_bs(impl["v"], _Fv(case["x"]), a, b, case["n"], case["p"], entry, bad)
            else:
                _oracle_bs(impl["v"], _Fv(case["x"]), a, b, case["n"] + 1, case["p"], entry, bad, row0=1)
    elif kind == "simedge":
        entry = "_simulate_basis"
        nfull = case["n"] if case["add"] else case["n"] + 1
        valid = nfull > case["p"]
        if valid and impl["result"] != "finite":
            bad("boundary_size", f"n_functions={case['n']}, degree={case['p']}, add_intercept={case['add']} is a valid B-spline basis "
                f"({nfull} functions of degree {case['p']}) but the call gives {impl['result']}", entry)
        elif not valid and impl["result"] == "finite":
            bad("reject", f"n_functions={case['n']}, degree={case['p']}, add_intercept={case['add']} has no segment but returns finite values", entry)
        elif valid:
            if impl["shape"] != [case["n"], len(case["x"])]:
                bad("shape", f"shape {impl['shape']} for n_functions={case['n']}", entry)
                return vs
            if not case["add"]:
                if impl.get("other_result") != "finite" or not np.array_equal(np.array(impl["v"]), np.array(impl["other"])):
                    bad("intercept", f"add_intercept=False with n_functions={case['n']}, degree={case['p']} is not the {case['n'] + 1}-function basis "
                        "without its first function", entry)
            a, b = _dom(case)
            _oracle_bs(impl["v"], _Fv(case["x"]), a, b, nfull, case["p"], entry, bad, row0=0 if case["add"] else 1)
    elif kind == "ortho":
        fam = case["fam"]
        _oracle_closed_form(case, impl["v"], "_basis_" + fam, bad)
        G = np.array(impl["G"])
        nfn = len(G)
        if fam == "legendre":
            want = np.diag([2.0 / (2 * k_ + 1) for k_ in range(nfn)])
        else:
            want = np.eye(nfn)
        err = np.abs(G - want).max() if nfn else 0.0
        if err > 1e-9:
            i, j = np.unravel_index(np.abs(G - want).argmax(), G.shape)
            bad("orthogonal", f"{fam}: <f{i},f{j}> = {G[i, j]!r}, expected {want[i, j]!r}", "_basis_" + fam)
    elif kind == "basis2":
        n1, n2 = case["n"]
        m1, m2 = len(case["x1"]), len(case["x2"])
        if impl["shape"] != [n1 * n2, m1, m2]:
            bad("shape", f"shape {impl['shape']} vs {[n1 * n2, m1, m2]}", "Basis")
            return vs
        if "marg_raw" in impl:
            _oracle_marginals(case["fam"], case["n"], [case["x1"], case["x2"]], case["add"], impl["marg_raw"], "Basis", bad,
                              f"degree={case.get('p')}, domain={'explicit' if 'dmin' in case else 'default'}")
        V = np.array(impl["v"]).reshape(n1 * n2, m1, m2)
        A, B = np.array(impl["m1"]), np.array(impl["m2"])
        want = np.einsum("ia,jb->ijab", A, B).reshape(n1 * n2, m1, m2)
        if not np.allclose(V, want, rtol=1e-14, atol=1e-300, equal_nan=True):
            f, a_, b_ = np.unravel_index(np.abs(V - want).argmax(), V.shape)
            bad("tensor_row_major", f"values[{f},{a_},{b_}] = {V[f, a_, b_]!r} but V1[{f // n2},{a_}]·V2[{f % n2},{b_}] = {want[f, a_, b_]!r}", "Basis")
    elif kind == "basis3":
        ns, ms = case["n"], [len(x) for x in case["x3"]]
        if impl["shape"] != [int(np.prod(ns))] + ms:
            bad("shape", f"shape {impl['shape']} vs {[int(np.prod(ns))] + ms}", "Basis")
            return vs
        _oracle_marginals(case["fam"], ns, case["x3"], case["add"], impl["marg_raw"], "Basis", bad,
                          f"degree={case.get('p')}, domain={'explicit' if 'dmin' in case else 'default'}")
        V = np.array(impl["v"])
        want = _tensor([np.array(m_) for m_ in impl["marg"]]).reshape(V.shape[0], -1)
        if not np.allclose(V, want, rtol=1e-14, atol=1e-300, equal_nan=True):
            f, t = np.unravel_index(np.nanargmax(np.abs(V - want)), V.shape)
            i, j, k = f // (ns[1] * ns[2]), f // ns[2] % ns[1], f % ns[2]
            a, b_, c_ = t // (ms[1] * ms[2]), t // ms[2] % ms[1], t % ms[2]
            bad("tensor_row_major", f"3-D basis (families {case['fam']}, sizes {ns}): values[{f},{a},{b_},{c_}] = {V[f, t]!r} but "
                f"V1[{i},{a}]·V2[{j},{b_}]·V3[{k},{c_}] = {want[f, t]!r}", "Basis")
    elif kind == "multi":
        comps = case["comps"]
        if impl["n_functional"] != len(comps):
            bad("shape", f"MultivariateBasis has {impl['n_functional']} components, expected {len(comps)}", "MultivariateBasis")
            return vs
        opts = f"degree={case.get('p')}, domain={'explicit' if 'dmin' in case else 'default'}, is_normalized={case['norm']}, add_intercept={case['add']}"
        for ci, c in enumerate(comps):
            _oracle_marginals(c["fam"], c["n"], c["x"], case["add"], impl["marg_raw"][ci], "MultivariateBasis", bad, opts)
            V = np.array(impl["comp"][ci])
            want_shape = [int(np.prod(c["n"]))] + [len(x) for x in c["x"]]
            if impl["shapes"][ci] != want_shape:
                bad("shape", f"component {ci} has shape {impl['shapes'][ci]}, expected {want_shape}", "MultivariateBasis")
                break
            # every option must reach the component: same as Basis(...) with the same arguments
            if not np.array_equal(V, np.array(impl["direct"][ci]), equal_nan=True):
                bad("options_forwarded", f"component {ci} (name {c['fam']}) of MultivariateBasis differs from Basis(...) built with the same arguments ({opts})", "MultivariateBasis")
                break
            mg = [np.array(m_) for m_ in impl["marg"][ci]]
            want = _tensor(mg).reshape(V.shape[0], -1)
            if not np.allclose(V, want, rtol=1e-14, atol=1e-300, equal_nan=True):
                bad("tensor_row_major", f"component {ci} (name {c['fam']}) is not the (tensor product of the) marginal famil(y/ies) evaluated with the same options ({opts})", "MultivariateBasis")
                break
            if "kl" in impl and not np.array_equal(V, np.array(impl["kl"][ci]), equal_nan=True):
                bad("options_forwarded", f"KarhunenLoeve(basis_name=[...], ...).basis component {ci} differs from MultivariateBasis with the same arguments ({opts})", "KarhunenLoeve")
                break
            # exact Cox-de Boor evaluation of the B-spline marginals under the requested degree / domain
            if not case["norm"]:
                for f, n, x, m_ in zip(c["fam"], c["n"], c["x"], impl["marg"][ci]):
                    if f == "bsplines":
                        xs = _Fv(x)
                        a_, b_ = (F(case["dmin"]), F(case["dmax"])) if "dmin" in case else (min(xs), max(xs))
                        p_ = case["p"] if case.get("p") is not None else 3
                        _oracle_bs(m_, xs, a_, b_, n if case["add"] else n + 1, p_, "_simulate_basis", bad, row0=0 if case["add"] else 1)
        if "kl_error" in impl:
            bad("runs", f"KarhunenLoeve with a list of basis names fails: {impl['kl_error']}", "KarhunenLoeve")
    elif kind == "reject":
        if case["which"] == "name" and impl["result"] != "error:NotImplementedError":
            bad("reject", f"unknown family {case['fam']!r} gives {impl['result']}", "_simulate_basis")
        if case["which"] != "name" and impl["result"] == "finite":
            bad("reject", "degenerate B-spline configuration returns finite values", "_basis_bsplines")
    return vs


def nontrivial(case, impl):
    for k in ("x", "x1"):
        if k in case and len(case[k]) < 3:
            return None
    return digest(case)


def classify(case, impl):
    tags = ["kind:" + case["kind"]]
    if "fam" in case:
        tags.append("family:" + (case["fam"] if isinstance(case["fam"], str) else "x".join(case["fam"])))
    if case["kind"] == "simedge":
        tags.append(f"boundary:n-degree={case['n'] - case['p']:+d},intercept={case['add']},degree-passed={case['pass_degree']}")
        if impl and "result" in impl:
            tags.append("boundary-result:" + impl["result"].split(":")[0])
    if case["kind"] == "basis3":
        tags.append("basis3:" + "x".join(case["fam"]))
    if case["kind"] == "multi":
        tags.append("multi:dims=" + "+".join(str(len(c["n"])) for c in case["comps"]))
        tags.append(f"multi:degree={case.get('p')},domain={'explicit' if 'dmin' in case else 'default'}")
    if case.get("scale"):
        tags.append("domain-scale:tiny-or-offset(structured)")
    if case["kind"] == "shared":
        tags.append("shared:" + case["scenario"])
    if case.get("foreign"):
        tags.append("foreign-options:" + "+".join(sorted(case["foreign"])))
    if case.get("xdtype"):
        tags.append("grid-dtype:" + case["xdtype"])
    elif case.get("structured"):
        tags.append("grid:open-or-sub-interval(structured)")
    if case.get("labels"):
        tags.append("labels:not-in-sorted-order")
    if case.get("iso"):
        tags.append("2d-isotropic-equal-length-different-grids")
    if "p" in case and case["kind"] in ("bs", "sim"):
        tags.append(f"degree:{case['p']}")
    if case["kind"] == "bs":
        nf = case["nfun"]
        tags.append("nfun:" + ("p+1" if nf == case["p"] + 1 else "<=10" if nf <= 10 else "<=24" if nf <= 24 else "25-40"))
        a, b = F(case["dmin"]), F(case["dmax"])
        xs = _Fv(case["x"])
        tags.append("outside-domain" if (xs[0] < a or xs[-1] > b) else "inside-domain")
        h = (b - a) / (nf - case["p"])
        tags.append("h-dyadic" if (h.denominator & (h.denominator - 1)) == 0 else "h-non-dyadic")
    if case["kind"] == "reject" and impl and "result" in impl:
        tags.append("reject:" + case["which"] + ":" + impl["result"])
    return tags


def extra_coverage(cases, impls, models):
    return dict(translator=TRANSLATOR_NOTE, bspline_max_error_in_tolerance_units=round(_CAL["max_ratio"], 3),
                bspline_tolerance="64·eps·(1+p·max|domain|/h)·max(1,Σ|terms|) (the unit above is the same expression without the 64)")
