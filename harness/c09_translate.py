"""Translator for C09 / C10: the bookkeeping of the estimators and transformations

  FDApy/misc/utils.py                      _estimate_noise_variance
  FDApy/representation/functional_data.py  DenseFunctionalData.{noise_variance, mean, covariance, center, standardize, rescale, normalize},
                                           IrregularFunctionalData.noise_variance, MultivariateFunctionalData.noise_variance

-> lean/FDAModel/Generated/StatsFormulas.lean (`FDA.Generated.noiseFormulas : NoiseConsts`, `covFormulas : CovConsts`,
`transformFormulas : TransformConsts`).

It maps SYNTAX only (literals, comparison operators, `.T`, keyword arguments, which name is subtracted / divided, whether
`order` / `**kwargs` is passed on); it does no arithmetic beyond normalising `<= k` to `< k + 1`.  `C09.source_noise_formulas`,
`C09.source_cov_formulas` and `C10.source_transform_formulas` then prove that what the source says today is what the hand-written
model uses; `C09.coded_*` / `C10.coded_*` that the formulas written with those constants are the model's definitions.

A source whose shape is not recognised raises `Shape`: no alarm; the caller falls back on the reference translation stored
beside this file (`c09_statsformulas_reference.lean`).
"""
import ast


class Shape(ValueError):
    pass


def _name(n, ident):
    return isinstance(n, ast.Name) and n.id == ident


def _attr(n, base, attr):
    return isinstance(n, ast.Attribute) and n.attr == attr and _name(n.value, base)


def _np(n, *attrs):
    return (isinstance(n, ast.Call) and isinstance(n.func, ast.Attribute) and n.func.attr in attrs
            and isinstance(n.func.value, ast.Name) and n.func.value.id in ("np", "numpy"))


def _int(n):
    if isinstance(n, ast.UnaryOp) and isinstance(n.op, ast.USub):
        return -_int(n.operand)
    if isinstance(n, ast.Constant) and isinstance(n.value, (int, float)) and not isinstance(n.value, bool) and float(n.value).is_integer():
        return int(n.value)
    raise Shape(f"integer literal expected: {ast.unparse(n)}")


def _func(tree, name, cls=None):
    scope = tree.body
    if cls:
        c = [n for n in tree.body if isinstance(n, ast.ClassDef) and n.name == cls]
        if len(c) != 1:
            raise Shape(f"class {cls}")
        scope = c[0].body
    f = [n for n in scope if isinstance(n, ast.FunctionDef) and n.name == name]
    if len(f) != 1:
        raise Shape(f"function {name}")
    return f[0]


def _body(f):
    """statements without the docstring"""
    return [s for s in f.body if not (isinstance(s, ast.Expr) and isinstance(s.value, ast.Constant) and isinstance(s.value.value, str))]


def _assign(body, name):
    """the single top-level assignment to `name`"""
    v = [s.value for s in body if isinstance(s, ast.Assign) and len(s.targets) == 1 and _name(s.targets[0], name)]
    if len(v) != 1:
        raise Shape(f"single assignment to {name}")
    return v[0]


def _plus(n, ident):
    """`ident` -> 0, `ident + k` / `k + ident` -> k, `ident - k` -> -k"""
    if _name(n, ident):
        return 0
    if isinstance(n, ast.BinOp) and isinstance(n.op, (ast.Add, ast.Sub)):
        sign = 1 if isinstance(n.op, ast.Add) else -1
        if isinstance(n.left, (ast.Name, ast.BinOp)) and not isinstance(n.right, (ast.Name,)):
            return _plus(n.left, ident) + sign * _int(n.right)
        if isinstance(n.op, ast.Add) and _name(n.right, ident):
            return _int(n.left)
    raise Shape(f"{ident} + k expected: {ast.unparse(n)}")


def _len_of(n, ident):
    return isinstance(n, ast.Call) and _name(n.func, "len") and len(n.args) == 1 and _name(n.args[0], ident)


def _kw(call):
    return {k.arg: k.value for k in call.keywords}


def _reduce(call):
    """np.nanmean / np.mean -> True, np.nansum / np.sum / sum -> False"""
    if _np(call, "nanmean", "mean"):
        return True
    if _np(call, "nansum", "sum") or (isinstance(call, ast.Call) and _name(call.func, "sum")):
        return False
    raise Shape(f"reduction: {ast.unparse(call)[:60]}")


def _passes(call, pos, name):
    """does `call` pass the variable `name` on (positionally at `pos` or as keyword `name=name`)?"""
    if len(call.args) > pos and _name(call.args[pos], name):
        return True
    kw = _kw(call)
    if name in kw:
        if _name(kw[name], name):
            return True
        raise Shape(f"{name}= is passed something else: {ast.unparse(kw[name])}")
    if len(call.args) > pos:
        raise Shape(f"argument {pos} of {ast.unparse(call.func)} is not {name}")
    return False


# --------------------------------------------------------------------------

def parse_noise(utils_tree, fd_tree):
    out = {}
    f = _func(utils_tree, "_estimate_noise_variance")
    b = _body(f)
    if len(b) != 4 or not isinstance(b[0], ast.If) or not isinstance(b[1], ast.If) or not isinstance(b[3], ast.Return):
        raise Shape("_estimate_noise_variance: guard, guard, weights, return expected")
    # if order < 1 or order > 10: raise ValueError(...)
    t = b[0].test
    if not (isinstance(t, ast.BoolOp) and isinstance(t.op, ast.Or) and len(t.values) == 2):
        raise Shape("order guard")
    for cmp_ in t.values:
        if not (isinstance(cmp_, ast.Compare) and len(cmp_.ops) == 1 and _name(cmp_.left, "order")):
            raise Shape("order guard comparison")
        k = _int(cmp_.comparators[0])
        op = cmp_.ops[0]
        if isinstance(op, ast.Lt):
            out["orderLo"] = k
        elif isinstance(op, ast.LtE):
            out["orderLo"] = k + 1
        elif isinstance(op, ast.Gt):
            out["orderHi"] = k
        elif isinstance(op, ast.GtE):
            out["orderHi"] = k - 1
        else:
            raise Shape("order guard operator")
    if "orderLo" not in out or "orderHi" not in out:
        raise Shape("order guard bounds")
    r = b[0].body
    if not (len(r) == 1 and isinstance(r[0], ast.Raise) and isinstance(r[0].exc, ast.Call) and isinstance(r[0].exc.func, ast.Name)):
        raise Shape("order guard raise")
    out["guardError"] = r[0].exc.func.id
    # if len(x) < order + 1: return 0
    t = b[1].test
    if not (isinstance(t, ast.Compare) and len(t.ops) == 1 and _len_of(t.left, "x")):
        raise Shape("short-curve guard")
    k = _plus(t.comparators[0], "order")
    if isinstance(t.ops[0], ast.LtE):
        k += 1
    elif not isinstance(t.ops[0], ast.Lt):
        raise Shape("short-curve guard operator")
    if k < 0:
        raise Shape("short-curve guard offset")
    out["shortPlus"] = k
    r = b[1].body
    if not (len(r) == 1 and isinstance(r[0], ast.Return)):
        raise Shape("short-curve return")
    out["shortValue"] = _int(r[0].value)
    # weights = DIFF_SEQUENCES.get(order) / DIFF_SEQUENCES[order]
    if not (isinstance(b[2], ast.Assign) and _name(b[2].targets[0], "weights") and "DIFF_SEQUENCES" in ast.unparse(b[2].value) and "order" in ast.unparse(b[2].value)):
        raise Shape("weights = DIFF_SEQUENCES.get(order)")
    # return np.nanmean([np.matmul(weights, x[idx : idx + order + 1]) ** 2 for idx in range(len(x) - order)])
    v = b[3].value
    out["reduceMean"] = _reduce(v)
    if not (len(v.args) == 1 and isinstance(v.args[0], (ast.ListComp, ast.GeneratorExp)) and len(v.args[0].generators) == 1):
        raise Shape("comprehension over the windows")
    comp = v.args[0]
    e = comp.elt
    if isinstance(e, ast.BinOp) and isinstance(e.op, ast.Pow):
        out["power"], e = _int(e.right), e.left
    elif _np(e, "square") and len(e.args) == 1:
        out["power"], e = 2, e.args[0]
    elif _np(e, "power") and len(e.args) == 2:
        out["power"], e = _int(e.args[1]), e.args[0]
    else:
        out["power"] = 1
    if _np(e, "matmul", "dot", "inner", "vdot") and len(e.args) == 2:
        w, sl = e.args
    elif isinstance(e, ast.BinOp) and isinstance(e.op, ast.MatMult):
        w, sl = e.left, e.right
    else:
        raise Shape("weights applied to the window")
    if _name(sl, "weights"):
        w, sl = sl, w
    if not (_name(w, "weights") and isinstance(sl, ast.Subscript) and _name(sl.value, "x") and isinstance(sl.slice, ast.Slice) and sl.slice.step is None):
        raise Shape("window slice")
    g = comp.generators[0]
    if not (isinstance(g.target, ast.Name) and not g.ifs and isinstance(g.iter, ast.Call) and _name(g.iter.func, "range") and len(g.iter.args) == 1):
        raise Shape("range over the windows")
    idx = g.target.id
    if not _name(sl.slice.lower, idx):
        raise Shape("window start")
    up = sl.slice.upper
    if not (isinstance(up, ast.BinOp) and isinstance(up.op, ast.Add)):
        raise Shape("window end")
    # idx + order + k  (any association)
    txt = ast.unparse(up).replace(" ", "").replace("(", "").replace(")", "")
    parts = txt.split("+")
    if sorted(p for p in parts if not p.lstrip("-").isdigit()) != sorted([idx, "order"]):
        raise Shape(f"window end: {txt}")
    out["windowPlus"] = sum(int(p) for p in parts if p.lstrip("-").isdigit())
    n = g.iter.args[0]
    if not (isinstance(n, ast.BinOp) and isinstance(n.op, ast.Sub)):
        raise Shape("number of windows")
    if _len_of(n.left, "x"):
        d = -_plus(n.right, "order") if not _name(n.right, "order") else 0
        out["nWindowsMinus"] = -d
    elif isinstance(n.left, ast.BinOp) and isinstance(n.left.op, ast.Sub) and _len_of(n.left.left, "x") and _name(n.left.right, "order"):
        out["nWindowsMinus"] = _int(n.right)
    else:
        raise Shape("number of windows")
    if out["nWindowsMinus"] < 0 or out["windowPlus"] < 0:
        raise Shape("negative offsets")

    # ---- DenseFunctionalData.noise_variance
    b = _body(_func(fd_tree, "noise_variance", "DenseFunctionalData"))
    if not (len(b) == 2 and isinstance(b[0], ast.If) and isinstance(b[1], ast.Return)):
        raise Shape("Dense.noise_variance")
    rets = [s for s in b[0].body if isinstance(s, ast.Return)]
    if len(rets) != 1:
        raise Shape("Dense.noise_variance: value for dimension > 1")
    out["dim2Value"] = _int(rets[0].value)
    v = b[1].value
    out["denseMeanOverCurves"] = _reduce(v)
    if not (len(v.args) == 1 and isinstance(v.args[0], (ast.ListComp, ast.GeneratorExp))):
        raise Shape("Dense.noise_variance comprehension")
    comp = v.args[0]
    c = comp.elt
    if not (isinstance(c, ast.Call) and _name(c.func, "_estimate_noise_variance") and _name(comp.generators[0].iter, "self") and not comp.generators[0].ifs):
        raise Shape("Dense.noise_variance: per-curve estimator over all curves")
    out["denseForwardsOrder"] = _passes(c, 1, "order")
    # ---- IrregularFunctionalData.noise_variance
    b = _body(_func(fd_tree, "noise_variance", "IrregularFunctionalData"))
    if not (len(b) == 3 and isinstance(b[2], ast.Return)):
        raise Shape("Irregular.noise_variance")
    comp = _assign(b, "variances")
    if not (isinstance(comp, ast.ListComp) and isinstance(comp.elt, ast.Call) and _name(comp.elt.func, "_estimate_noise_variance")
            and not comp.generators[0].ifs and "self" in ast.unparse(comp.generators[0].iter)):
        raise Shape("Irregular.noise_variance comprehension over all curves")
    a0 = comp.elt.args[0] if comp.elt.args else None
    out["irregularStripsNaN"] = (isinstance(a0, ast.Subscript) and isinstance(a0.slice, ast.UnaryOp) and isinstance(a0.slice.op, ast.Invert)
                                 and _np(a0.slice.operand, "isnan"))
    out["irregularForwardsOrder"] = _passes(comp.elt, 1, "order")
    v = b[2].value
    out["irregularMeanOverCurves"] = _reduce(v)
    if not (len(v.args) == 1 and _name(v.args[0], "variances")):
        raise Shape("Irregular.noise_variance reduction")
    # ---- MultivariateFunctionalData.noise_variance
    b = _body(_func(fd_tree, "noise_variance", "MultivariateFunctionalData"))
    if not (len(b) == 1 and isinstance(b[0], ast.Return) and isinstance(b[0].value, ast.ListComp)):
        raise Shape("Multivariate.noise_variance")
    comp = b[0].value
    c = comp.elt
    it = ast.unparse(comp.generators[0].iter)
    out["multiComponentwise"] = (isinstance(c, ast.Call) and isinstance(c.func, ast.Attribute) and c.func.attr == "noise_variance"
                                 and it in ("self.data", "self") and not comp.generators[0].ifs)
    if not out["multiComponentwise"]:
        raise Shape("Multivariate.noise_variance comprehension")
    out["multiForwardsOrder"] = _passes(c, 0, "order")
    return out


def parse_cov(fd_tree):
    out = {}
    b = _body(_func(fd_tree, "mean", "DenseFunctionalData"))
    v = _assign(b, "mean_estim")
    if isinstance(v, ast.Call) and isinstance(v.func, ast.Attribute) and v.func.attr == "mean" and _attr(v.func.value, "self", "values"):
        kw = _kw(v)
        ax = kw.get("axis", v.args[0] if v.args else None)
    elif _np(v, "mean") and v.args and _attr(v.args[0], "self", "values"):
        kw = _kw(v)
        ax = kw.get("axis", v.args[1] if len(v.args) > 1 else None)
    else:
        raise Shape("mean_estim")
    if ax is None:
        raise Shape("mean without axis")
    out["meanAxis"] = _int(ax)
    f = _func(fd_tree, "covariance", "DenseFunctionalData")
    names = [a.arg for a in f.args.args]
    if "center" not in names:
        raise Shape("covariance(center=…)")
    dflt = f.args.defaults[names.index("center") - (len(names) - len(f.args.defaults))]
    if not (isinstance(dflt, ast.Constant) and isinstance(dflt.value, bool)):
        raise Shape("default of center")
    out["centerDefault"] = dflt.value
    b = _body(f)
    covs = [s.value for s in b if isinstance(s, ast.Assign) and len(s.targets) == 1 and _name(s.targets[0], "cov")]
    if len(covs) != 2:
        raise Shape("two top-level assignments to cov (estimate, symmetrisation)")
    est, sym = covs
    if not (isinstance(est, ast.BinOp) and isinstance(est.op, ast.Div)):
        raise Shape("cov = … / (n_obs - d)")
    p, den = est.left, est.right
    if _np(p, "dot", "matmul") and len(p.args) == 2:
        l, r = p.args
    elif isinstance(p, ast.BinOp) and isinstance(p.op, ast.MatMult):
        l, r = p.left, p.right
    else:
        raise Shape("cross-product")

    def side(n):
        if isinstance(n, ast.Attribute) and n.attr == "T" and _attr(n.value, "data", "values"):
            return True
        if _attr(n, "data", "values"):
            return False
        raise Shape(f"operand of the cross-product: {ast.unparse(n)}")

    out["leftTransposed"], out["rightTransposed"] = side(l), side(r)
    if _attr(den, "self", "n_obs"):
        out["ddof"] = 0
    elif isinstance(den, ast.BinOp) and isinstance(den.op, ast.Sub) and _attr(den.left, "self", "n_obs"):
        out["ddof"] = _int(den.right)
    else:
        raise Shape("divisor of the covariance")
    if out["ddof"] < 0:
        raise Shape("ddof")
    if not (isinstance(sym, ast.BinOp) and isinstance(sym.op, ast.Div) and isinstance(sym.left, ast.BinOp) and isinstance(sym.left.op, ast.Add)):
        raise Shape("symmetrisation")
    a, c = sym.left.left, sym.left.right
    isT = lambda n: isinstance(n, ast.Attribute) and n.attr == "T" and _name(n.value, "cov")  # noqa: E731
    if (_name(a, "cov") and isT(c)) or (isT(a) and _name(c, "cov")):
        out["symAddsTranspose"] = True
    elif _name(a, "cov") and _name(c, "cov"):
        out["symAddsTranspose"] = False
    else:
        raise Shape("symmetrisation operands")
    out["symDivisor"] = _int(sym.right)
    if out["symDivisor"] < 0:
        raise Shape("symmetrisation divisor")
    return out


def parse_transform(fd_tree):
    out = {}
    # ---- center: DenseFunctionalData(…, DenseValues(self.values - data_mean.values))
    b = _body(_func(fd_tree, "center", "DenseFunctionalData"))
    if not isinstance(b[-1], ast.Return):
        raise Shape("center return")
    subs = [n for n in ast.walk(b[-1]) if isinstance(n, ast.BinOp) and isinstance(n.op, (ast.Sub, ast.Add))]
    if len(subs) != 1:
        raise Shape("center: one difference expected")
    s = subs[0]
    out["centerSubtractsMean"] = isinstance(s.op, ast.Sub) and _attr(s.left, "self", "values") and _attr(s.right, "data_mean", "values")
    if not out["centerSubtractsMean"] and not (_attr(s.left, "self", "values") or _attr(s.right, "self", "values")):
        raise Shape("center operands")
    # ---- standardize
    b = _body(_func(fd_tree, "standardize", "DenseFunctionalData"))
    v = _assign(b, "std")
    if _np(v, "std", "nanstd") and v.args:
        arg, kw = v.args[0], _kw(v)
        ax = kw.get("axis", v.args[1] if len(v.args) > 1 else None)
    elif isinstance(v, ast.Call) and isinstance(v.func, ast.Attribute) and v.func.attr == "std":
        arg, kw = v.func.value, _kw(v)
        ax = kw.get("axis", v.args[0] if v.args else None)
    else:
        raise Shape("std = np.std(…)")
    if _attr(arg, "self", "values"):
        out["stdOfInput"] = True
    elif _attr(arg, "fdata", "values"):
        out["stdOfInput"] = False
    else:
        raise Shape("argument of np.std")
    if ax is None:
        raise Shape("np.std without axis")
    out["stdAxis"] = _int(ax)
    out["stdDdof"] = _int(kw["ddof"]) if "ddof" in kw else 0
    v = _assign(b, "new_values")
    if not (_np(v, "divide", "true_divide") and len(v.args) == 2):
        raise Shape("new_values = np.divide(…)")
    out["stdDividesData"] = _attr(v.args[0], "fdata", "values") and _name(v.args[1], "std")
    if not out["stdDividesData"]:
        raise Shape("operands of np.divide")
    kw = _kw(v)
    out["stdOutZeros"] = "out" in kw and (_np(kw["out"], "zeros_like", "zeros"))
    if "out" in kw and not out["stdOutZeros"]:
        raise Shape("out= buffer")
    g = kw.get("where")
    if g is None:
        raise Shape("np.divide without where=")
    out["stdGuardExact"] = _exact_nonzero(g, "std")
    # ---- rescale
    b = _body(_func(fd_tree, "rescale", "DenseFunctionalData"))
    ifs = [s for s in b if isinstance(s, ast.If)]
    if len(ifs) != 1:
        raise Shape("rescale: one test of the weights")
    t = ifs[0].test
    if isinstance(t, ast.Compare) and len(t.ops) == 1 and _name(t.left, "weights") and isinstance(t.ops[0], ast.Eq) and _int(t.comparators[0]) == 0:
        out["weightTestExactZero"] = True
    elif _np(t, "isclose", "allclose") or (isinstance(t, ast.Compare) and _name(t.left, "weights") or "abs" in ast.unparse(t)):
        out["weightTestExactZero"] = False
    else:
        raise Shape("test of the weights")
    v = _assign(ifs[0].body, "variance")
    if _np(v, "var", "nanvar") and v.args and _attr(v.args[0], "self", "values"):
        kw = _kw(v)
        ax = kw.get("axis", v.args[1] if len(v.args) > 1 else None)
    elif isinstance(v, ast.Call) and isinstance(v.func, ast.Attribute) and v.func.attr == "var" and _attr(v.func.value, "self", "values"):
        kw = _kw(v)
        ax = kw.get("axis", v.args[0] if v.args else None)
    else:
        raise Shape("variance = np.var(self.values, …)")
    if ax is None:
        raise Shape("np.var without axis")
    out["varAxis"] = _int(ax)
    out["varDdof"] = _int(kw["ddof"]) if "ddof" in kw else 0
    w = _assign(ifs[0].body, "weights")
    if not (isinstance(w, ast.Call) and _name(w.func, "_integrate") and w.args and _name(w.args[0], "variance")):
        raise Shape("weights = _integrate(variance, …)")
    v = _assign(b, "new_data")
    if not (isinstance(v, ast.BinOp) and isinstance(v.op, ast.Div) and _name(v.left, "self")):
        raise Shape("new_data = self / …")
    d = v.right

    def strip(n):
        while isinstance(n, ast.Call) and _name(n.func, "float") and len(n.args) == 1:
            n = n.args[0]
        return n

    d = strip(d)
    if _np(d, "sqrt") and _name(strip(d.args[0]), "weights"):
        out["rescaleDividesBySqrt"] = True
    elif isinstance(d, ast.BinOp) and isinstance(d.op, ast.Pow) and _name(strip(d.left), "weights") and ast.unparse(d.right) in ("0.5", "1 / 2"):
        out["rescaleDividesBySqrt"] = True
    elif _name(d, "weights"):
        out["rescaleDividesBySqrt"] = False
    else:
        raise Shape("divisor of rescale")
    r = b[-1]
    out["rescaleReturnsWeights"] = (isinstance(r, ast.Return) and isinstance(r.value, ast.Tuple) and len(r.value.elts) == 2
                                    and _name(r.value.elts[0], "new_data") and _name(r.value.elts[1], "weights"))
    if not out["rescaleReturnsWeights"]:
        raise Shape("return of rescale")
    # ---- normalize
    b = _body(_func(fd_tree, "normalize", "DenseFunctionalData"))
    v = _assign(b, "norm")
    if not (isinstance(v, ast.BinOp) and isinstance(v.op, (ast.Div, ast.Mult))):
        raise Shape("norm = values / self.norm(…)")
    c = v.right
    if not (isinstance(c, ast.Call) and isinstance(c.func, ast.Attribute) and c.func.attr == "norm" and _name(c.func.value, "self")):
        raise Shape("self.norm(…)")
    out["normalizeDividesByNorm"] = isinstance(v.op, ast.Div) and "self.values" in ast.unparse(v.left)
    out["normalizeForwardsOptions"] = any(k.arg is None and _name(k.value, "kwargs") for k in c.keywords)
    return out


def _exact_nonzero(g, ident):
    """`std != 0`, `std != 0.0`, `~(std == 0)`, `std > 0` (a standard deviation is never negative) -> True;
    any other recognisable guard on `std` -> False"""
    if isinstance(g, ast.UnaryOp) and isinstance(g.op, ast.Invert):
        inner = g.operand
        if isinstance(inner, ast.Compare) and len(inner.ops) == 1 and isinstance(inner.ops[0], ast.Eq) and _name(inner.left, ident):
            return _is_zero(inner.comparators[0])
        raise Shape("guard")
    if isinstance(g, ast.Compare) and len(g.ops) == 1 and _name(g.left, ident):
        if isinstance(g.ops[0], (ast.NotEq, ast.Gt)) and _is_zero(g.comparators[0]):
            return True
        return False
    if _name(g, "not_null") or isinstance(g, (ast.Name, ast.Call, ast.BinOp)):
        return False
    raise Shape("guard")


def _is_zero(n):
    return isinstance(n, ast.Constant) and isinstance(n.value, (int, float)) and not isinstance(n.value, bool) and n.value == 0


def parse(utils_path, fd_path):
    ut = ast.parse(open(utils_path).read())
    ft = ast.parse(open(fd_path).read())
    return dict(noise=parse_noise(ut, ft), cov=parse_cov(ft), transform=parse_transform(ft))


NOISE_FIELDS = ["orderLo", "orderHi", "guardError", "shortPlus", "shortValue", "windowPlus", "nWindowsMinus", "power", "reduceMean",
                "denseMeanOverCurves", "denseForwardsOrder", "dim2Value", "irregularStripsNaN", "irregularMeanOverCurves",
                "irregularForwardsOrder", "multiComponentwise", "multiForwardsOrder"]
COV_FIELDS = ["meanAxis", "leftTransposed", "rightTransposed", "ddof", "centerDefault", "symAddsTranspose", "symDivisor"]
TRANSFORM_FIELDS = ["centerSubtractsMean", "stdOfInput", "stdAxis", "stdDdof", "stdDividesData", "stdGuardExact", "stdOutZeros",
                    "weightTestExactZero", "varAxis", "varDdof", "rescaleDividesBySqrt", "rescaleReturnsWeights",
                    "normalizeDividesByNorm", "normalizeForwardsOptions"]


def _lit(v):
    if isinstance(v, bool):
        return "true" if v else "false"
    if isinstance(v, int):
        return str(v) if v >= 0 else f"({v})"
    return '"' + str(v).replace('"', "") + '"'


def lean_source(x):
    def rec(d, fields):
        missing = [f for f in fields if f not in d]
        if missing:
            raise Shape(f"fields not translated: {missing}")
        return "{ " + ", ".join(f"{f} := {_lit(d[f])}" for f in fields) + " }"

    return f"""/- GENERATED by harness/c09_translate.py from FDApy/misc/utils.py (_estimate_noise_variance) and
FDApy/representation/functional_data.py (noise_variance, mean, covariance, center, standardize, rescale, normalize) — do not edit. -/
import FDAModel.StatsConsts
namespace FDA.Generated
/-- `_estimate_noise_variance` and the three `noise_variance` methods, as written in the source. -/
def noiseFormulas : FDA.NoiseConsts :=
  {rec(x['noise'], NOISE_FIELDS)}
/-- `DenseFunctionalData.mean` / `.covariance` without smoothing, as written in the source. -/
def covFormulas : FDA.CovConsts :=
  {rec(x['cov'], COV_FIELDS)}
/-- `DenseFunctionalData.center / standardize / rescale / normalize`, as written in the source. -/
def transformFormulas : FDA.TransformConsts :=
  {rec(x['transform'], TRANSFORM_FIELDS)}
end FDA.Generated
"""
