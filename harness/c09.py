"""C09 — mean, covariance and noise variance are the textbook sample estimators.

Also hosts the project's one translator: `translate()` re-parses the literal
DIFF_SEQUENCES table of FDApy/misc/utils.py and writes
lean/FDAModel/Generated/DiffSeq.lean on every run.
"""
import ast
import math
import os
import warnings
from fractions import Fraction

import numpy as np

import common
from common import F, InfraError, Rng, close, close_all, fl, pmat, pvec, rs

PROP = "C09"
MODULES = ["FDAProofs.Props.C09"]
DRIVER = "Drivers/C09.lean"
PARALLEL = True
RULE = (
    "seeded structured cases: dense 1-D data (n_obs 2..12, 2..12 grid points, non-uniform dyadic grids, offsets up to 1e4, "
    "constant / collinear / duplicated curves) for mean and covariance (method None exact vs model; center in {T,F}; permutations; "
    "affine maps), 2-D dense means, LP/PS-smoothed covariances on uniform grids with the smoother output captured "
    "(symmetrise + support), noise variance for orders -1..12, lengths order-1..order+6, offsets up to 1e6, scalings, "
    "permutations, irregular (per-curve points and NaN encodings) and 2-D data, the DIFF_SEQUENCES table itself; "
    "a case is non-trivial when the data are not all equal; distinct by content hash"
)
PARTIAL = [
    "the LP / P-spline smoothers are parameters (any function) of the modelled covariance procedure: their output is captured; what is modelled and compared around them: "
    "centring with the smoothed mean, the training set of the LP smoother (off-diagonal entries, row-major), symmetrisation, support, location-consistency across requests",
    "the training data of the P-spline branch (zero diagonal, weights computed before the diagonal is zeroed) are modelled and proved about, but not captured in the correspondence",
    "the local-linear smooth of the raw diagonal inside _estimate_noise_variance_with_covariance is a parameter (recomputed with the real LocalPolynomial)",
    "irregular covariance: the pooling / counting of co-observed pairs is modelled exactly (smooth=False); the smoothed mean subtracted by center=True is a parameter",
    "'numerically unchanged under offsets' is proved as the explicit bound |c| s (2 r + |c| s), s = |sum d| <= 1e-4, r = sqrt(estimate); float rounding of the windows is only sampled",
]
TRUSTED_EXTRA = [
    "translator harness/c09.py:translate (ast parse of the DIFF_SEQUENCES literal, ~40 lines)",
    "translator harness/c09_translate.py (syntax only: literals, comparison operators, .T, keyword arguments, forwarded names of "
    "_estimate_noise_variance, noise_variance x3, mean, covariance -> Generated/StatsFormulas.lean; falls back on harness/c09_*_reference.lean "
    "when the source shape is not recognised)",
]

S_MAX = Fraction(1, 10000)  # proved bound on |sum d| (C09.diffSeq_table)
SSQ_TOL = Fraction(11, 100000)  # proved bound on |sum d^2 - 1|

GEN_FILE = os.path.join(common.LEAN_DIR, "FDAModel", "Generated", "DiffSeq.lean")


# --------------------------------------------------------------------------
# translator
# --------------------------------------------------------------------------

def parse_diff_sequences(path):
    """Literal value of the module-level `DIFF_SEQUENCES = {int: np.array([...]), ...}`;
    decimal literals are taken as written (exact rationals, not their float rounding)."""
    src = open(path).read()
    tree = ast.parse(src)

    def num(node):
        if isinstance(node, ast.UnaryOp) and isinstance(node.op, (ast.USub, ast.UAdd)):
            v = num(node.operand)
            return -v if isinstance(node.op, ast.USub) else v
        if isinstance(node, ast.Constant) and isinstance(node.value, (int, float)) and not isinstance(node.value, bool):
            return Fraction(ast.get_source_segment(src, node).replace("_", ""))
        raise ValueError(f"DIFF_SEQUENCES: unsupported literal at line {getattr(node, 'lineno', '?')}")

    for st in tree.body:
        targets = st.targets if isinstance(st, ast.Assign) else [st.target] if isinstance(st, ast.AnnAssign) else []
        if any(isinstance(t, ast.Name) and t.id == "DIFF_SEQUENCES" for t in targets):
            if not isinstance(st.value, ast.Dict):
                raise ValueError("DIFF_SEQUENCES is not a dict literal")
            table = {}
            for k, v in zip(st.value.keys, st.value.values):
                if not (isinstance(k, ast.Constant) and isinstance(k.value, int)):
                    raise ValueError("DIFF_SEQUENCES: non-integer key")
                if isinstance(v, ast.Call) and len(v.args) == 1 and not v.keywords:  # np.array([...])
                    v = v.args[0]
                if not isinstance(v, (ast.List, ast.Tuple)):
                    raise ValueError("DIFF_SEQUENCES: value is not np.array([...])")
                table[k.value] = [num(e) for e in v.elts]
            return table
    raise ValueError("DIFF_SEQUENCES not found")


def lean_source(table):
    def lit(q):
        return f"({q.numerator} : Rat)" if q.denominator == 1 else f"({q.numerator} : Rat) / {q.denominator}"

    lines = [
        "/-",
        "GENERATED by harness/c09.py `translate()` from FDApy/misc/utils.py (DIFF_SEQUENCES).",
        "Do not edit: regenerated on every run of `./check C09`.",
        "-/",
        "namespace FDA.Generated",
        "",
        "/-- `DIFF_SEQUENCES.get(order)`: the decimal literals of the source as exact rationals. -/",
        "def diffSeq : Nat → Option (List Rat)",
    ]
    for k in sorted(table):
        if k >= 0:
            lines.append(f"  | {k} => some [" + ", ".join(lit(q) for q in table[k]) + "]")
    lines += ["  | _ => none", "", "end FDA.Generated", ""]
    return "\n".join(lines)


HERE = os.path.dirname(os.path.abspath(__file__))
GEN_FORMULAS = os.path.join(common.LEAN_DIR, "FDAModel", "Generated", "StatsFormulas.lean")
REF_DIFFSEQ = os.path.join(HERE, "c09_diffseq_reference.lean")
REF_FORMULAS = os.path.join(HERE, "c09_statsformulas_reference.lean")
TRANSLATOR = {}


def _write_if_changed(path, src):
    if not os.path.exists(path) or open(path).read() != src:
        os.makedirs(os.path.dirname(path), exist_ok=True)
        with open(path, "w") as fh:
            fh.write(src)


def translate():
    """Regenerate Generated/DiffSeq.lean (the table) and Generated/StatsFormulas.lean (constants, operators, guards, axes of the
    estimators and transformations) from what the source says now.  An unrecognised source shape is NOT an alarm: the reference
    translation kept beside the translator is used (not what an earlier run left in Generated/), a note is printed and put into the
    evidence; only a successful translation can break `C09.diffSeq_table` / `C09.source_*` / `C10.source_transform_formulas`."""
    import c09_translate

    utils = os.path.join(common.REPO, "FDApy", "misc", "utils.py")
    fdpy = os.path.join(common.REPO, "FDApy", "representation", "functional_data.py")
    TRANSLATOR.clear()
    for key, ref, gen, run in (
        ("diffseq", REF_DIFFSEQ, GEN_FILE, lambda: lean_source(parse_diff_sequences(utils))),
        ("formulas", REF_FORMULAS, GEN_FORMULAS, lambda: _formulas(c09_translate, utils, fdpy)),
    ):
        try:
            src = run()
            TRANSLATOR.setdefault(key, "translated")
        except (ValueError, SyntaxError, IndexError, AttributeError, KeyError, TypeError) as e:
            TRANSLATOR[key] = f"translator: source shape not recognised ({str(e)[:120]}), tie rests on the correspondence only"
            print("note:", key, TRANSLATOR[key])
            src = open(ref).read()
        except OSError as e:
            raise InfraError(f"translator: cannot read the source: {e}")
        _write_if_changed(gen, src)


def _formulas(c09_translate, utils, fdpy):
    x = c09_translate.parse(utils, fdpy)
    TRANSLATOR["constants"] = x
    return c09_translate.lean_source(x)


def extra_coverage(cases, impls, models):
    return dict(translator=dict(TRANSLATOR, files=["lean/FDAModel/Generated/DiffSeq.lean", "lean/FDAModel/Generated/StatsFormulas.lean"],
                                theorems="C09.diffSeq_table, C09.source_noise_formulas, C09.source_cov_formulas, C09.coded_noise_window, "
                                         "C09.coded_order_guard, C09.coded_noise_dataset, C09.coded_cov"))


# --------------------------------------------------------------------------
# helpers
# --------------------------------------------------------------------------

def _Fv(v):
    return [F(x) for x in v]


def _Fm(m):
    return [[F(x) for x in r] for r in m]


def _S(m):
    return [[rs(x) for x in r] for r in m]


def _dense(t_list, X):
    """Dense data; an integer array keeps its integer dtype (DenseValues does not convert)."""
    from FDApy.representation.argvals import DenseArgvals
    from FDApy.representation.functional_data import DenseFunctionalData
    from FDApy.representation.values import DenseValues

    arg = DenseArgvals({f"input_dim_{k}": np.array(fl(t)) for k, t in enumerate(t_list)})
    X = np.asarray(X)
    # an int64 / float64 array is handed over AS IT IS (no copy: its memory layout is part of the input)
    return DenseFunctionalData(arg, DenseValues(X if X.dtype in (np.int64, np.float64) else np.array(X, dtype=float)))


def _layout(A, how):
    """The same numbers in another MEMORY LAYOUT (the logical array is unchanged): column-major, the transpose of a points x curves
    table, a strided slice of a finer table (every other column / row holds other numbers), negative strides."""
    A = np.asarray(A)
    if how in (None, "C"):
        return A
    if how == "F":
        return np.asfortranarray(A)
    if how == "T":
        return np.ascontiguousarray(A.T).T
    if how == "strided":
        fine = np.full(tuple(2 * n for n in A.shape), 1e6 if A.dtype.kind == "f" else 10 ** 6, dtype=A.dtype)
        fine[tuple(slice(None, None, 2) for _ in A.shape)] = A
        return fine[tuple(slice(None, None, 2) for _ in A.shape)]
    if how == "neg":
        rev = np.ascontiguousarray(A[tuple(slice(None, None, -1) for _ in A.shape)])
        return rev[tuple(slice(None, None, -1) for _ in A.shape)]
    raise ValueError(how)


LAYOUTS = ["F", "T", "strided", "neg"]


def _arr(case, M):
    """Exact rationals -> array; integer dtype when the case asks for it (counts, rounded measurements); memory layout of the case."""
    if case.get("int"):
        A = np.array([[int(F(x)) for x in r] for r in M], dtype=np.int64).reshape(len(M), -1)
    else:
        A = np.array(fl(_Fm(M)))
    return _layout(A, case.get("layout"))


def _num(case, q):
    return int(F(q)) if case.get("int") else float(F(q))


def _irregular(pts, vals, vorder=None):
    """Irregular data with labels 0..n-1.  `vorder`: the VALUES dictionary is filled in another key order than the ARGVALS
    dictionary ("reversed" / "rotated"; same key sets — the constructor accepts this)."""
    from FDApy.representation.argvals import DenseArgvals, IrregularArgvals
    from FDApy.representation.functional_data import IrregularFunctionalData
    from FDApy.representation.values import IrregularValues

    n = len(pts)
    arg = IrregularArgvals({i: DenseArgvals({"input_dim_0": np.array(p, dtype=float)}) for i, p in enumerate(pts)})
    keys = list(range(n))
    if vorder == "reversed":
        keys = keys[::-1]
    elif vorder == "rotated":
        keys = keys[1:] + keys[:1]
    val = IrregularValues({i: np.array(vals[i], dtype=float) for i in keys})
    return IrregularFunctionalData(arg, val)


def _call(f):
    try:
        with warnings.catch_warnings():
            warnings.simplefilter("ignore")
            return f()
    except Exception as e:  # noqa: BLE001
        return {"error": common.err_class(e), "msg": str(e)[:200]}


def _curves(rng: Rng, N, m, kind=None):
    kind = kind or rng.choice(["rand", "rand", "rand", "smooth", "const", "lowrank", "dup", "zerocol"])
    if kind == "const":
        row = rng.dyadics(m, -4, 4, 3)
        return [list(row) for _ in range(N)], kind
    if kind == "smooth":
        out = []
        for _ in range(N):
            a, b, c = rng.dyadic(-2, 2, 3), rng.dyadic(-2, 2, 3), rng.dyadic(-2, 2, 3)
            out.append([a + b * Fraction(j, m) + c * Fraction(j * j, m * m) for j in range(m)])
        return out, kind
    if kind == "lowrank":
        base = rng.dyadics(m, -3, 3, 3)
        return [[rng.dyadic(-2, 2, 2) * x for x in base] for _ in range(N)], kind
    X = [rng.dyadics(m, -8, 8, 4) for _ in range(N)]
    if kind == "dup" and N >= 2:
        X[-1] = list(X[0])
    if kind == "zerocol":
        j = rng.randrange(m)
        for r in X:
            r[j] = X[0][j]
    return X, kind


def _grid(rng: Rng, m, uniform=None):
    lo = rng.choice([0, 0, -1, 1, 100, Fraction(-7, 2)])
    scale = rng.choice([1, 1, 2, 364, Fraction(1, 8)])
    return rng.grid(m, lo=lo, scale=scale, uniform=uniform)


def _offset(rng: Rng):
    return rng.choice([0, 0, 1, Fraction(-5, 2), 100, 10000, -10000])


# --------------------------------------------------------------------------
# states an object may be in before the call under test (left behind by earlier, unrelated use)
# --------------------------------------------------------------------------

def _use_iteration(fd):
    """Partial iteration, a loop left with `break`, an exception inside a loop, two live iterators."""
    keep = []
    it = iter(fd)
    next(it, None)
    keep.append(it)
    for _ in fd:
        break
    try:
        for _ in fd:
            raise KeyError("stop")
    except KeyError:
        pass
    i1, i2 = iter(fd), iter(fd)
    next(i1, None)
    next(i2, None)
    next(i1, None)
    keep += [i1, i2]
    return keep  # the iterators stay alive during the call under test


def _use_user_values(fd):
    """Unrelated calls with caller-supplied values (each may be unsupported for a class: then it is skipped)."""
    small = getattr(fd, "n_obs", 0) <= 64  # the Gram matrix costs n_obs^2 integrals
    for f in ((lambda: fd.inner_product(noise_variance=7.25)) if small else (lambda: None), lambda: fd.covariance(), lambda: fd.mean(),
              lambda: fd.norm(), lambda: fd.rescale(weights=9.0), lambda: fd.noise_variance(1)):
        try:
            with warnings.catch_warnings():
                warnings.simplefilter("ignore")
                f()
        except Exception:  # noqa: BLE001
            pass
    return []


STATES = {"iteration": _use_iteration, "user-values": _use_user_values}


def _in_states(build, ops):
    """Every operation on a fresh object (`base`) and on objects put into each state first."""
    res = {"base": {nm: _call(lambda op=op: op(build())) for nm, op in ops.items()}}
    for sn, prep in STATES.items():
        r = {}
        for nm, op in ops.items():
            fd = build()
            try:
                with warnings.catch_warnings():
                    warnings.simplefilter("ignore")
                    keep = prep(fd)
            except Exception as e:  # noqa: BLE001
                r[nm] = {"skipped": common.err_class(e)}
                continue
            r[nm] = _call(lambda op=op, fd=fd: op(fd))
            del keep
        res[sn] = r
    return res


def _flat(x, out):
    if isinstance(x, dict) and "error" not in x:
        out.append(("{", tuple(sorted(map(str, x)))))
        for k in sorted(x, key=str):
            _flat(x[k], out)
    elif isinstance(x, (list, tuple)):
        out.append(("[", len(x)))
        for y in x:
            _flat(y, out)
    else:
        out.append(x)
    return out


def _same(a, b, scale=0.0, rtol=0.0):
    """Equality of nested results: same structure, NaN equal to NaN, error dicts by class, numbers to 1e-12 of the
    largest magnitude (two evaluations of the same BLAS product may differ in the last bit with the memory alignment)."""
    if (isinstance(a, dict) and "error" in a) or (isinstance(b, dict) and "error" in b):
        return isinstance(a, dict) and isinstance(b, dict) and a.get("error") == b.get("error")
    fa, fb = _flat(a, []), _flat(b, [])
    if len(fa) != len(fb):
        return False
    nums = [abs(x) for x in fa + fb if isinstance(x, (int, float)) and not isinstance(x, bool) and math.isfinite(x)]
    tol = 1e-12 * max(nums + [scale])  # `scale`: magnitude of the data the results were computed from
    for x, y in zip(fa, fb):
        if isinstance(x, tuple) or isinstance(y, tuple):
            if x != y:
                return False
        elif isinstance(x, (int, float)) and isinstance(y, (int, float)):
            if math.isnan(x) or math.isnan(y):
                if not (math.isnan(x) and math.isnan(y)):
                    return False
            elif not (x == y or abs(x - y) <= tol or abs(x - y) <= rtol * max(abs(x), abs(y))):
                return False
        elif x != y:
            return False
    return True


def _state_violations(res, bad, entry_of):
    for sn in STATES:
        for nm, b in res["base"].items():
            r = res[sn][nm]
            if isinstance(r, dict) and "skipped" in r:
                continue
            if not _same(r, b):
                bad("stale_state", f"{nm} on an object in state '{sn}' (earlier partial iteration / unrelated calls with user-supplied values) "
                    f"gives {str(r)[:80]}, a fresh object {str(b)[:80]}", entry_of(nm), ["history", sn])


# --------------------------------------------------------------------------
# whole-data-set amplitude sweep: op(a X) == a^k op(X) for a = 2^-60 .. 2^60 (exact scalings), relative tolerance only
# --------------------------------------------------------------------------

SWEEP = [Fraction(1, 2 ** 60), Fraction(1, 2 ** 30), Fraction(1, 2 ** 9), Fraction(2 ** 20), Fraction(2 ** 60)]


def _sweep(build_scaled, ops):
    """ops: name -> (function of the object, degree k).  Results on X and on a X for every a of SWEEP."""
    res = {}
    for nm, (f, k) in ops.items():
        res[nm] = {"k": k, "base": _call(lambda f=f: f(build_scaled(Fraction(1)))),
                   "scaled": {rs(a): _call(lambda f=f, a=a: f(build_scaled(a))) for a in SWEEP}}
    return res


def _rel_same(x, y, rtol=1e-13):
    """nested equality with a purely RELATIVE tolerance per number (no absolute floor), NaN equal to NaN"""
    if isinstance(x, dict) or isinstance(y, dict):
        return isinstance(x, dict) and isinstance(y, dict) and x.get("error") == y.get("error")
    if isinstance(x, (list, tuple)):
        return isinstance(y, (list, tuple)) and len(x) == len(y) and all(_rel_same(u, v, rtol) for u, v in zip(x, y))
    if isinstance(x, (int, float)) and isinstance(y, (int, float)):
        if math.isnan(x) or math.isnan(y):
            return math.isnan(x) and math.isnan(y)
        return x == y or abs(x - y) <= rtol * max(abs(x), abs(y))
    return x == y


def _times(v, c):
    if isinstance(v, (list, tuple)):
        return [_times(u, c) for u in v]
    return v * c if isinstance(v, (int, float)) else v


def _sweep_violations(res, bad, entry_of, excluded=()):
    for nm, r in res.items():
        if nm in excluded or isinstance(r["base"], dict):
            continue
        for a_s, v in r["scaled"].items():
            a = float(F(a_s))
            exp = _times(r["base"], a ** r["k"])
            if not _rel_same(v, exp):
                bad("scale_equivariance", f"{nm} of a*X with a = 2^{round(math.log2(a))} is {str(v)[:90]} but a^{r['k']} times the result on X is {str(exp)[:90]} "
                    "(exact power-of-two scaling of the whole data set; relative tolerance 1e-13)", entry_of(nm), ["amplitude:2^%d" % round(math.log2(a))])
                break


# --------------------------------------------------------------------------
# generation
# --------------------------------------------------------------------------

def gen_cases(rng: Rng, tier):
    n = dict(quick=330, thorough=4000)[tier]
    big = tier == "thorough"
    for q in range(0, 12):
        yield dict(kind="table", q=q)
    # sizes just around typical block sizes / fast-path thresholds (blocked accumulations, n > 200 / 250 / 256 / 2000 switches):
    # many curves on a tiny grid, so that the exact model stays cheap
    sizes = [32, 33, 64, 65, 128, 129, 200, 201, 250, 251, 256, 257, 512, 513, 1024, 1025]
    chosen = sizes + [2000, 2001] if big else [257, 513] + rng.sample([x for x in sizes if x not in (257, 513)], 4)
    for N in chosen:
        m = rng.randint(2, 4)
        X, ck = _curves(rng, N, m, rng.choice(["rand", "rand", "lowrank"]))
        if rng.random() < 0.5:
            X[-1] = [8 * x + 3 for x in X[-1]]  # an atypical last (and, after the permutation, other) curve
        perm = list(range(N))
        rng.shuffle(perm)
        yield dict(kind="meancov", t=[rs(x) for x in _grid(rng, m)], X=_S(X), perm=perm, ck=ck, a=rs(Fraction(-3, 2)),
                   c=[rs(x) for x in rng.dyadics(m, -8, 8, 2)], off="0", int=False, sized=True)
    for L in ([257, 513, 1025] if big else [rng.choice([257, 513])]):
        order = rng.randint(1, 10)
        X, ck = _curves(rng, 2, L, "rand")
        yield dict(kind="noise", order=order, X=_S(X), ck=ck, perm=[1, 0], off="0", a="3", c="-7/2", int=False,
                   t=[rs(x) for x in _grid(rng, L)], sized=True)
    # structured, in every run: irregular data in which SOME but not all curves are too short for the order (both encodings,
    # every position of the short curves, values dictionary in another insertion order)
    for order in ([1, 2, 3, 5, 10] if big else [rng.choice([1, 2]), rng.choice([3, 4, 5]), rng.choice([6, 8, 10])]):
        for enc in ("points", "nan"):
            N = 4
            short = rng.sample(range(N), rng.randint(1, N - 1))
            m = order + 4
            tgrid = rng.grid(m)
            obs = []
            for i in range(N):
                L = rng.randint(1, order) if i in short else rng.randint(order + 1, m)
                idx = sorted(rng.sample(range(m), L))
                y = rng.dyadics(m, -8, 8, 4)
                if enc == "points":
                    obs.append(dict(t=[rs(tgrid[j]) for j in idx], y=[rs(y[j]) for j in idx]))
                else:
                    obs.append(dict(t=[rs(x) for x in tgrid], y=[rs(y[j]) if j in idx else "nan" for j in range(m)]))
            yield dict(kind="irrnoise", enc=enc, order=order, obs=obs, ck="irr", sub=False, vorder=["reversed", "rotated", None][(order + len(enc)) % 3],
                       some_short=True)
    # structured, in every run: dynamic range INSIDE one data set: values c_j * z_ij, c_j = 2^-50 .. 2^0, z small integers (all exact floats);
    # every covariance entry / mean value is judged relative to its own scale
    for k in range(4 if big else 2):
        N, m = rng.randint(3, 8), rng.randint(4, 8)
        ks = [0, 50] + rng.sample(range(1, 50), m - 2)
        rng.shuffle(ks)
        X = [[Fraction(rng.randint(-8, 8), 2 ** ks[j]) for j in range(m)] for _ in range(N)]
        perm = list(range(N))
        rng.shuffle(perm)
        yield dict(kind="meancov", t=[rs(x) for x in _grid(rng, m)], X=_S(X), perm=perm, ck="dynrange", a=rs(Fraction(-3, 2)),
                   c=[rs(Fraction(rng.randint(-4, 4), 2 ** ks[j])) for j in range(m)], off="0", int=False)
    for k in range(2 if big else 1):
        order = rng.randint(1, 4)
        L, N = order + rng.randint(3, 6), 4
        es = [0, 50] + rng.sample(range(1, 50), N - 2)
        X = [[Fraction(rng.randint(-8, 8), 2 ** es[i]) for _ in range(L)] for i in range(N)]  # curves of very different amplitude
        yield dict(kind="noise", order=order, X=_S(X), ck="dynrange", perm=[2, 0, 3, 1], off="0", a="3", c="1", int=False, t=[rs(x) for x in _grid(rng, L)])
    # structured, in every run: AMPLITUDE of the whole data set: a X for a = 2^-60 .. 2^60 with a mean level comparable to the spread;
    # every estimator must be exactly homogeneous (degree 1: mean; degree 2: covariance, noise variance) and textbook relative to the data's own scale
    for flavour in ("dense", "dense2d", "irregular-points", "irregular-nan", "multivariate"):
        N, m = rng.randint(3, 6), rng.randint(6, 9)
        X = [[Fraction(rng.randint(-6, 6) + 3 + (j % 3)) for j in range(m)] for _ in range(N)]
        keep = [[True] * m for _ in range(N)]
        if flavour.startswith("irregular"):
            keep = [[(j + i) % 4 != 1 or j in (0, m - 1) for j in range(m)] for i in range(N)]
        yield dict(kind="scale", flavour=flavour, t=[rs(x) for x in rng.grid(m, uniform=True)], X=_S(X), keep=keep, order=rng.randint(1, 3), ck="rand")
    for a in (Fraction(1, 2 ** 60), Fraction(1, 2 ** 30), Fraction(2 ** 40)):
        N, m = rng.randint(3, 8), rng.randint(3, 8)
        X = [[a * (rng.randint(-6, 6) + 4) for _ in range(m)] for _ in range(N)]
        perm = list(range(N))
        rng.shuffle(perm)
        yield dict(kind="meancov", t=[rs(x) for x in _grid(rng, m)], X=_S(X), perm=perm, ck="amplitude", a="100", c=[rs(a * rng.randint(-3, 3)) for _ in range(m)],
                   off="0", int=False)
    # structured, in every run: MEMORY LAYOUT of the values (column-major, transposed table, strided slice of a finer table, negative
    # strides) for every estimator; the references are the exact model and per-curve estimates on contiguous copies of the logical values
    for lay in LAYOUTS:
        for order in ([1, 2, 3, 7, 10] if big else [rng.choice([1, 2]), rng.choice([3, 5, 7, 10])]):
            N, L = rng.randint(3, 6), order + rng.randint(3, 8)
            X, ck = _curves(rng, N, L, "rand")
            integer = rng.random() < 0.3
            if integer:
                X = [[Fraction(round(x)) for x in r] for r in X]
            perm = list(range(N))
            rng.shuffle(perm)
            yield dict(kind="noise", order=order, X=_S(X), ck=ck, perm=perm, off="0", a="3", c=rs(Fraction(1000)), int=integer, layout=lay,
                       t=[rs(x) for x in _grid(rng, L)])
        N, m = rng.randint(3, 7), rng.randint(4, 9)
        X, ck = _curves(rng, N, m, "rand")
        perm = list(range(N))
        rng.shuffle(perm)
        yield dict(kind="meancov", t=[rs(x) for x in _grid(rng, m)], X=_S(X), perm=perm, ck=ck, a=rs(Fraction(-3, 2)),
                   c=[rs(x) for x in rng.dyadics(m, -8, 8, 2)], off="0", int=False, layout=lay)
        m1, m2 = rng.randint(2, 4), rng.randint(2, 4)
        X, ck = _curves(rng, rng.randint(2, 5), m1 * m2, "rand")
        yield dict(kind="mean2d", t1=[rs(x) for x in _grid(rng, m1)], t2=[rs(x) for x in _grid(rng, m2)], X=_S(X), ck=ck, layout=lay)
    # structured, in every run: ESTIMATORS LEAVE THE DATA AS THEY WERE: every estimator (noise variance of EVERY order 1..10, mean,
    # covariance with every option) on dense, irregular (both encodings) and multivariate data; the object is compared with a snapshot
    # taken before and the other estimators are run afterwards against a fresh twin
    for flavour in ("dense", "irregular-points", "irregular-nan", "multivariate"):
        N, m = rng.randint(3, 5), rng.randint(12, 15)  # at least 11 points: order 10 has windows
        X, ck = _curves(rng, N, m, "rand")
        X = [[x + 5 for x in r] for r in X]  # a level: removing it in place would be visible
        keep = [[True] * m for _ in range(N)]
        if flavour.startswith("irregular"):
            keep = [[j % (i + 2) != 1 or j in (0, m - 1) for j in range(m)] for i in range(N)]
            keep[0] = [True] * m
        yield dict(kind="untouched", flavour=flavour, t=[rs(x) for x in rng.grid(m, uniform=True)], X=_S(X), keep=keep, ck=ck)
    # structured, in every run: the estimators on DERIVED objects (results of other operations) against freshly built twins
    for k in range(16 if big else 6):
        N = rng.randint(3, 7)
        m = rng.randint(5, 9)
        X, ck = _curves(rng, N, m, rng.choice(["rand", "smooth", "lowrank"]))
        ref = rng.dyadics(m, -4, 4, 3)
        yield dict(kind="derived", t=[rs(x) for x in rng.grid(m, uniform=True)], X=_S([[x + 3 for x in r] for r in X]), ck=ck,
                   ref=[rs(x) for x in ref], order=rng.randint(1, 4))
    kinds = ["meancov", "noise", "noise", "meancov", "noise", "irrnoise", "mean2d", "noise1"]
    n_smooth = 0
    for k in range(n):
        kind = kinds[k % len(kinds)]
        if k % 20 == 7:
            kind = "covsmooth"
        if k % 20 == 13:
            kind = "covirr"
        if kind == "meancov":
            N = rng.randint(2, 25 if big else 12)
            m = rng.randint(2, 16 if big else 12)
            X, ck = _curves(rng, N, m)
            off = _offset(rng)
            if rng.random() < 0.15:
                # offset >> spread (2^20 .. 2^27): a one-pass formula (sum x x^T - n m m^T) cancels catastrophically here,
                # the centred two-pass estimator of the code does not; values quantised so that all are exact float64
                off = Fraction(2 ** rng.randint(20, 27)) * rng.choice([1, -1])
                X = [[Fraction(round(x * 64), 64) for x in r] for r in X]
            X = [[x + off for x in r] for r in X]
            perm = list(range(N))
            rng.shuffle(perm)
            a = rng.choice([rng.dyadic(-4, 4, 2), Fraction(-1), Fraction(1, 1024), Fraction(300)])
            c = rng.dyadics(m, -8, 8, 2)
            integer = rng.random() < 0.15
            if integer:
                X = [[Fraction(round(x)) for x in r] for r in X]
                a, c = Fraction(rng.choice([-3, 2, 5])), [Fraction(round(x)) for x in c]
            yield dict(kind=kind, t=[rs(x) for x in _grid(rng, m)], X=_S(X), perm=perm, ck=ck, a=rs(a), c=[rs(x) for x in c], off=rs(off), int=integer)
        elif kind == "covirr":
            # raw covariance of irregular data from co-observed pairs (no smoothing of the covariance)
            N = rng.randint(2, 7)
            m = rng.randint(4, 8)
            X, ck = _curves(rng, N, m, rng.choice(["rand", "smooth", "lowrank"]))
            mode = rng.choice(["complete", "missing", "missing", "disjoint"])
            keep = [[True] * m for _ in range(N)]
            if mode == "missing":
                keep = [[rng.random() < 0.65 for _ in range(m)] for _ in range(N)]
            elif mode == "disjoint":
                # two groups of curves on complementary parts of the grid: many pairs of points are never observed together
                cut = rng.randint(1, m - 1)
                keep = [[(j < cut) == (i % 2 == 0) for j in range(m)] for i in range(N)]
            for j in range(m):
                if not any(kp[j] for kp in keep):
                    keep[rng.randrange(N)][j] = True
            for kp in keep:
                if sum(kp) < 2:
                    for j in rng.sample(range(m), 2):
                        kp[j] = True
            yield dict(kind=kind, t=[rs(x) for x in rng.grid(m)], X=_S(X), keep=keep, mode=mode, enc=rng.choice(["points", "nan"]), ck=ck,
                       bw=rs(rng.choice([Fraction(1, 2), Fraction(1)])), vorder=rng.choice([None, "reversed", "rotated"]))
        elif kind == "mean2d":
            N = rng.randint(2, 8)
            m1, m2 = rng.randint(2, 6), rng.randint(2, 6)
            X, ck = _curves(rng, N, m1 * m2)
            yield dict(kind=kind, t1=[rs(x) for x in _grid(rng, m1)], t2=[rs(x) for x in _grid(rng, m2)], X=_S(X), ck=ck)
        elif kind == "covsmooth":
            N = rng.randint(3, 8)
            m = rng.randint(8, 13)
            X, ck = _curves(rng, N, m, rng.choice(["rand", "smooth", "lowrank"]))
            method = ["LP", "PS"][n_smooth % 2]
            n_smooth += 1
            t = rng.grid(m, uniform=True)
            span = t[-1] - t[0]
            mode = rng.choice(["same", "other-size", "other-size-wide", "same-size-subinterval", "same-size-nonuniform"])
            if mode == "same":
                pts = None
            elif mode == "other-size":
                p = rng.choice([q for q in range(5, 15) if q != m])
                pts = [t[0] + span * Fraction(i, p - 1) for i in range(p)]
            elif mode == "other-size-wide":
                pts = rng.grid(rng.choice([q for q in range(5, 15) if q != m]), uniform=True)  # may reach beyond the sampling domain
            elif mode == "same-size-subinterval":
                # as many points as the sampling grid, located elsewhere
                pts = [t[0] + span / 4 + span / 2 * Fraction(i, m - 1) for i in range(m)]
            else:
                pts = rng.grid(m, lo=t[0], scale=span, uniform=False)
            # a second request containing the first one's points plus a few more: values must not depend on the request
            dom = pts if pts is not None else t
            extra = sorted({dom[0] + (dom[-1] - dom[0]) * Fraction(rng.randint(1, 62), 63) for _ in range(rng.randint(2, 4))} - set(dom))
            irr = None
            if n_smooth % 3 == 0:
                # the same through IrregularFunctionalData.covariance: some samples missing (both encodings)
                keep = [[rng.random() < 0.8 for _ in range(m)] for _ in range(N)]
                for j in range(m):
                    if sum(kp[j] for kp in keep) < 2:
                        for kp in keep[:2]:
                            kp[j] = True
                irr = dict(enc=rng.choice(["points", "nan"]), keep=keep, vorder=rng.choice([None, "reversed", "rotated"]))
            yield dict(kind=kind, t=[rs(x) for x in t], X=_S(X), method=method, ck=ck, mode=mode, irr=irr,
                       points=None if pts is None else [rs(x) for x in pts], extra=[rs(x) for x in extra],
                       bw=rs(rng.choice([Fraction(1, 2), Fraction(3, 4), Fraction(1)])), nseg=rng.randint(3, 6),
                       penalty=rng.choice([None, [0.1, 100.0], [10.0, 0.5]]))
        elif kind in ("noise", "noise1"):
            order = rng.choice(list(range(1, 11)) * 3 + [0, -1, 11, 12])
            base = max(order, 1)
            L = max(0 if kind == "noise1" else 1, base + rng.choice([-1, 0, 1, 1, 2, 2, 3, 4, 6]) + (rng.randint(0, 20) if big else 0))
            N = 1 if kind == "noise1" else rng.randint(1, 6)
            X, ck = _curves(rng, N, L, rng.choice(["rand", "rand", "smooth", "const", "lowrank"])) if L else ([[]], "empty")
            off = _offset(rng)
            if 1 <= order <= 10 and kind == "noise" and rng.random() < 0.12:
                # isolated spikes: the estimate is sigma^2 * sum(d^2) / (L - order) (C09.noise_impulse)
                L = 2 * order + 1 + rng.randint(0, 5)
                X = [[Fraction(0)] * L for _ in range(N)]
                for r in X:
                    r[rng.randint(order, L - order - 1)] = rng.choice([Fraction(8), Fraction(-3, 2), Fraction(100)])
                ck, off = "impulse", Fraction(0)
            X = [[x + off for x in r] for r in X]
            perm = list(range(N))
            rng.shuffle(perm)
            a = rng.choice([rng.dyadic(-4, 4, 2), Fraction(-1), Fraction(1, 64), Fraction(50)])
            c = rng.choice([Fraction(1), Fraction(-7, 2), Fraction(1000), Fraction(10**6), Fraction(-(10**5))])
            integer = ck != "impulse" and rng.random() < 0.15
            if integer:  # integer-valued curves stored with an integer dtype
                X = [[Fraction(round(x)) for x in r] for r in X]
                a, c = Fraction(rng.choice([-3, 2, 5])), Fraction(rng.choice([1, -7, 1000]))
            yield dict(kind=kind, order=order, X=_S(X), ck=ck, perm=perm, off=rs(off), a=rs(a), c=rs(c), int=integer,
                       t=[rs(x) for x in _grid(rng, L)] if L else [])
        elif kind == "irrnoise":
            order = rng.choice(list(range(1, 11)) * 2 + [0, 11])
            N = rng.randint(1, 5)
            enc = rng.choice(["points", "nan"])
            base = max(order, 1)
            if enc == "points":
                obs = []
                for _ in range(N):
                    L = max(1, base + rng.choice([-1, 0, 1, 2, 3, 5]))
                    obs.append(dict(t=[rs(x) for x in rng.grid(L)], y=[rs(x) for x in rng.dyadics(L, -8, 8, 4)]))
                yield dict(kind=kind, enc=enc, order=order, obs=obs, ck="irr", sub=rng.random() < 0.4, vorder=rng.choice([None, "reversed", "rotated"]))
            else:
                m = base + rng.randint(2, 8)
                t = [rs(x) for x in rng.grid(m)]
                obs = []
                for _ in range(N):
                    keep = [rng.random() < 0.75 for _ in range(m)]
                    if not any(keep):
                        keep[rng.randrange(m)] = True
                    obs.append(dict(t=t, y=[rs(x) if kp else "nan" for x, kp in zip(rng.dyadics(m, -8, 8, 4), keep)]))
                yield dict(kind=kind, enc=enc, order=order, obs=obs, ck="irr", sub=rng.random() < 0.4, vorder=rng.choice([None, "reversed", "rotated"]))


def search_cases(rng, tier):
    """Boundary-biased stream used after a break: large offsets (shift bound), impulses
    (calibration sum d^2), short curves, every order."""
    for order in range(1, 11):
        for c in (10**4, 10**6, -(10**5)):
            for L in (order + 1, order + 2, order + 7, 3 * order + 5):
                X = [rng.dyadics(L, -2, 2, 4) for _ in range(2)]
                yield dict(kind="noise", order=order, X=_S(X), ck="rand", perm=[1, 0], off="0", a="2", c=rs(c), t=[rs(x) for x in rng.grid(L)])
        L = 3 * order + 4
        imp = [[Fraction(0)] * L]
        imp[0][order + 1] = Fraction(8)
        yield dict(kind="noise", order=order, X=_S(imp), ck="impulse", perm=[0], off="0", a="-1", c="1000", t=[rs(x) for x in rng.grid(L)])
    yield from gen_cases(rng, "quick")


def witness_cases():
    return []


# --------------------------------------------------------------------------
# implementation side
# --------------------------------------------------------------------------

def _varhat(raw_diag, t, pts):
    """The local-linear smooth of the raw diagonal exactly as
    `_estimate_noise_variance_with_covariance` requests it (a parameter of the model)."""
    from FDApy.misc.utils import _cartesian_product
    from FDApy.preprocessing.smoothing.local_polynomial import LocalPolynomial

    lp = LocalPolynomial(kernel_name="epanechnikov", bandwidth=len(raw_diag) ** (-1 / 5), degree=1)
    return lp.predict(y=np.array(raw_diag), x=_cartesian_product(np.array(t)), x_new=_cartesian_product(np.array(pts)))


def _snapshot(fd):
    """Everything the object holds, by value: values, sampling points (and standardised points), per component / per label."""
    if hasattr(fd, "data") and isinstance(getattr(fd, "data"), list):
        return [_snapshot(c) for c in fd.data]
    if hasattr(fd, "coefficients"):
        return {"coefficients": np.array(fd.coefficients, dtype=float, copy=True).tolist(), "basis": _snapshot(fd.basis)}
    v = fd.values
    if hasattr(v, "keys"):
        return {"values": {int(k): np.array(v[k], dtype=float, copy=True).tolist() for k in sorted(v)},
                "argvals": {int(k): np.array(fd.argvals[k]["input_dim_0"], dtype=float, copy=True).tolist() for k in sorted(fd.argvals)}}
    return {"values": np.array(v, dtype=float, copy=True).tolist(),
            "argvals": {k: np.array(a, dtype=float, copy=True).tolist() for k, a in fd.argvals.items()},
            "argvals_stand": {k: np.array(a, dtype=float, copy=True).tolist() for k, a in fd.argvals_stand.items()}}


def _impl_untouched(case):
    from FDApy.representation.functional_data import MultivariateFunctionalData

    t = _Fv(case["t"])
    tf = fl(t)
    X = np.array(fl(_Fm(case["X"])))
    keep = case["keep"]
    fl_ = case["flavour"]
    caller = {}

    def build():
        """A fresh object; the arrays handed to the constructors are kept to see whether THEY are changed."""
        if fl_ == "dense":
            A = X.copy()
            caller["arrays"] = [A]
            return _dense([t], A)
        if fl_.startswith("irregular"):
            if fl_ == "irregular-nan":
                return _irregular([tf] * len(X), [[x if kp else float("nan") for x, kp in zip(r, k)] for r, k in zip(X.tolist(), keep)])
            return _irregular([[u for u, kp in zip(tf, k) if kp] for k in keep], [[x for x, kp in zip(r, k) if kp] for r, k in zip(X.tolist(), keep)])
        A, B = X.copy(), (2.0 * X[::-1] - 1.0).copy()
        caller["arrays"] = [A, B]
        return MultivariateFunctionalData([_dense([t], A), _dense([t], B)])

    irr = fl_.startswith("irregular")
    multi = fl_ == "multivariate"
    est = {f"noise_variance({o})": (lambda fd, o=o: fd.noise_variance(o)) for o in range(1, 11)}
    est["noise_variance()"] = lambda fd: fd.noise_variance()
    est["mean()"] = (lambda fd: fd.mean(method_smoothing="LP", bandwidth=0.5)) if irr else (lambda fd: fd.mean())
    if not irr:
        est["mean(method_smoothing='LP')"] = lambda fd: fd.mean(method_smoothing="LP", bandwidth=0.5)
    if not multi:
        if irr:
            est["covariance(smooth=False, center=False)"] = lambda fd: fd.covariance(smooth=False, center=False)
            est["covariance(LP)"] = lambda fd: fd.covariance(method_smoothing="LP", bandwidth=0.5, kwargs_center=dict(bandwidth=0.5))
        else:
            est["covariance()"] = lambda fd: fd.covariance()
            est["covariance(center=False)"] = lambda fd: fd.covariance(center=False)
            est["covariance(method_smoothing='LP')"] = lambda fd: fd.covariance(method_smoothing="LP", bandwidth=0.5)
            est["covariance(method_smoothing='PS')"] = lambda fd: fd.covariance(method_smoothing="PS", n_segments=4)

    def flat(r):
        if hasattr(r, "values"):
            r = r.data if hasattr(r, "data") and isinstance(r.data, list) else r.values
        if isinstance(r, list):
            return [flat(x) for x in r]
        return np.asarray(r, dtype=float).tolist()

    after = {"noise_variance(2)": est["noise_variance(2)"], "noise_variance(7)": est["noise_variance(7)"], "mean": est["mean()"]}
    if not multi:
        after["covariance"] = est["covariance(smooth=False, center=False)"] if irr else est["covariance()"]
    fresh = {nm: _call(lambda f=f: flat(f(build()))) for nm, f in after.items()}
    out = {"fresh": fresh, "est": {}}
    for nm, f in est.items():
        def one(f=f):
            fd = build()
            before = _snapshot(fd)
            arrays0 = [a.copy() for a in caller.get("arrays", [])]
            f(fd)
            o = {"same": _same(_snapshot(fd), before) if not isinstance(before, dict) or True else None,
                 "caller_same": all(np.array_equal(a, b, equal_nan=True) for a, b in zip(caller.get("arrays", []), arrays0))}
            o["after"] = {an: _call(lambda g=g: flat(g(fd))) for an, g in after.items()}
            return o
        out["est"][nm] = _call(one)
    return out


def _impl_scale(case):
    from FDApy.representation.functional_data import MultivariateFunctionalData

    t = _Fv(case["t"])
    tf = fl(t)
    X0 = np.array(fl(_Fm(case["X"])))
    keep = case["keep"]
    fl_ = case["flavour"]
    order = case["order"]

    def build(a):
        X = X0 * float(a)  # exact: a is a power of two
        if fl_ == "dense":
            return _dense([t], X)
        if fl_ == "dense2d":
            m1 = 2 if X.shape[1] % 2 == 0 else 3
            if X.shape[1] % m1:
                X = X[:, : X.shape[1] - X.shape[1] % m1]
            m2 = X.shape[1] // m1
            return _dense([t[:m1], t[:m2]], X.reshape(-1, m1, m2))
        if fl_ == "irregular-nan":
            return _irregular([tf] * len(X), [[x if kp else float("nan") for x, kp in zip(r, k)] for r, k in zip(X.tolist(), keep)])
        if fl_ == "irregular-points":
            return _irregular([[u for u, kp in zip(tf, k) if kp] for k in keep], [[x for x, kp in zip(r, k) if kp] for r, k in zip(X.tolist(), keep)])
        return MultivariateFunctionalData([_dense([t], X), _dense([t], (X[::-1] + float(a)).copy())])

    vals = lambda r: np.asarray(r.values, dtype=float).tolist()  # noqa: E731
    if fl_ == "dense":
        ops = {"mean": (lambda f: vals(f.mean()), 1), "covariance": (lambda f: vals(f.covariance()), 2),
               "covariance(center=False)": (lambda f: vals(f.covariance(center=False)), 2),
               "noise_variance": (lambda f: float(f.noise_variance(order)), 2),
               "covariance noise estimate": (lambda f: (f.covariance(), float(f._noise_variance_cov))[1], 2),
               "mean(method_smoothing='LP')": (lambda f: vals(f.mean(method_smoothing="LP", bandwidth=0.5)), 1)}
    elif fl_ == "dense2d":
        ops = {"mean": (lambda f: vals(f.mean()), 1)}
    elif fl_.startswith("irregular"):
        ops = {"noise_variance": (lambda f: float(f.noise_variance(order)), 2),
               "covariance(smooth=False, center=False)": (lambda f: vals(f.covariance(smooth=False, center=False)), 2),
               "mean(LP)": (lambda f: vals(f.mean(method_smoothing="LP", bandwidth=0.5)), 1)}
    else:
        ops = {"noise_variance": (lambda f: [float(x) for x in f.noise_variance(order)], 2),
               "mean": (lambda f: [vals(c) for c in f.mean().data], 1)}
    return _sweep(build, ops)


def _derivations(fd, fd2, ref, t):
    """Objects DERIVED from `fd` by other operations of the package (name -> object)."""
    from FDApy.representation.functional_data import DenseFunctionalData

    mean_ref = _dense([t], np.array([ref]))
    d = {
        "center()": lambda: fd.center(),
        "center(method_smoothing='LP')": lambda: fd.center(method_smoothing="LP", bandwidth=0.5),
        "center(method_smoothing='PS')": lambda: fd.center(method_smoothing="PS", n_segments=4),
        "center(mean=ref)": lambda: fd.center(mean=mean_ref),
        "center().center(mean=ref)": lambda: fd.center().center(mean=mean_ref),
        "normalize()": lambda: fd.normalize(),
        "standardize()": lambda: fd.standardize(),
        "standardize(center=False)": lambda: fd.standardize(center=False),
        "rescale()[0]": lambda: fd.rescale()[0],
        "rescale(weights=4)[0]": lambda: fd.rescale(weights=4.0)[0],
        "smooth('LP')": lambda: fd.smooth(method="LP", bandwidth=0.5),
        "fd * 2": lambda: fd * 2.0,
        "fd + other": lambda: fd + fd2,
        "fd.center() - other": lambda: fd.center() - fd2,
        "fd / 4": lambda: fd / 4.0,
        "fd[1:]": lambda: fd[1:],
        "fd.center()[::-1]": lambda: fd.center()[::-1],
        "concatenate(fd.center(), other)": lambda: DenseFunctionalData.concatenate(fd.center(), fd2),
    }
    return d


def _impl_derived(case):
    """mean / covariance / noise variance of derived objects and of freshly built objects holding the same values."""
    t = _Fv(case["t"])
    X = np.array(fl(_Fm(case["X"])))
    order = case["order"]
    ref = fl(_Fv(case["ref"]))
    out = {}
    est = {"mean": lambda f: f.mean().values[0].tolist(), "covariance": lambda f: f.covariance().values[0].tolist(),
           "covariance(center=False)": lambda f: f.covariance(center=False).values[0].tolist(),
           "noise_variance": lambda f: float(f.noise_variance(order))}
    names = list(_derivations(_dense([t], X), _dense([t], X[::-1] * 0.5), ref, t))
    for nm in names:
        def one(nm=nm):
            fd, fd2 = _dense([t], X), _dense([t], X[::-1] * 0.5)
            d = _derivations(fd, fd2, ref, t)[nm]()
            twin = _dense([t], np.array(d.values, dtype=float, copy=True))
            amp = float(np.abs(np.asarray(d.values, dtype=float)).max())
            return {e: [f(d), f(twin), amp if e == "mean" else amp * amp] for e, f in est.items()}
        out[nm] = _call(one)
    return out


def run_impl(case):
    with warnings.catch_warnings():
        warnings.simplefilter("ignore")
        return _run_impl(case)


def _run_impl(case):
    import FDApy.representation.functional_data as fdm
    from FDApy.misc.utils import DIFF_SEQUENCES, _estimate_noise_variance

    kind = case["kind"]
    out = {}
    if kind == "table":
        d = DIFF_SEQUENCES.get(case["q"])
        out["d"] = None if d is None else [float(x) for x in d]
    elif kind == "meancov":
        t = _Fv(case["t"])
        X = _arr(case, case["X"])
        a = _num(case, case["a"])
        c = np.array([_num(case, x) for x in case["c"]])
        perm = case["perm"]

        def go():
            fd = _dense([t], X)
            o = {}
            o["mean"] = fd.mean().values[0].tolist()
            o["mean_shape"] = list(fd.mean().values.shape)
            cov = fd.covariance()
            o["cov"] = cov.values[0].tolist()
            o["cov_shape"] = list(cov.values.shape)
            o["cov_args"] = [cov.argvals["input_dim_0"].tolist(), cov.argvals["input_dim_1"].tolist()]
            o["noise_cov"] = float(fd._noise_variance_cov)
            o["varhat"] = _varhat(np.diag(cov.values[0]), fl(t), fl(t)).tolist()
            o["cov_raw"] = _dense([t], X).covariance(center=False).values[0].tolist()
            fp = _dense([t], _layout(X[perm], case.get("layout")))
            o["mean_perm"] = fp.mean().values[0].tolist()
            o["cov_perm"] = fp.covariance().values[0].tolist()
            fa = _dense([t], _layout(a * X + c, case.get("layout")))
            o["mean_aff"] = fa.mean().values[0].tolist()
            o["cov_aff"] = fa.covariance().values[0].tolist()
            # history on ONE object: estimate, replace the values through the setter, estimate again
            from FDApy.representation.functional_data import MultivariateFunctionalData
            from FDApy.representation.values import DenseValues

            fh = _dense([t], X)
            if len(t) >= 4:
                fh.mean(method_smoothing="LP", bandwidth=0.5)  # other options first
            fh.mean(); fh.covariance(); fh.covariance(center=False)  # noqa: E702
            o["hist0_mean"] = fh.mean().values[0].tolist()
            o["hist0_cov"] = fh.covariance().values[0].tolist()
            fh.values = DenseValues(np.asarray(a * X + c))
            o["hist_mean"] = fh.mean().values[0].tolist()
            o["hist_cov"] = fh.covariance().values[0].tolist()
            # multivariate wrapper: component-wise
            mm = MultivariateFunctionalData([_dense([t], X), _dense([t], a * X + c)]).mean()
            o["multi_mean"] = [mm.data[0].values[0].tolist(), mm.data[1].values[0].tolist()]
            return o

        out = _call(go)
    elif kind == "mean2d":
        t1, t2 = _Fv(case["t1"]), _Fv(case["t2"])
        X = _layout(np.array(fl(_Fm(case["X"]))).reshape(-1, len(t1), len(t2)), case.get("layout"))

        def go():
            fd = _dense([t1, t2], X)
            o = dict(mean=fd.mean().values[0].reshape(-1).tolist(), mean_shape=list(fd.mean().values.shape))
            o["cov"] = _call(lambda: fd.covariance().values.shape)
            with warnings.catch_warnings():
                warnings.simplefilter("ignore")
                o["noise"] = float(fd.noise_variance(2))
            return o

        out = _call(go)
    elif kind == "covsmooth":
        t = _Fv(case["t"])
        X = np.array(fl(_Fm(case["X"])))
        method = case["method"]
        cap = {}
        orig = fdm._smooth_covariance

        def wrapped(*a, **k):
            r = orig(*a, **k)
            cap["M"] = np.array(r, dtype=float, copy=True)
            return r

        def build():
            irr = case.get("irr")
            if not irr:
                return _dense([t], X)
            tf = fl(t)
            if irr["enc"] == "nan":
                return _irregular([tf] * len(X), [[x if kp else float("nan") for x, kp in zip(r, k)] for r, k in zip(X.tolist(), irr["keep"])], irr.get("vorder"))
            return _irregular([[u for u, kp in zip(tf, k) if kp] for k in irr["keep"]],
                              [[x for x, kp in zip(r, k) if kp] for r, k in zip(X.tolist(), irr["keep"])], irr.get("vorder"))

        def go():
            from FDApy.representation.argvals import DenseArgvals

            fd = build()
            kw = dict(bandwidth=float(F(case["bw"]))) if method == "LP" else dict(n_segments=case["nseg"])
            if method == "PS" and case.get("penalty"):
                kw["penalty"] = tuple(case["penalty"])  # unequal penalties: the smoother output is far from symmetric
            if case.get("irr"):
                kw["kwargs_center"] = dict(bandwidth=float(F(case["bw"]))) if method == "LP" else dict(n_segments=case["nseg"])
            q = None if case["points"] is None else fl(_Fv(case["points"]))
            points = None if q is None else DenseArgvals({"input_dim_0": np.array(q)})
            fdm._smooth_covariance = wrapped
            LP = fdm.LocalPolynomial
            lp_orig = LP.predict
            train = {}

            def lp_predict(self, y, x, x_new=None, *a, **k):
                xa = np.asarray(x)
                if xa.ndim == 2 and xa.shape[1] == 2 and "x" not in train:  # the covariance smoother (2-D abscissae)
                    train["x"], train["y"] = xa.tolist(), np.asarray(y, dtype=float).tolist()
                return lp_orig(self, y, x, x_new, *a, **k)

            LP.predict = lp_predict
            try:
                cov = fd.covariance(points=points, method_smoothing=method, **kw)
            finally:
                fdm._smooth_covariance = orig
                LP.predict = lp_orig
            o = dict(cov=cov.values[0].tolist(), cov_shape=list(cov.values.shape),
                     cov_args=[cov.argvals["input_dim_0"].tolist(), cov.argvals["input_dim_1"].tolist()],
                     noise_cov=float(fd._noise_variance_cov))
            o["M"] = cap["M"].tolist()
            if method == "LP" and not case.get("irr") and "x" in train:
                o["train"] = train
                o["mu"] = build().mean(method_smoothing="LP").values[0].tolist()  # the smoothed mean the centring subtracts
            # the same locations requested as part of a larger set of points (fresh object)
            base = q if q is not None else np.asarray(build().argvals.to_dense()["input_dim_0"] if case.get("irr") else fl(t)).tolist()
            q2 = sorted(set(base) | set(fl(_Fv(case.get("extra", [])))))
            idx = [q2.index(x) for x in base]
            cov2 = build().covariance(points=DenseArgvals({"input_dim_0": np.array(q2)}), method_smoothing=method, **kw).values[0]
            o["cov_sub"] = cov2[np.ix_(idx, idx)].tolist()
            o["n_q2"] = len(q2)
            return o

        out = _call(go)
    elif kind == "derived":
        out = _call(lambda: _impl_derived(case))
    elif kind == "untouched":
        out = _call(lambda: _impl_untouched(case))
    elif kind == "scale":
        out = _call(lambda: _impl_scale(case))
    elif kind == "covirr":
        tf = fl(_Fv(case["t"]))
        X = np.array(fl(_Fm(case["X"])))
        keep = case["keep"]

        def build():
            if case["enc"] == "nan":
                return _irregular([tf] * len(X), [[x if kp else float("nan") for x, kp in zip(r, k)] for r, k in zip(X.tolist(), keep)], case.get("vorder"))
            return _irregular([[u for u, kp in zip(tf, k) if kp] for k in keep], [[x for x, kp in zip(r, k) if kp] for r, k in zip(X.tolist(), keep)],
                              case.get("vorder"))

        def go():
            o = dict(raw=build().covariance(smooth=False, center=False).values[0].tolist())
            bw = float(F(case["bw"]))
            cen = build().center(method_smoothing="LP", bandwidth=bw)
            o["centred"] = [np.asarray(cen.values[k], dtype=float).tolist() for k in sorted(cen.values)]
            o["cen_cov"] = build().covariance(smooth=False, center=True, method_smoothing="LP", kwargs_center=dict(bandwidth=bw)).values[0].tolist()
            if case["mode"] == "complete":
                o["dense_raw"] = _dense([_Fv(case["t"])], X).covariance(center=False).values[0].tolist()
            return o

        out = _call(go)
    elif kind in ("noise", "noise1"):
        X = _arr(case, case["X"]) if case["X"] and case["X"][0] else np.array(fl(_Fm(case["X"])))
        order = case["order"]
        a, c = _num(case, case["a"]), _num(case, case["c"])
        if kind == "noise1":
            x = X[0] if X.size else np.array([])
            out["v"] = _call(lambda: float(_estimate_noise_variance(x, order)))
            out["v_shift"] = _call(lambda: float(_estimate_noise_variance(x + c, order)))
            out["v_scale"] = _call(lambda: float(_estimate_noise_variance(a * x, order)))
        else:
            t = _Fv(case["t"])
            out["v"] = _call(lambda: float(_dense([t], X).noise_variance(order)))
            L_ = case.get("layout")
            out["v_shift"] = _call(lambda: float(_dense([t], _layout(X + c, L_)).noise_variance(order)))
            out["v_scale"] = _call(lambda: float(_dense([t], _layout(a * X, L_)).noise_variance(order)))
            out["v_perm"] = _call(lambda: float(_dense([t], _layout(X[case["perm"]], L_)).noise_variance(order)))
            # per-curve reference on CONTIGUOUS COPIES of the logical values (not on the same views the data set holds)
            out["per"] = _call(lambda: [float(_estimate_noise_variance(np.array(x, copy=True, order="C"), order)) for x in X])
            out["per_shift"] = _call(lambda: [float(_estimate_noise_variance(np.array(x + c, copy=True, order="C"), order)) for x in X])
            out["singles"] = _call(lambda: [float(_dense([t], X[i:i + 1]).noise_variance(order)) for i in range(len(X))])

            def multi():
                from FDApy.representation.functional_data import MultivariateFunctionalData
                from FDApy.representation.values import DenseValues

                r = [float(x) for x in MultivariateFunctionalData([_dense([t], X), _dense([t], a * X)]).noise_variance(order)]
                fh = _dense([t], X)  # history: another order first, then the values replaced through the setter
                fh.noise_variance(1 if order != 1 else 2)
                fh.values = DenseValues(np.asarray(a * X))
                return dict(multi=r, hist=float(fh.noise_variance(order)))

            out["multi"] = _call(multi)
            ops = {"noise_variance(order)": lambda fd: float(fd.noise_variance(order)), "noise_variance()": lambda fd: float(fd.noise_variance()),
                   "mean": lambda fd: fd.mean().values[0].tolist()}
            if len(t) >= 2:
                ops["covariance"] = lambda fd: fd.covariance().values[0].tolist()
            out["states"] = _in_states(lambda: _dense([t], X), ops)
    elif kind == "irrnoise":
        pts = [[float(F(x)) for x in o["t"]] for o in case["obs"]]
        vals = [[float("nan") if y == "nan" else float(F(y)) for y in o["y"]] for o in case["obs"]]
        if case.get("sub"):
            # the same curves as a sub-selection of a larger data set (labels 1..N instead of 0..N-1)
            out["v"] = _call(lambda: float(_irregular([pts[0]] + pts, [vals[0]] + vals)[1:].noise_variance(case["order"])))
        else:
            out["v"] = _call(lambda: float(_irregular(pts, vals, case.get("vorder")).noise_variance(case["order"])))
        order = case["order"]
        # per-curve estimates on the observed samples (too-short curves count 0)
        out["per"] = _call(lambda: [float(_estimate_noise_variance(np.array([y for y in v if not math.isnan(y)]), order)) for v in vals])
        out["states"] = _in_states(lambda: _irregular(pts, vals, case.get("vorder")), {"noise_variance(order)": lambda fd: float(fd.noise_variance(order)),
                                                              "noise_variance()": lambda fd: float(fd.noise_variance())})
    return out


# --------------------------------------------------------------------------
# model side
# --------------------------------------------------------------------------

def _M(m):
    return ";".join(",".join(r) if r else "-" for r in m) if m else "-"


def _affine(case):
    a = F(case["a"])
    c = _Fv(case["c"])
    return [[rs(a * F(x) + cj) for x, cj in zip(r, c)] for r in case["X"]]


def _finite_mat(M):
    return all(math.isfinite(x) for r in M for x in r)


def model_lines(case, impl):
    kind = case["kind"]
    if kind == "table":
        return [f"diffseq {case['q']}"]
    if kind == "meancov":
        X = _M(case["X"])
        ls = [f"mean {X}", f"cov {X} 1", f"cov {X} 0", f"mean {_M(_affine(case))}"]
        if isinstance(impl, dict) and "varhat" in impl and all(math.isfinite(x) for x in impl["varhat"]):
            # smooth diagonal = exact diagonal of the model covariance is not available before the run:
            # use the implementation's returned diagonal (it is compared with the model separately)
            diag = [impl["cov"][j][j] for j in range(len(impl["cov"]))]
            ls.append(f"noisecov {','.join(case['t'])} {common.vec(impl['varhat'])} {common.vec(diag)}")
        return ls
    if kind == "mean2d":
        return [f"mean {_M(case['X'])}"]
    if kind == "covsmooth":
        ls = []
        if isinstance(impl, dict) and "M" in impl and _finite_mat(impl["M"]):
            ls.append(f"sym {common.mat(impl['M'])}")
            if "train" in impl and all(math.isfinite(x) for x in impl["mu"]):
                ls.append(f"long {_M(case['X'])} {common.vec(impl['mu'])}")
        return ls
    if kind == "covirr":
        if not isinstance(impl, dict) or "error" in impl:
            return []
        K = ";".join(",".join("1" if kp else "0" for kp in k) for k in case["keep"])
        raw = [[x if kp else "0" for x, kp in zip(r, k)] for r, k in zip(case["X"], case["keep"])]
        # centred values as the implementation computed them (the smoothed mean is a parameter), placed on the union grid
        cen = []
        for row, k in zip(impl["centred"], case["keep"]):
            it = iter(row if case["enc"] == "points" else [v for v, kp in zip(row, k) if kp])
            cen.append([rs(F(next(it))) if kp else "0" for kp in k])
        return [f"covirr {K} {_M(raw)}", f"covirr {K} {_M(cen)}"]
    if kind == "noise":
        a, c = F(case["a"]), F(case["c"])
        Xs = [[rs(F(x) + c) for x in r] for r in case["X"]]
        Xa = [[rs(a * F(x)) for x in r] for r in case["X"]]
        return [f"noise {case['order']} {_M(case['X'])}", f"noise {case['order']} {_M(Xs)}", f"noise {case['order']} {_M(Xa)}"]
    if kind == "noise1":
        x = case["X"][0] if case["X"] else []
        return [f"noise1 {case['order']} {','.join(x) if x else '-'}"]
    if kind == "irrnoise":
        rows = [[y for y in o["y"] if y != "nan"] for o in case["obs"]]
        return [f"noise {case['order']} {_M(rows)}"]
    return []


def parse_model(case, outs):
    return dict(outs=outs)


def _cmp_vec(name, fs, qs, scale=None, rtol=1e-9):
    i = close_all(fs, qs, scale, rtol)
    if i is None:
        return []
    if i == -1:
        return [f"{name}: length {len(list(fs))} vs model {len(list(qs))}"]
    return [f"{name}[{i}]: impl {list(fs)[i]!r} vs exact {float(list(qs)[i])!r}"]


def _cmp_mat(name, A, Q, scale, rtol=1e-9):
    if len(A) != len(Q):
        return [f"{name}: {len(A)} rows vs model {len(Q)}"]
    for i, (ar, qr) in enumerate(zip(A, Q)):
        d = _cmp_vec(f"{name}[{i}]", ar, qr, scale, rtol)
        if d:
            return d
    return []


GAMMA = 64 * 2.0 ** -53


def _noise_tol(v, ab):
    """Float tolerance of one noise estimate: exact value `v`, `ab` = mean of (Σ|d_k x_k|)²."""
    v, ab = float(v), float(ab)
    return 1e-9 * v + 2 * math.sqrt(v) * GAMMA * math.sqrt(ab) + GAMMA * GAMMA * ab + 1e-300


def _cmp_noise(name, f, line):
    """`f` = implementation result (float or error dict), `line` = driver answer."""
    if line.startswith("error:"):
        cls = line.split(":", 1)[1]
        if not (isinstance(f, dict) and f.get("error") == cls):
            return [f"{name}: model raises {cls}, implementation gave {f!r}"]
        return []
    if isinstance(f, dict):
        return [f"{name}: implementation raised {f.get('error')} ({f.get('msg')}), model gives {line[:60]}"]
    toks = line.split(" ")
    v = F(toks[1])
    if len(toks) == 3:  # noise1: v, ab
        ab = F(toks[2])
    else:
        abs_ = pvec(toks[3])
        ab = sum(abs_) / max(len(abs_), 1)
    if not (math.isfinite(f) and abs(f - float(v)) <= _noise_tol(v, ab)):
        return [f"{name}: impl {f!r} vs exact {float(v)!r} (tol {_noise_tol(v, ab):.3g})"]
    return []


def _cov_scale(Xf):
    """Σ|terms| scale of the covariance entries (centred products plus the rounding of the centring)."""
    N = len(Xf)
    m = len(Xf[0])
    mean = [sum(r[j] for r in Xf) / N for j in range(m)]
    dev = max([abs(r[j] - mean[j]) for r in Xf for j in range(m)] + [Fraction(0)])
    big = max([abs(x) for r in Xf for x in r] + [Fraction(0)])
    return float(dev * dev * N / max(N - 1, 1) + Fraction(1, 10**6) * big * dev + Fraction(1, 10**12) * big * big) + 1e-300


def _cov_scales(Xf):
    """Entry-wise scale of the covariance: sd_a sd_b n/(n-1) plus the rounding of the centring of EACH grid point against its own
    offset (so that entries many decades below the largest one are still judged relative to themselves)."""
    N, m = len(Xf), len(Xf[0])
    mean = [sum(r[j] for r in Xf) / N for j in range(m)]
    sd = [math.sqrt(float(sum((r[j] - mean[j]) ** 2 for r in Xf) / N)) for j in range(m)]
    cb = [float(max(abs(r[j]) for r in Xf)) for j in range(m)]
    return [[sd[a] * sd[b] * N / max(N - 1, 1) + 1e-6 * (cb[a] * sd[b] + cb[b] * sd[a]) + 1e-12 * cb[a] * cb[b] + 1e-300 for b in range(m)] for a in range(m)]


def _cmp_cov_entrywise(name, C, Q, S, rtol=1e-9):
    if len(C) != len(Q):
        return [f"{name}: {len(C)} rows vs {len(Q)}"]
    for a, (cr, qr) in enumerate(zip(C, Q)):
        for b, (c, q) in enumerate(zip(cr, qr)):
            if not close(c, q, S[a][b], rtol):
                return [f"{name}[{a}][{b}]: impl {c!r} vs exact {float(q)!r} (entry scale {S[a][b]:.3g})"]
    return []


def compare(case, impl, model):
    if "__crash__" in impl:
        return [f"implementation crashed: {impl['__crash__']} {impl.get('msg')}"]
    kind = case["kind"]
    outs = model["outs"]
    ds = []
    if kind == "table":
        if outs[0] == "none":
            if impl["d"] is not None:
                ds.append(f"table has an entry for order {case['q']} that the generated Lean table lacks")
        else:
            q = pvec(outs[0])
            if impl["d"] is None or len(impl["d"]) != len(q) or any(float(x) != y for x, y in zip(q, impl["d"])):
                ds.append(f"DIFF_SEQUENCES[{case['q']}] at run time {impl['d']} differs from the translated literal {[float(x) for x in q]}")
    elif kind == "meancov":
        if "error" in impl:
            return [f"implementation raised {impl['error']}: {impl.get('msg')}"]
        Xf = _Fm(case["X"])
        big = float(max(abs(x) for r in Xf for x in r)) + 1e-300
        ds += _cmp_vec("mean", impl["mean"], pvec(outs[0]), big)
        sc = _cov_scale(Xf)
        ds += _cmp_cov_entrywise("cov", impl["cov"], pmat(outs[1]), _cov_scales(Xf))
        raw_sc = float(sum(x * x for r in Xf for x in r)) / max(len(Xf) - 1, 1) + 1e-300
        ds += _cmp_mat("cov(center=False)", impl["cov_raw"], pmat(outs[2]), raw_sc)
        a = abs(F(case["a"]))
        cmax = max(abs(F(x)) for x in case["c"])
        ds += _cmp_vec("mean(aX+c)", impl["mean_aff"], pvec(outs[3]), float(a) * big + float(cmax) + 1e-300)
        if len(outs) > 4:
            if outs[4] in ("error", "bad"):
                ds.append(f"noisecov: model rejects ({outs[4]})")
            else:
                vh = impl["varhat"]
                sc2 = 4 * (max(abs(x) for x in vh) + max(abs(impl["cov"][j][j]) for j in range(len(vh)))) + 1e-300
                if not close(impl["noise_cov"], F(outs[4]), sc2, 1e-9):
                    ds.append(f"_noise_variance_cov: impl {impl['noise_cov']!r} vs model {float(F(outs[4]))!r}")
    elif kind == "mean2d":
        if "error" in impl:
            return [f"implementation raised {impl['error']}: {impl.get('msg')}"]
        big = float(max(abs(F(x)) for r in case["X"] for x in r)) + 1e-300
        ds += _cmp_vec("mean2d", impl["mean"], pvec(outs[0]), big)
    elif kind == "covsmooth":
        if "error" in impl:
            return [f"implementation raised {impl['error']}: {impl.get('msg')}"]
        Q = pmat(outs[0])
        sc = max([abs(x) for r in impl["M"] for x in r] + [1e-300])
        ds += _cmp_mat("symmetrise(smoother output)", impl["cov"], Q, sc, 1e-15)
        if len(outs) > 1:
            # the training set of the LP covariance smoother: off-diagonal entries of the raw covariance, row-major
            tf = fl(_Fv(case["t"]))
            rows = [] if outs[1] == "-" else [r.split(",") for r in outs[1].split(";")]
            tr = impl["train"]
            if len(rows) != len(tr["y"]):
                ds.append(f"LP covariance smoother was trained on {len(tr['y'])} rows, model: {len(rows)} (all off-diagonal entries)")
            else:
                ysc = max([abs(float(F(r[2]))) for r in rows] + [1e-300]) * (1 + 1e-6 * max(abs(float(F(x))) for rr in case["X"] for x in rr))
                for k, (r, xk, yk) in enumerate(zip(rows, tr["x"], tr["y"])):
                    if xk != [tf[int(r[0])], tf[int(r[1])]]:
                        ds.append(f"LP training row {k}: abscissae {xk}, model ({tf[int(r[0])]}, {tf[int(r[1])]})")
                        break
                    if not close(yk, F(r[2]), ysc, 1e-9):
                        ds.append(f"LP training row {k}: value {yk!r}, model {float(F(r[2]))!r}")
                        break
    elif kind == "covirr":
        if "error" in impl:
            return [f"implementation raised {impl['error']}: {impl.get('msg')}"]
        big = max(abs(float(F(x))) for r in case["X"] for x in r) + 1e-300
        ds += _cmp_mat("raw irregular covariance (center=False)", impl["raw"], pmat(outs[0]), big * big)
        cb = max([abs(x) for r in impl["centred"] for x in r if math.isfinite(x)] + [1e-300])
        ds += _cmp_mat("raw irregular covariance (center=True)", impl["cen_cov"], pmat(outs[1]), cb * cb)
    elif kind == "noise":
        ds += _cmp_noise("noise_variance(X)", impl["v"], outs[0])
        ds += _cmp_noise("noise_variance(X+c)", impl["v_shift"], outs[1])
        ds += _cmp_noise("noise_variance(aX)", impl["v_scale"], outs[2])
        if outs[0].startswith("ok") and not isinstance(impl["per"], dict):
            per = pvec(outs[0].split(" ")[2])
            ab = pvec(outs[0].split(" ")[3])
            for i, (f, q, b) in enumerate(zip(impl["per"], per, ab)):
                if abs(f - float(q)) > _noise_tol(q, b):
                    ds.append(f"per-curve estimate {i}: impl {f!r} vs exact {float(q)!r}")
                    break
    elif kind == "noise1":
        ds += _cmp_noise("_estimate_noise_variance(x)", impl["v"], outs[0])
    elif kind == "irrnoise":
        ds += _cmp_noise("irregular noise_variance", impl["v"], outs[0])
    return ds


# --------------------------------------------------------------------------
# the property's own predicate, evaluated on the implementation
# --------------------------------------------------------------------------

def _is_err(x):
    return isinstance(x, dict) and "error" in x


def _exact_mean(Xf):
    N = len(Xf)
    return [sum(r[j] for r in Xf) / N for j in range(len(Xf[0]))]


def _exact_cov(Xf):
    N = len(Xf)
    m = len(Xf[0])
    mu = _exact_mean(Xf)
    return [[(sum(r[a] * r[b] for r in Xf) - N * mu[a] * mu[b]) / (N - 1) for b in range(m)] for a in range(m)]


def _shift_bound(c, v, s=S_MAX):
    """|c| s (2 r + |c| s) with r = sqrt(v) (C09.noise_shift_table)."""
    c = abs(float(c))
    return c * float(s) * (2 * math.sqrt(max(v, 0.0)) + c * float(s))


def oracle(case, impl):
    if "__crash__" in impl:
        return [dict(clause="runs", entry=case["kind"], msg=f"crash {impl['__crash__']}: {impl.get('msg')}")]
    kind = case["kind"]
    vs = []

    def bad(clause, msg, entry, causes=()):
        vs.append(dict(clause=clause, entry=entry, msg=msg, causes=list(causes)))

    if kind == "table":
        q = case["q"]
        if 1 <= q <= 10:
            d = impl["d"]
            if d is None or len(d) != q + 1:
                bad("table_length", f"DIFF_SEQUENCES[{q}] = {d}", "DIFF_SEQUENCES")
            else:
                s = sum(Fraction(repr(x)) for x in d)
                s2 = sum(Fraction(repr(x)) ** 2 for x in d)
                if abs(s) > S_MAX:
                    bad("table_sum", f"weights of order {q} sum to {float(s)}: adding a constant to a curve changes its noise estimate", "DIFF_SEQUENCES")
                if abs(s2 - 1) > SSQ_TOL:
                    bad("table_sumsq", f"squared weights of order {q} sum to {float(s2)}: the estimator is miscalibrated", "DIFF_SEQUENCES")
    elif kind == "meancov":
        entry_m, entry_c = "DenseFunctionalData.mean", "DenseFunctionalData.covariance"
        if "error" in impl:
            bad("runs", f"raised {impl['error']}: {impl.get('msg')}", entry_c)
            return vs
        Xf = _Fm(case["X"])
        N, m = len(Xf), len(Xf[0])
        big = float(max(abs(x) for r in Xf for x in r)) + 1e-300
        i = close_all(impl["mean"], _exact_mean(Xf), big, 1e-9)
        if i is not None or impl["mean_shape"] != [1, m]:
            bad("mean_average", f"mean is not the pointwise average (index {i}, shape {impl['mean_shape']})", entry_m)
        C = np.array(impl["cov"], dtype=float)
        E = _exact_cov(Xf)
        sc = _cov_scale(Xf)
        if impl["cov_shape"] != [1, m, m]:
            bad("cov_shape", f"covariance shape {impl['cov_shape']}", entry_c)
        else:
            d = _cmp_cov_entrywise("cov", C.tolist(), E, _cov_scales(Xf))
            if d:
                bad("cov_unbiased", d[0].replace("vs exact", "but the unbiased sample covariance is"), entry_c)
            colbig = [float(max(abs(r[j]) for r in Xf)) + 1e-300 for j in range(m)]
            em = _exact_mean(Xf)
            for j in range(m):
                if not close(impl["mean"][j], em[j], colbig[j], 1e-9):
                    bad("mean_average", f"mean at grid point {j} is {impl['mean'][j]!r}, the pointwise average {float(em[j])!r}", entry_m)
                    break
            if not np.array_equal(C, C.T):
                bad("cov_symmetric", "covariance is not exactly symmetric", entry_c)
            if np.linalg.eigvalsh((C + C.T) / 2).min() < -1e-8 * sc * m:
                bad("cov_psd", f"covariance has eigenvalue {np.linalg.eigvalsh((C + C.T) / 2).min()}", entry_c)
            t = fl(_Fv(case["t"]))
            if impl["cov_args"] != [t, t]:
                bad("cov_support", "covariance does not live on argvals x argvals", entry_c)
            P = np.array(impl["cov_perm"], dtype=float)
            if np.abs(P - C).max() > 1e-9 * sc:
                bad("cov_perm", f"covariance changes by {np.abs(P - C).max()} under a permutation of the observations", entry_c)
            if np.abs(np.array(impl["mean_perm"]) - np.array(impl["mean"])).max() > 1e-9 * big:
                bad("mean_perm", "mean changes under a permutation of the observations", entry_m)
            a = float(F(case["a"]))
            A = np.array(impl["cov_aff"], dtype=float)
            cmax = float(max(abs(F(x)) for x in case["c"]))
            sc_aff = a * a * sc + 1e-6 * (abs(a) * big + cmax) * abs(a) * math.sqrt(sc) + 1e-12 * (abs(a) * big + cmax) ** 2
            if np.abs(A - a * a * C).max() > 1e-9 * sc_aff + 1e-300:
                bad("cov_affine", f"cov(aX+c) differs from a^2 cov(X) by {np.abs(A - a * a * C).max()}", entry_c)
        if not (impl["noise_cov"] >= 0):
            bad("noise_cov_nonneg", f"covariance-diagonal noise estimate {impl['noise_cov']}", "_estimate_noise_variance_with_covariance")
        if impl["hist0_mean"] != impl["mean"] or impl["hist0_cov"] != impl["cov"]:
            bad("stale_state", "mean()/covariance() on an object that had already been asked with other options differ from a fresh object's", entry_c, ["history"])
        if impl["hist_mean"] != impl["mean_aff"] or impl["hist_cov"] != impl["cov_aff"]:
            bad("stale_state", "after replacing .values on an object that had already estimated its mean/covariance, the estimates differ from a fresh object's",
                entry_c, ["history"])
        if impl["multi_mean"] != [impl["mean"], impl["mean_aff"]]:
            bad("multivariate_componentwise", "multivariate mean is not the list of component means", "MultivariateFunctionalData.mean")
    elif kind == "mean2d":
        if "error" in impl:
            bad("runs", f"raised {impl['error']}: {impl.get('msg')}", "DenseFunctionalData.mean")
            return vs
        Xf = _Fm(case["X"])
        big = float(max(abs(x) for r in Xf for x in r)) + 1e-300
        i = close_all(impl["mean"], _exact_mean(Xf), big, 1e-9)
        if i is not None or impl["mean_shape"] != [1, len(case["t1"]), len(case["t2"])]:
            bad("mean_average", f"2-D mean is not the pointwise average (index {i}, shape {impl['mean_shape']})", "DenseFunctionalData.mean")
        if impl["noise"] != 0:
            bad("noise_2d", f"2-D noise variance {impl['noise']} (documented: 0)", "DenseFunctionalData.noise_variance")
    elif kind == "covsmooth":
        entry = "DenseFunctionalData.covariance"
        if "error" in impl:
            bad("runs", f"smoothed covariance raised {impl['error']}: {impl.get('msg')}", entry)
            return vs
        if case.get("irr"):
            entry = "IrregularFunctionalData.covariance"
        if "train" in impl:
            tr = impl["train"]
            m_ = len(case["t"])
            diag_rows = [k for k, xk in enumerate(tr["x"]) if xk[0] == xk[1]]
            if diag_rows or len(tr["y"]) != m_ * (m_ - 1):
                bad("lp_diagonal_removed", f"the LP covariance smoother was trained on {len(tr['y'])} raw-covariance entries, {len(diag_rows)} of them diagonal "
                    f"(contaminated by the measurement-error variance); expected the {m_ * (m_ - 1)} off-diagonal ones", entry)
        C = np.array(impl["cov"], dtype=float)
        pts = fl(_Fv(case["points"] if case["points"] is not None else case["t"]))
        p = len(pts)
        S = np.array(impl["cov_sub"], dtype=float)
        if S.shape == C.shape:
            both = np.isfinite(C) & np.isfinite(S)
            sc = max(np.abs(C[both]).max(initial=0.0), np.abs(S[both]).max(initial=0.0), 1e-300)
            if both.any() and np.abs(C - S)[both].max() > 1e-8 * sc:
                i, j = np.unravel_index(np.argmax(np.where(both, np.abs(C - S), 0)), C.shape)
                bad("smooth_location", f"smoothed covariance at ({pts[i]}, {pts[j]}) is {C[i, j]} when these {p} points are requested "
                    f"({case.get('mode')}) but {S[i, j]} when they are part of a request of {impl['n_q2']} points: the values do not live on the requested points",
                    entry, [str(case.get("mode"))])
        if impl["cov_shape"] != [1, p, p] or impl["cov_args"] != [pts, pts]:
            bad("smooth_support", f"smoothed covariance of shape {impl['cov_shape']} does not live on the {p} requested points", entry)
        elif not np.all(np.isfinite(C)):
            pass  # the smoother itself (C05/C06) is not judged here
        elif not np.array_equal(C, C.T):
            bad("smooth_symmetric", f"smoothed covariance is not symmetric (max |C - C^T| = {np.abs(C - C.T).max()})", entry)
        if not (impl["noise_cov"] >= 0 or math.isnan(impl["noise_cov"])):
            bad("noise_cov_nonneg", f"covariance-diagonal noise estimate {impl['noise_cov']}", "_estimate_noise_variance_with_covariance")
    elif kind == "covirr":
        entry = "IrregularFunctionalData.covariance"
        if "error" in impl:
            bad("runs", f"raw irregular covariance raised {impl['error']}: {impl.get('msg')}", entry)
            return vs
        keep = case["keep"]
        m = len(case["t"])
        for nm in ("raw", "cen_cov"):
            C = np.array(impl[nm], dtype=float)
            if C.shape != (m, m) or not np.all(np.isfinite(C)):
                bad("covirr_finite", f"{nm}: shape {C.shape} / non-finite entries", entry)
                continue
            if not np.array_equal(C, C.T):
                bad("cov_symmetric", f"raw irregular covariance ({nm}) is not symmetric", entry)
            for a in range(m):
                for b in range(m):
                    if not any(k[a] and k[b] for k in keep) and C[a, b] != 0:
                        bad("covirr_never_coobserved", f"points {a} and {b} are never observed together but the raw covariance there is {C[a, b]}", entry)
                        break
                else:
                    continue
                break
            if np.diag(C).min() < 0:
                bad("covirr_diag", f"negative diagonal {np.diag(C).min()}", entry)
        if "dense_raw" in impl:
            N = len(case["X"])
            Dn = np.array(impl["dense_raw"], dtype=float) * (N - 1) / N
            R = np.array(impl["raw"], dtype=float)
            if np.abs(R - Dn).max() > 1e-9 * max(np.abs(Dn).max(), 1e-300):
                bad("covirr_complete", f"complete data: the irregular raw covariance is not (n-1)/n times the dense one (max diff {np.abs(R - Dn).max()})", entry)
    elif kind in ("noise", "noise1"):
        entry = "DenseFunctionalData.noise_variance" if kind == "noise" else "_estimate_noise_variance"
        order = case["order"]
        v = impl["v"]
        inr = 1 <= order <= 10
        if not inr:
            for nm in ("v", "v_shift", "v_scale"):
                if not (isinstance(impl[nm], dict) and impl[nm].get("error") == "ValueError"):
                    bad("order_guard", f"order {order} is not rejected with ValueError: {impl[nm]!r}", entry)
                    break
            return vs
        if isinstance(v, dict) or isinstance(impl["v_shift"], dict) or isinstance(impl["v_scale"], dict):
            bad("runs", f"order {order} raised: {v!r}", entry)
            return vs
        L = len(case["X"][0]) if case["X"] else 0
        a, c = float(F(case["a"])), float(F(case["c"]))
        xmax = float(max([abs(F(x)) for r in case["X"] for x in r] + [Fraction(0)]))
        if not (v >= 0 and impl["v_shift"] >= 0 and impl["v_scale"] >= 0):
            bad("noise_nonneg", f"negative noise variance {v}, {impl['v_shift']}, {impl['v_scale']}", entry)
        if L < order + 1 and (v != 0 or impl["v_shift"] != 0 or impl["v_scale"] != 0):
            bad("noise_short", f"curves of length {L} < order+1 = {order + 1} give {v}", entry)
        # rounding of the windows: gamma * (|x|+|c|) * sum|d| per window, entering squared
        wtol = lambda amp, val: 1e-9 * val + 2 * math.sqrt(max(val, 0)) * GAMMA * 4 * amp + (GAMMA * 4 * amp) ** 2 + 1e-300  # noqa: E731
        if abs(impl["v_scale"] - a * a * v) > wtol(abs(a) * xmax, a * a * v) + abs(a * a) * wtol(xmax, v):
            bad("noise_scale", f"noise(aX) = {impl['v_scale']} but a^2 noise(X) = {a * a * v} (a = {a})", entry)
        if kind == "noise":
            per, per_s = impl["per"], impl["per_shift"]
            if isinstance(per, dict) or isinstance(per_s, dict):
                bad("runs", f"per-curve estimator raised {per!r}", "_estimate_noise_variance")
                return vs
            bound = sum(_shift_bound(c, p) for p in per) / len(per)
            mean_per = sum(per) / len(per)
            rt = 2 * max(wtol(xmax, p) for p in per)  # two float evaluations of the same windows may round differently
            if abs(v - mean_per) > rt:
                bad("noise_mean_of_curves", f"data-set estimate {v} is not the mean {mean_per} of the per-curve estimates", entry)
            if any(abs(s1 - p) > rt for s1, p in zip(impl["singles"], per)):
                bad("noise_mean_of_curves", "estimate of a single-curve data set differs from the per-curve estimator", entry)
            _state_violations(impl["states"], bad, lambda nm: "DenseFunctionalData." + nm.split("(")[0])
            mu = impl["multi"]
            if _is_err(mu):
                bad("runs", f"multivariate noise_variance({order}) raised {mu!r}", "MultivariateFunctionalData.noise_variance")
            else:
                if len(mu["multi"]) != 2 or abs(mu["multi"][0] - v) > rt or abs(mu["multi"][1] - impl["v_scale"]) > abs(a * a) * rt + 1e-300:
                    bad("multivariate_componentwise", f"multivariate noise_variance(order={order}) = {mu['multi']} but the components give {[v, impl['v_scale']]}",
                        "MultivariateFunctionalData.noise_variance")
                if abs(mu["hist"] - impl["v_scale"]) > abs(a * a) * rt + 1e-300:
                    bad("stale_state", f"noise_variance({order}) after another order and after replacing .values gives {mu['hist']}, a fresh object {impl['v_scale']}", entry, ["history"])
            if abs(impl["v_perm"] - v) > rt:
                bad("noise_perm", f"estimate changes under a permutation of the curves: {v} vs {impl['v_perm']}", entry)
            if case.get("ck") == "impulse":
                for x, p in zip(case["X"], per):
                    sig2 = float(sum(F(y) ** 2 for y in x))
                    if abs(p * (L - order) - sig2) > (float(SSQ_TOL) + 1e-9) * sig2:
                        bad("noise_calibrated", f"an isolated spike of squared height {sig2} on {L} points is estimated as {p} "
                            f"(expected {sig2}/(L-order) = {sig2 / (L - order)} up to 1.1e-4: sum of squared weights is not 1)", entry)
                        break
        else:
            bound = _shift_bound(c, v)
        if abs(impl["v_shift"] - v) > bound * (1 + 1e-9) + wtol(xmax + abs(c), max(v, impl["v_shift"])) + wtol(xmax, v):
            bad("noise_shift", f"adding c = {c} moves the estimate from {v} to {impl['v_shift']}; proved bound {bound:.6g}", entry)
    elif kind == "irrnoise":
        v = impl["v"]
        order = case["order"]
        if not (1 <= order <= 10):
            if not (isinstance(v, dict) and v.get("error") == "ValueError"):
                bad("order_guard", f"order {order} is not rejected with ValueError: {v!r}", "IrregularFunctionalData.noise_variance")
        elif isinstance(v, dict):
            bad("runs", f"raised {v!r}" + (" on a sub-selection fdata[1:]" if case.get("sub") else ""), "IrregularFunctionalData.noise_variance",
                ["subset-labels"] if case.get("sub") else [])
        else:
            if not v >= 0:
                bad("noise_nonneg", f"negative noise variance {v}", "IrregularFunctionalData.noise_variance")
            if all(sum(1 for y in o["y"] if y != "nan") < order + 1 for o in case["obs"]) and v != 0:
                bad("noise_short", f"all curves shorter than order+1 but estimate {v}", "IrregularFunctionalData.noise_variance")
            per = impl.get("per")
            if per is not None and not isinstance(per, dict):
                exp = sum(per) / len(per)
                if not abs(v - exp) <= 1e-12 * max(abs(exp), 1e-300) + 1e-300:
                    n_short = sum(1 for o in case["obs"] if sum(1 for y in o["y"] if y != "nan") < order + 1)
                    bad("noise_mean_of_curves", f"irregular data ({case['enc']} encoding, {n_short} of {len(per)} curves with fewer than order+1 = {order + 1} samples): "
                        f"estimate {v} is not the mean {exp} over ALL curves of the per-curve estimates {per} (too-short curves count 0)",
                        "IrregularFunctionalData.noise_variance")
        _state_violations(impl["states"], bad, lambda nm: "IrregularFunctionalData." + nm.split("(")[0])
    elif kind == "scale":
        cls = {"dense": "DenseFunctionalData", "dense2d": "DenseFunctionalData", "irregular-points": "IrregularFunctionalData",
               "irregular-nan": "IrregularFunctionalData", "multivariate": "MultivariateFunctionalData"}[case["flavour"]]
        if "error" in impl:
            bad("runs", f"amplitude sweep on {case['flavour']} data raised {impl['error']}: {impl.get('msg')}", cls)
            return vs
        _sweep_violations(impl, bad, lambda nm: cls + "." + nm.split("(")[0].split(" ")[0])
    elif kind == "untouched":
        cls = {"dense": "DenseFunctionalData", "irregular-points": "IrregularFunctionalData", "irregular-nan": "IrregularFunctionalData",
               "multivariate": "MultivariateFunctionalData"}[case["flavour"]]
        if "error" in impl:
            bad("runs", f"estimators on {case['flavour']} data raised {impl['error']}: {impl.get('msg')}", cls)
            return vs
        for nm, r in impl["est"].items():
            entry = cls + "." + nm.split("(")[0]
            if isinstance(r, dict) and "error" in r:
                bad("runs", f"{nm} on {case['flavour']} data raised {r['error']}: {r.get('msg')}", entry)
                continue
            if not r["same"] or not r["caller_same"]:
                bad("data_untouched", f"{nm} changed the {'arrays the caller handed in' if not r['caller_same'] else 'object'} ({case['flavour']} data): "
                    "values / sampling points differ from the snapshot taken before the call", entry, ["estimator-mutates-data"])
                continue
            for an, a in r["after"].items():
                if not _same(a, impl["fresh"][an]):
                    bad("stale_state", f"{an} after {nm} on the same {case['flavour']} object gives {str(a)[:80]}, a fresh object {str(impl['fresh'][an])[:80]}",
                        cls + "." + an.split("(")[0], ["history", "after-estimator"])
                    break
    elif kind == "derived":
        if "error" in impl:
            bad("runs", f"derived objects raised {impl['error']}: {impl.get('msg')}", "DenseFunctionalData")
            return vs
        for nm, r in impl.items():
            if isinstance(r, dict) and "error" in r:
                bad("runs", f"estimators on {nm} raised {r['error']}: {r.get('msg')}", "DenseFunctionalData.mean")
                continue
            for e, (a, b, sc) in r.items():
                if not _same(a, b, sc):
                    bad("derived_object", f"{e} of the object returned by {nm} is {str(a)[:90]} but a freshly built object with the same values gives {str(b)[:90]}",
                        "DenseFunctionalData." + e.split("(")[0], ["derived:" + nm])
                    break
    return vs


def nontrivial(case, impl):
    if case.get("ck") in ("const",) and case["kind"] != "noise":
        return None
    return common.digest(case)


def classify(case, impl):
    tags = ["kind:" + case["kind"], "content:" + str(case.get("ck"))]
    if "order" in case:
        tags.append("order:" + str(case["order"]))
        if case["kind"] in ("noise", "noise1"):
            L = len(case["X"][0]) if case["X"] else 0
            o = case["order"]
            tags.append("len-vs-order:" + ("short" if L < o + 1 else "exact" if L == o + 1 else "longer"))
    if "X" in case and case["kind"] in ("meancov", "covsmooth"):
        tags.append("n_obs:" + ("2" if len(case["X"]) == 2 else "3-9" if len(case["X"]) < 10 else "10+"))
    if case["kind"] == "covirr":
        tags.append("covirr:" + case["mode"] + ":" + case["enc"])
    if case["kind"] == "covsmooth":
        tags.append("smooth:" + case["method"] + ":" + str(case.get("mode")) + (":irregular" if case.get("irr") else ""))
    if case.get("sub"):
        tags.append("irregular:subselection")
    if case.get("vorder") or (case.get("irr") or {}).get("vorder"):
        tags.append("irregular:values-dict-in-another-key-order")
    if case.get("some_short"):
        tags.append("irregular:some-curves-too-short")
    if case.get("int"):
        tags.append("dtype:int64")
    if case.get("layout"):
        tags.append("layout:" + case["layout"])
    if case.get("sized"):
        n = len(case["X"]) if case["kind"] == "meancov" else len(case["X"][0])
        tags.append("size-threshold:" + str(n))
    if case.get("off") not in (None, "0"):
        tags.append("offset:nonzero" if abs(F(case["off"])) < 2 ** 19 else "offset>>spread")
    return tags
