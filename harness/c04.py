"""C04 — MFPCA: orthonormal product-space eigenfunctions and coherent scores."""
import itertools
import math
import warnings
from fractions import Fraction

import numpy as np

from common import F, Rng, close, digest, fl, rs

PROP = "C04"
MODULES = ["FDAProofs.Props.C04"]
DRIVER = "Drivers/C04.lean"
PARALLEL = True
RULE = (
    "seeded multivariate datasets with P in 1..3 dense 1-D components on DIFFERENT grids (non-uniform dyadic), domains, "
    "numbers of points (8..24) and observations (5..22), smooth + rough mean curves, univariate expansions UFPCA "
    "(1..4 components) / PSplines (2..5 segments, degree 1..3, several penalties) of different sizes per component, "
    "n_components 1..sum of sizes (int) and fractions, normalize in {F,T}; every case is fitted in ALL P! orders of the "
    "components, twice on the same estimator object, with np.linalg.eig/cholesky, _compute_eigen and _block_diag (as "
    "imported by mfpca) wrapped from outside; plus helper-level _block_diag cases with arbitrary rectangular blocks; "
    "non-trivial = fit succeeded and at least one positive eigenvalue retained; distinct by content hash"
)
PARTIAL = [
    "the univariate scores, the Cholesky factors and the output of _compute_eigen are captured parameters; the residuals "
    "of their contracts (L Lᵀ = B, Z c = ν c) are measured on every case (evidence: max_contract_residual)",
    "theorem orthonormal_product_partial needs pairwise distinct positive eigenvalues and column-centred univariate scores",
    "square roots (√ν·√normSqProj, √weight) are taken in float from exact squares",
    "Basis.inner_product zeroes entries below 1e-12·max|G| (relative since f5d5f39): absorbed by a tolerance at that scale",
    "Gram matrices failing the Cholesky test need statsmodels (absent): classified, not modelled",
    "irregular components: only well-formedness (runs / shapes / finite) is sampled",
    "NumInt scores involve local-polynomial smoothing of the new data: only shape and finiteness are sampled",
    "Gram route: the eigen-solver output (l, v) and the curves `_data_inpro` (data centred once more by inner_product) are "
    "captured; orthonormality of v is a solver contract; transform(None, 'NumInt') integrates the fit-centred training data, "
    "not `_data_inpro` (the proved NumInt = InnPro identity is checked on `_data_inpro`)",
]
TRUSTED_EXTRA = [
    "translator harness/c04_translate.py (Python `ast`, syntax only: numeric literals, `.T`, operand order of `@`, subscripts and slices, "
    "keyword arguments, factors of a product in _fit_covariance_multivariate and the scaling expression of MFPCA.inverse_transform) -> "
    "lean/FDAModel/Generated/MfpcaBlocks.lean; reference translation harness/c04_mfpcablocks_reference.lean used when the source shape is "
    "not recognised",
]

# --------------------------------------------------------------------------
# translator: bookkeeping of mfpca.py -> lean/FDAModel/Generated/MfpcaBlocks.lean
# --------------------------------------------------------------------------
import os  # noqa: E402

import c04_translate  # noqa: E402
import common  # noqa: E402

GEN_FILE = os.path.join(common.LEAN_DIR, "FDAModel", "Generated", "MfpcaBlocks.lean")
REFERENCE = os.path.join(os.path.dirname(os.path.abspath(__file__)), "c04_mfpcablocks_reference.lean")
TRANSLATOR = dict(status="not run")


def translate():
    """Regenerate Generated/MfpcaBlocks.lean from what mfpca.py says now.  An unrecognised source shape is NOT an alarm:
    the reference translation kept beside the translator is used (not what an earlier run left in Generated/), a note is
    printed and put into the evidence; only a successful translation can break `C04.source_blocks`."""
    path = os.path.join(common.REPO, "FDApy", "preprocessing", "dim_reduction", "mfpca.py")
    try:
        x = c04_translate.parse(path)
        src = c04_translate.lean_source(x)
        TRANSLATOR.clear()
        TRANSLATOR.update(status="translated", **x)
    except (ValueError, SyntaxError, IndexError, AttributeError, KeyError, TypeError) as e:
        TRANSLATOR.clear()
        TRANSLATOR.update(status="translator: source shape not recognised, tie rests on the correspondence only", detail=str(e)[:140])
        print("note:", TRANSLATOR["status"], "(" + TRANSLATOR["detail"] + ")")
        src = open(REFERENCE).read()
    except OSError as e:
        raise common.InfraError(f"translator: cannot read {path}: {e}")
    if not os.path.exists(GEN_FILE) or open(GEN_FILE).read() != src:
        os.makedirs(os.path.dirname(GEN_FILE), exist_ok=True)
        with open(GEN_FILE, "w") as fh:
            fh.write(src)


# --------------------------------------------------------------------------
# generation
# --------------------------------------------------------------------------

def _round(q, bits=10):
    return Fraction(round(q * 2 ** bits), 2 ** bits)


def _component(rng: Rng, N, m, rough, amp=Fraction(1), wide=False, grid=None):
    lo = rng.choice([0, 0, -1, 10, Fraction(-7, 2)])
    scale = rng.choice([1, 1, 2, 5, Fraction(1, 2)])
    if wide:  # scale sweep: domains of length 2^-10 … 2^10, offsets up to 1024 (all exact dyadic)
        lo = rng.choice([0, 1024, -512, Fraction(1, 1024)])
        scale = rng.choice([Fraction(1, 1024), Fraction(1, 32), 64, 1024])
    if grid is not None:  # forced NON-uniform grid (lo, length), e.g. wavelengths in metres: steps ~1e-10 … 1e-8
        lo, scale = grid
        t = rng.grid(m, lo=lo, scale=scale, uniform=False)
    else:
        t = rng.grid(m, lo=lo, scale=scale)
    span = t[-1] - t[0]
    u = [(x - t[0]) / span for x in t]  # in [0, 1]
    k = rng.randint(3, 6)
    amps = [[rng.dyadic(-2, 2, 3) / (j + 1) for j in range(k)] for _ in range(N)]
    # mean: smooth trend, optionally with a kink and a step (so that its P-spline smooth differs from it)
    a0, a1 = rng.dyadic(-2, 2, 2), rng.dyadic(-3, 3, 2)
    kink = rng.choice([Fraction(1, 4), Fraction(1, 2), Fraction(3, 4)])
    hk = rng.dyadic(-4, 4, 1) if rough else Fraction(0)
    noise = Fraction(1, rng.choice([4, 8, 16, 64]))
    X = []
    for i in range(N):
        row = []
        for x in u:
            v = a0 + a1 * x + hk * (abs(x - kink)) + (hk / 2 if (rough and x > kink) else 0)
            for j in range(k):
                # polynomial "modes" (Legendre-like, exact rationals)
                pj = [1, 2 * x - 1, 6 * x * x - 6 * x + 1, (2 * x - 1) ** 3, x * (1 - x) * (2 * x - 1) * 4, (2 * x - 1) ** 4][j]
                v += amps[i][j] * pj
            v += noise * rng.dyadic(-1, 1, 4)
            row.append(_round(v) * amp)
        X.append(row)
    return dict(t=[rs(x) for x in t], X=[[rs(x) for x in r] for r in X])


def _expansion(rng: Rng, m, ufpca_only=False):
    if ufpca_only or rng.random() < 0.5:
        return dict(method="UFPCA", n_components=rng.randint(1, 4))
    e = dict(method="PSplines", n_segments=rng.randint(2, min(5, max(2, m // 3))), degree=rng.randint(1, 3))
    if rng.random() < 0.5:
        e["penalty"] = [float(rng.choice([Fraction(1, 4), 1, 4, 32]))]
    return e


def _size(e):
    return e["n_components"] if e["method"] == "UFPCA" else e["n_segments"] + e["degree"]


def _case(rng: Rng, big=False, ufpca_only=False):
    P = rng.choice([1, 2, 2, 3, 3])
    ms = [rng.randint(8, 24 if big else 16) for _ in range(P)]
    exps = [_expansion(rng, m, ufpca_only) for m in ms]
    M = sum(_size(e) for e in exps)
    r = rng.random()
    if r < 0.75:
        N = min(M + rng.randint(3, 8), 30)
    else:
        N = rng.randint(5, max(6, M))  # fewer observations than coefficients: rank-deficient score covariance
    rough = rng.random() < 0.6
    # scale sweep (exact powers of two): common amplitude 2^±20, per-component factors 2^±4, wide domains
    sweep = rng.random() < 0.25
    amp = Fraction(2) ** rng.choice([-20, -8, 8, 20]) if sweep else Fraction(1)
    comps = [_component(rng, N, m, rough, amp * (Fraction(2) ** rng.choice([-4, 0, 0, 4]) if sweep else 1), wide=sweep and rng.random() < 0.6)
             for m in ms]
    r = rng.random()
    if r < 0.7:
        nc = rng.randint(1, M)
    elif r < 0.85:
        nc = M
    else:
        nc = float(rng.choice([Fraction(1, 2), Fraction(3, 4), Fraction(9, 10), Fraction(99, 100)]))
    for c in comps:
        if rng.random() < 0.25:
            c["layout"] = rng.choice(["F", "strided"])
    share = False
    if P >= 2 and rng.random() < 0.3:
        # components on the IDENTICAL grid (also literally the same DenseArgvals object) expanded in DIFFERENT bases
        # of EQUAL size: nothing but the basis functions themselves tells the Gram matrices apart
        share = True
        size = rng.choice([4, 5, 6])
        m = max(len(comps[0]["t"]), size + 3)
        base = _component(rng, N, m, rough)
        kinds = [dict(method="PSplines", n_segments=size - 2, degree=2), dict(method="PSplines", n_segments=size - 3, degree=3),
                 dict(method="UFPCA", n_components=size), dict(method="PSplines", n_segments=size - 1, degree=1)]
        rng.shuffle(kinds)
        for q in range(P):
            if q > 0:
                cq = _component(rng, N, m, rough)
                cq["t"] = list(base["t"])
                comps[q] = cq
            else:
                comps[q] = base
            exps[q] = kinds[q]
            comps[q]["share_argvals"] = rng.random() < 0.5
        M = sum(_size(e) for e in exps)
        if isinstance(nc, int):
            nc = min(nc, M)
    return dict(kind="fit", comps=comps, exps=exps, n_components=nc, normalize=rng.random() < 0.3, rough=rough, sweep=sweep, share=share)


NANO = (Fraction(1, 2 ** 21), Fraction(1, 2 ** 27))  # 4.8e-7 m, length 7.5e-9 m: every step below 1e-8 (exact dyadic)


def _nano_cases(rng: Rng):
    """Grid scale × non-uniformity, structured, every run: non-uniform grids in small units — alone, for all components, and
    mixed with an ordinary-scale component; both expansions."""
    layouts = [[(True, "PSplines")], [(True, "UFPCA")], [(True, "PSplines"), (True, "UFPCA")], [(True, "PSplines"), (False, "UFPCA")],
               [(False, "PSplines"), (True, "PSplines"), (True, "UFPCA")]]
    for lay in layouts:
        N = 16
        comps, exps = [], []
        for nano, meth in lay:
            m = rng.randint(10, 14)
            comps.append(_component(rng, N, m, rough=False, grid=NANO if nano else (Fraction(rng.choice([0, -1])), Fraction(rng.choice([1, 2])))))
            exps.append(dict(method="UFPCA", n_components=3) if meth == "UFPCA" else dict(method="PSplines", n_segments=3, degree=2))
        yield dict(kind="fit", comps=comps, exps=exps, n_components=min(3, sum(_size(e) for e in exps)), normalize=False, rough=False,
                   sweep=False, share=False, nano=True)


def _bd_case(rng: Rng):
    nb = rng.randint(1, 4)
    shapes = [(rng.randint(1, 4), rng.randint(1, 4)) for _ in range(nb)]
    if rng.random() < 0.5:
        shapes = [(a, a) for a, _ in shapes]
    blocks = [[[rs(rng.dyadic(-4, 4, 2)) for _ in range(c)] for _ in range(r)] for r, c in shapes]
    return dict(kind="blockdiag", shapes=shapes, blocks=blocks)


def gen_cases(rng: Rng, tier):
    n = dict(quick=48, thorough=900)[tier]
    for k in range(n):
        yield _case(rng, big=(tier == "thorough" and k % 4 == 0), ufpca_only=(k % 3 == 0))
    for k in (2, 3):  # structured: k fitted components, all-UFPCA, so that k×k score blocks are exercised in every run
        c = _case(rng, ufpca_only=True)
        c.update(n_components=k, normalize=(k == 3))
        for e in c["exps"]:
            if e["method"] == "UFPCA":
                e["n_components"] = max(e["n_components"], 3)
        yield c
    yield from _nano_cases(rng)
    for _ in range(dict(quick=30, thorough=300)[tier]):
        yield _bd_case(rng)
    for _ in range(dict(quick=4, thorough=40)[tier]):
        c = _case(rng)
        c["kind"] = "irregular"
        yield c
    # Gram (inner-product) route
    for _ in range(dict(quick=10, thorough=120)[tier]):
        c = _case(rng, ufpca_only=True)
        c["kind"] = "gram"
        c["n_components"] = rng.randint(1, 4)
        c["noise"] = rng.choice(["zero", "zero", "estimated", "given"])
        yield c


def search_cases(rng, tier):
    for _ in range(100 if tier == "quick" else 500):
        yield _case(rng)
    for _ in range(40):
        yield _bd_case(rng)


def witness_cases():
    import json
    import os

    from common import VERIF

    out = []
    path = os.path.join(VERIF, "known_findings.d", "C04.json")
    if os.path.exists(path):
        for f in json.load(open(path)).get("open", []):
            if f.get("witness"):
                out.append(dict(f["witness"]))
    return out


# --------------------------------------------------------------------------
# implementation side
# --------------------------------------------------------------------------

def _mfd(comps, order):
    from FDApy.representation.argvals import DenseArgvals
    from FDApy.representation.functional_data import DenseFunctionalData, MultivariateFunctionalData
    from FDApy.representation.values import DenseValues

    out = []
    shared = {}
    for p in order:
        c = comps[p]
        t = np.array(fl([F(x) for x in c["t"]]))
        X = np.array([[float(F(x)) for x in r] for r in c["X"]])
        lay = c.get("layout", "C")  # memory-layout sweep: Fortran-ordered / strided views of the same values
        if lay == "F":
            X = np.asfortranarray(X)
        elif lay == "strided":
            big = np.zeros((X.shape[0], 2 * X.shape[1]))
            big[:, ::2] = X
            X = big[:, ::2]
        arg = DenseArgvals({"input_dim_0": t})
        if c.get("share_argvals"):
            arg = shared.setdefault(tuple(c["t"]), arg)  # literally the same DenseArgvals object for equal grids
        out.append(DenseFunctionalData(arg, DenseValues(X)))
    return MultivariateFunctionalData(out)


class _Capture:
    """Wrap numpy.linalg.eig / cholesky and mfpca._compute_eigen / _block_diag from outside."""

    def __enter__(self):
        from FDApy.preprocessing.dim_reduction import mfpca as M

        self.M = M
        self.chol, self.eig, self.ce, self.bd = [], [], [], []
        self._o = (np.linalg.cholesky, np.linalg.eig, M._compute_eigen, M._block_diag)
        oc, oe, oce, obd = self._o

        def chol(a, *k, **kw):
            out = oc(a, *k, **kw)
            self.chol.append((np.array(a, copy=True), np.array(out, copy=True)))
            return out

        def eig(a, *k, **kw):
            out = oe(a, *k, **kw)
            self.eig.append((np.array(a, copy=True), np.array(out[0], copy=True), np.array(out[1], copy=True)))
            return out

        def ce(data, n_components=None):
            n0 = len(self.eig)
            out = oce(data, n_components=n_components) if n_components is not None else oce(data)
            self.ce.append(dict(Z=np.array(data, copy=True), nu=np.array(out[0], copy=True), c=np.array(out[1], copy=True),
                                raw=np.real(self.eig[n0][1]) if len(self.eig) > n0 else None))
            return out

        def bd(*arrs):
            out = obd(*arrs)
            self.bd.append(([np.array(a, copy=True) for a in arrs], np.array(out, copy=True)))
            return out

        np.linalg.cholesky, np.linalg.eig = chol, eig
        M._compute_eigen, M._block_diag = ce, bd
        return self

    def __exit__(self, *a):
        np.linalg.cholesky, np.linalg.eig, self.M._compute_eigen, self.M._block_diag = self._o
        return False


def _fit(case, order, est=None, typed=False):
    """Fit on the components in the given order; returns a dict of observables (floats)."""
    from FDApy.preprocessing.dim_reduction.mfpca import MFPCA

    comps = case["comps"]
    exps = [dict(case["exps"][p]) for p in order]
    exps_before = [dict(e) for e in exps]
    data = _mfd(comps, order)
    out = dict(order=list(order))
    with _Capture() as cap:
        if est is None:
            nc, nrm = case["n_components"], case["normalize"]
            if typed:  # the same option VALUES in other-but-equivalent types
                nc = np.float64(nc) if isinstance(nc, float) else nc  # NumPy integers are rejected by _select_number_eigencomponents
                nrm = np.bool_(nrm) if len(order) % 2 else int(nrm)
            est = MFPCA(n_components=nc, univariate_expansions=exps, method="covariance", normalize=nrm)
        with warnings.catch_warnings():
            warnings.simplefilter("ignore")
            with np.errstate(all="ignore"):
                try:
                    est.fit(data)
                except ModuleNotFoundError:
                    return dict(order=list(order), error="cholesky-fallback"), est
                except np.linalg.LinAlgError as e:
                    return dict(order=list(order), error="LinAlgError:" + str(e)[:60]), est
                except ValueError as e:
                    if sum(_size(x) for x in exps_before) == 1 and "matmul" in str(e):
                        # np.cov of a single column is 0-d: `(1×1) @ 0-d` raises
                        return dict(order=list(order), error="single-coefficient:" + str(e)[:80]), est
                    raise
    out["exps_unchanged"] = bool(est.univariate_expansions == exps_before)
    ce = cap.ce[-1]
    out["Z"] = ce["Z"].tolist()
    out["nu"] = ce["nu"].tolist()
    out["c"] = ce["c"].tolist()
    out["raw"] = None if ce["raw"] is None else ce["raw"].tolist()
    out["U"] = cap.bd[-1][1].tolist()
    out["Ublocks"] = [a.tolist() for a in cap.bd[-1][0]]
    xi = np.asarray(est._scores_univariate)
    out["xi"] = xi.tolist()
    basis = est._basis_univariate
    out["sizes"] = [int(b.coefficients.shape[1]) for b in basis]
    out["phi"] = [np.asarray(b.basis.values).tolist() for b in basis]
    out["B"] = [np.asarray(b.basis._inner_product_matrix).tolist() if getattr(b.basis, "_inner_product_matrix", None) is not None else None for b in basis]
    out["eigenvalues"] = np.asarray(est.eigenvalues).tolist()
    out["coef"] = [np.asarray(e.coefficients).tolist() for e in est.eigenfunctions.data]  # K × s_p each
    with np.errstate(all="ignore"):
        grid = est.eigenfunctions.to_grid()
        out["psi"] = [np.asarray(g.values).tolist() for g in grid.data]
        S = np.asarray(est.transform(method="PACE"))
        out["pace"] = S.tolist()
        rec = est.inverse_transform(S)
        out["rec"] = [np.asarray(r.values).tolist() for r in rec.data]
        out["rec_t"] = [np.asarray(r.argvals["input_dim_0"]).tolist() for r in rec.data]
    # option forwarding: P-spline coefficient blocks recomputed with PSplines called directly with the user's options
    from FDApy.preprocessing.smoothing.psplines import PSplines

    chk = []
    offs = np.concatenate([[0], np.cumsum(out["sizes"])])
    for q, e in enumerate(exps_before):
        if e.get("method") != "PSplines":
            chk.append(None)
            continue
        d = est._training_data.data[q]
        t = d.argvals["input_dim_0"]
        dev = 0.0
        try:
            for i in range(d.n_obs):
                ps = PSplines(n_segments=e["n_segments"], degree=e["degree"])
                ps.fit(y=d.values[i], x=[t], penalty=e.get("penalty", [1]))
                got = xi[i, int(offs[q]):int(offs[q + 1])]
                want = np.asarray(ps.beta_hat).flatten()
                dev = max(dev, float(np.abs(got - want).max()) / max(float(np.abs(want).max()), 1e-300)) if got.shape == want.shape else float("inf")
        except Exception as ex:  # noqa: BLE001
            dev = "error:" + type(ex).__name__
        chk.append(dev)
    out["ps_option_dev"] = chk
    # inverse_transform on score blocks of every row count around the number of fitted components (a square k×k block must
    # not be mistaken for a transposed layout): first rows of the training scores and a random k×k block
    K = len(np.asarray(est.eigenvalues))
    blk_dev, blk_err = 0.0, None
    if K >= 1 and all(_finite(x) for x in out["psi"]) and _finite(out["pace"]):
        S = np.asarray(out["pace"], dtype=float)
        rr = np.random.RandomState(K + len(S))
        blocks = [S[:r] for r in sorted({1, K - 1, K, K + 1}) if 1 <= r <= len(S)] + [rr.randint(-4, 5, size=(K, K)) / 2.0]
        sw = [np.sqrt(w) if est.normalize else 1.0 for w in np.asarray(est.weights, dtype=float)]
        mean_now = [np.asarray(m.values)[0] for m in est.mean.data]
        for B in blocks:
            try:
                with np.errstate(all="ignore"):
                    rec_b = est.inverse_transform(B)
                for q, r in enumerate(rec_b.data):
                    want = sw[q] * (B @ np.asarray(out["psi"][q], dtype=float)) + mean_now[q][None, :]
                    got = np.asarray(r.values, dtype=float)
                    if got.shape != want.shape:
                        blk_err = f"block {B.shape}: component {q} has shape {got.shape}, expected {want.shape}"
                        break
                    blk_dev = max(blk_dev, float(np.abs(got - want).max()) / max(float(np.abs(want).max()), 1e-300))
            except Exception as e:  # noqa: BLE001
                blk_err = f"block {B.shape}: {type(e).__name__}: {str(e)[:80]}"
            if blk_err:
                break
    out["inv_block_dev"], out["inv_block_err"] = blk_dev, blk_err
    out["mean"] = [np.asarray(m.values)[0].tolist() for m in est.mean.data]
    out["weights"] = [float(w) for w in np.asarray(est.weights)]
    out["sqrtw"] = [float(np.sqrt(w)) for w in np.asarray(est.weights)]
    return out, est


def run_impl(case):
    if case["kind"] == "blockdiag":
        from FDApy.misc.utils import _block_diag

        arrs = [np.array([[float(F(x)) for x in r] for r in b], dtype=float).reshape(sh) for b, sh in zip(case["blocks"], case["shapes"])]
        return dict(out=_block_diag(*arrs).tolist())
    if case["kind"] == "irregular":
        return _run_irregular(case)
    if case["kind"] == "gram":
        return _run_gram(case)
    P = len(case["comps"])
    fits = []
    est0 = None
    for order in itertools.permutations(range(P)):
        o, est = _fit(case, order)
        fits.append(o)
        if est0 is None:
            est0 = est
    out = dict(fits=fits)
    # history on ONE estimator object: fit again (same data, same expansions object held by the estimator)
    if "error" not in fits[0]:
        o2, _ = _fit(case, tuple(range(P)), est=est0)
        keys = ("eigenvalues", "coef", "pace", "rec", "xi")
        out["refit_same"] = bool("error" not in o2 and all(_same(fits[0][k], o2[k]) for k in keys))
        out["refit_sizes"] = o2.get("sizes")
    # history with OTHER data first: fit(B), use it (inverse_transform / transform fill any cache), then fit(A) on the
    # same object: must equal the fresh fit of A
    if "error" not in fits[0]:
        other = dict(case)
        other["comps"] = [dict(t=c["t"], X=[[rs(2 * F(x) + Fraction(j, 8)) for j, x in enumerate(r[::-1])] for r in c["X"][::-1]])
                          for c in case["comps"]]
        # … and with the OTHER setting of every estimator option (reset through the attributes before the refit)
        other["normalize"] = not case["normalize"]
        other["n_components"] = 1 if case["n_components"] != 1 else 2
        oB, estB = _fit(other, tuple(range(P)))
        if "error" not in oB:
            estB.normalize, estB.n_components = case["normalize"], case["n_components"]
            o3, _ = _fit(case, tuple(range(P)), est=estB)
            # cause test of the stale-weights finding: the refit reconstruction is the fresh one rescaled by √(stale weight)
            expl = False
            if "error" not in o3 and not _same(fits[0]["weights"], o3["weights"]) and all(_finite(r) for r in o3["rec"]) and all(_finite(r) for r in fits[0]["rec"]):
                expl = True
                for q in range(P):
                    m0 = np.asarray(fits[0]["mean"][q], dtype=float)[None, :]
                    a = np.asarray(fits[0]["rec"][q], dtype=float) - m0
                    b = np.asarray(o3["rec"][q], dtype=float) - m0
                    fac = np.sqrt(o3["weights"][q] / fits[0]["weights"][q])
                    # a, b are differences of rounded numbers of the size of the reconstruction: tolerance at that scale
                    size = max(float(np.abs(np.asarray(fits[0]["rec"][q], dtype=float)).max()), float(np.abs(np.asarray(o3["rec"][q], dtype=float)).max()), 1e-300)
                    if np.abs(b - fac * a).max() > 1e-9 * size * max(fac, 1.0):
                        expl = False
            out["refit_explained_by_stale_weights"] = bool(expl)
            out["refit_other_diff"] = [k for k in ("eigenvalues", "coef", "psi", "pace", "rec", "mean", "xi") if "error" in o3 or not _same(fits[0][k], o3[k])]
            keys = ("eigenvalues", "coef", "psi", "pace", "rec", "mean", "xi")
            out["refit_other"] = bool("error" not in o3 and all(_same(fits[0][k], o3[k]) for k in keys))
    # refit of ONE estimator on data of ANOTHER shape (fewer / more components, other grids, other n_obs), then the case;
    # constructor `weights` of the wrong length (the unchanged tree ignores them: results as without)
    if "error" not in fits[0]:
        out.update(_reshape_history(case, P, fits[0]))
    # option values of equivalent types (np.bool_ / 0-1 int for booleans, np.float64 for fractions): same results
    if "error" not in fits[0]:
        ot, _ = _fit(case, tuple(range(P)), typed=True)
        out["typed_diff"] = [k for k in ("eigenvalues", "coef", "psi", "pace", "rec", "mean", "xi", "weights") if "error" in ot or not _same(fits[0][k], ot[k])]
    # read-only-looking calls must not write state: fit(train) -> snapshot -> transform(OTHER data) /
    # transform(None) / inverse_transform -> snapshot again; reconstructions before / after must agree
    if "error" not in fits[0]:
        out.update(_readonly_history(case, P))
    # unknown options are rejected
    try:
        est0.transform(method="nope")
        out["bad_method"] = "accepted"
    except Exception as e:  # noqa: BLE001
        out["bad_method"] = type(e).__name__
    return out


def _reshape_history(case, P, f0):
    from FDApy.preprocessing.dim_reduction.mfpca import MFPCA

    out = {}
    keys = ("eigenvalues", "coef", "psi", "pace", "rec", "mean", "xi")

    def shrink(c):  # other grid (last point dropped), other n_obs (last curve dropped), other values
        return dict(t=c["t"][:-1], X=[[rs(F(x) + Fraction(j, 16)) for j, x in enumerate(r[:-1])] for r in c["X"][:-1]])

    variants = []
    if P >= 2:
        variants.append(("fewer", list(range(P - 1))))            # fitted on P-1 components first, then on P
    variants.append(("more", list(range(P)) + [0]))               # fitted on P+1 components first, then on P
    diffs = {}
    for name, idxs in variants:
        other = dict(case)
        other["comps"] = [shrink(case["comps"][p]) for p in idxs]
        other["exps"] = [dict(case["exps"][p]) for p in idxs]
        oB, estB = _fit(other, tuple(range(len(idxs))))
        if "error" in oB:
            continue
        with warnings.catch_warnings():
            warnings.simplefilter("ignore")
            with np.errstate(all="ignore"):
                try:
                    estB.inverse_transform(np.asarray(estB.transform(method="PACE")))
                except Exception:  # noqa: BLE001
                    pass
        estB.univariate_expansions = [dict(e) for e in case["exps"]]
        try:
            o3, _ = _fit(case, tuple(range(P)), est=estB)
        except Exception as e:  # noqa: BLE001
            diffs[name] = ["raised " + type(e).__name__ + ": " + str(e)[:80]]
            continue
        d = [k for k in keys if "error" in o3 or not _same(f0[k], o3[k])]
        if "error" not in o3 and len(o3["rec"]) != P:
            d.append(f"inverse_transform returns {len(o3['rec'])} components for {P}")
        if d:
            diffs[name] = d
    out["reshape_diff"] = diffs
    # constructor weights of the wrong length
    wd = {}
    for name, w in (("longer", np.full(P + 1, 2.0)), ("shorter", np.full(max(P - 1, 0), 2.0))):
        data = _mfd(case["comps"], range(P))
        est = MFPCA(n_components=case["n_components"], univariate_expansions=[dict(e) for e in case["exps"]], method="covariance",
                    normalize=case["normalize"], weights=w)
        try:
            o4, _ = _fit(case, tuple(range(P)), est=est)
        except Exception as e:  # noqa: BLE001
            wd[name] = ["raised " + type(e).__name__ + ": " + str(e)[:80]]
            continue
        d = [k for k in keys if "error" in o4 or not _same(f0[k], o4[k])]
        if "error" not in o4 and len(o4["rec"]) != P:
            d.append(f"inverse_transform returns {len(o4['rec'])} components for {P}")
        if d:
            wd[name] = d
    out["weights_len_diff"] = wd
    return out


def _snapshot(est):
    snap = dict(
        weights=np.array(est.weights, dtype=float, copy=True),
        eigenvalues=np.array(est.eigenvalues, dtype=float, copy=True),
        coef=[np.array(e.coefficients, dtype=float, copy=True) for e in est.eigenfunctions.data],
        mean=[np.array(m.values, dtype=float, copy=True) for m in est.mean.data],
        xi=np.array(est._scores_univariate, dtype=float, copy=True),
        eigenvectors=np.array(est._eigenvectors, dtype=float, copy=True),
        n_components=est.n_components, normalize=est.normalize, method=est.method,
    )
    return snap


def _snap_diff(a, b):
    bad = []
    for k in a:
        if isinstance(a[k], list):
            same = len(a[k]) == len(b[k]) and all(np.array_equal(x, y, equal_nan=True) for x, y in zip(a[k], b[k]))
        elif isinstance(a[k], np.ndarray):
            same = a[k].shape == np.shape(b[k]) and np.array_equal(a[k], b[k], equal_nan=True)
        else:
            same = a[k] == b[k]
        if not same:
            bad.append(k)
    return bad


def _readonly_history(case, P):
    out = {}
    order = tuple(range(P))
    o, est = _fit(case, order)
    if "error" in o:
        return out
    other = dict(case)
    other["comps"] = [dict(t=c["t"], X=[[rs(3 * F(x) + Fraction(j, 8)) for j, x in enumerate(r[::-1])] for r in c["X"][::-1]])
                      for c in case["comps"]]
    data_other = _mfd(other["comps"], order)
    data_train = _mfd(case["comps"], order)
    S = np.asarray(est.transform(method="PACE"))
    steps = []
    changed = []
    with warnings.catch_warnings():
        warnings.simplefilter("ignore")
        with np.errstate(all="ignore"):
            snap0 = _snapshot(est)
            rec0 = [np.array(r.values, copy=True) for r in est.inverse_transform(S).data]
            for name, call in (
                ("inverse_transform", lambda: est.inverse_transform(S)),
                ("transform(None,PACE)", lambda: est.transform(method="PACE")),
                ("transform(None,NumInt)", lambda: est.transform(method="NumInt")),
                ("transform(other,NumInt)", lambda: est.transform(data_other, method="NumInt")),
                ("transform(other,PACE)", lambda: est.transform(data_other, method="PACE")),
                ("transform(train,NumInt)", lambda: est.transform(data_train, method="NumInt")),
            ):
                try:
                    call()
                except Exception as e:  # noqa: BLE001
                    steps.append(f"{name}: {type(e).__name__}")
                    continue
                d = _snap_diff(snap0, _snapshot(est))
                if d:
                    changed.append(f"{name} changed {d}")
                    break
            rec1 = [np.array(r.values, copy=True) for r in est.inverse_transform(S).data]
            S1 = np.asarray(est.transform(method="PACE"))
    out["ro_changed"] = changed
    out["ro_errors"] = steps
    out["ro_rec_same"] = bool(all(np.array_equal(a, b, equal_nan=True) for a, b in zip(rec0, rec1)) and np.array_equal(S, S1, equal_nan=True))
    dev = 0.0
    for a, b in zip(rec0, rec1):
        if np.isfinite(a).all() and np.isfinite(b).all() and a.size:
            dev = max(dev, float(np.abs(a - b).max()) / max(float(np.abs(a).max()), 1e-300))
    out["ro_rec_dev"] = dev
    return out


def _same(a, b):
    try:
        return np.array_equal(np.asarray(a, dtype=float), np.asarray(b, dtype=float), equal_nan=True)
    except (ValueError, TypeError):
        return all(_same(x, y) for x, y in zip(a, b)) and len(a) == len(b)


def _run_gram(case):
    """Gram route (`method="inner-product"`) in the given and the reversed order of the components."""
    from FDApy.preprocessing.dim_reduction.mfpca import MFPCA

    P = len(case["comps"])
    outs = []
    for order in (tuple(range(P)), tuple(reversed(range(P)))):
        data = _mfd(case["comps"], order)
        kw = {}
        if case["noise"] == "zero":
            kw["noise_variance"] = np.zeros(P)
        elif case["noise"] == "given":
            kw["noise_variance"] = np.array([0.0625 * (p + 1) for p in order])
        o = dict(order=list(order))
        with _Capture() as cap:
            est = MFPCA(n_components=case["n_components"], method="inner-product", normalize=False)
            with warnings.catch_warnings():
                warnings.simplefilter("ignore")
                with np.errstate(all="ignore"):
                    est.fit(data, **kw)
                    o["innpro"] = np.asarray(est.transform(method="InnPro")).tolist()
                    o["numint_train"] = np.asarray(est.transform(method="NumInt")).tolist()
        ce = cap.ce[-1]
        o["G"] = ce["Z"].tolist()
        o["l"] = ce["nu"].tolist()
        o["v"] = ce["c"].tolist()
        o["eigenvalues"] = np.asarray(est.eigenvalues).tolist()
        o["D"] = [np.asarray(d._data_inpro.values).tolist() for d in est._training_data.data]
        o["sigma2"] = [float(x) for x in np.atleast_1d(np.asarray(est._training_data._noise_variance, dtype=float))]
        o["psi"] = [np.asarray(e.values).tolist() for e in est.eigenfunctions.data]
        o["n_obs"] = int(data.n_obs)
        outs.append(o)
    return dict(gram=outs)


def _run_irregular(case):
    """Well-formedness with one irregular component (random sub-sampling of the first component)."""
    from FDApy.preprocessing.dim_reduction.mfpca import MFPCA
    from FDApy.representation.argvals import DenseArgvals, IrregularArgvals
    from FDApy.representation.functional_data import IrregularFunctionalData, MultivariateFunctionalData
    from FDApy.representation.values import IrregularValues

    data = _mfd(case["comps"], range(len(case["comps"])))
    d0 = data.data[0]
    t = d0.argvals["input_dim_0"]
    r = np.random.RandomState(len(t))
    arg, val = {}, {}
    for i in range(d0.n_obs):
        keep = np.sort(r.choice(len(t), size=max(5, (3 * len(t)) // 4), replace=False))
        arg[i] = DenseArgvals({"input_dim_0": t[keep]})
        val[i] = d0.values[i][keep]
    irr = IrregularFunctionalData(IrregularArgvals(arg), IrregularValues(val))
    mfd = MultivariateFunctionalData([irr] + list(data.data[1:]))
    exps = [dict(method="UFPCA", n_components=2, method_smoothing="PS") for _ in mfd.data]
    est = MFPCA(n_components=2, univariate_expansions=exps, method="covariance")
    out = {}
    with warnings.catch_warnings():
        warnings.simplefilter("ignore")
        with np.errstate(all="ignore"):
            try:
                est.fit(mfd, method_smoothing="PS")
                S = est.transform(method="PACE")
                rec = est.inverse_transform(S)
                out["shapes"] = [list(np.asarray(r.values).shape) for r in rec.data]
                out["expected"] = [[mfd.n_obs, len(g.argvals["input_dim_0"])] for g in est.eigenfunctions.to_grid().data]
                out["finite"] = bool(np.isfinite(S).all() and all(np.isfinite(np.asarray(r.values)).all() for r in rec.data))
                out["n_eig"] = int(len(est.eigenvalues))
                ev = np.asarray(est.eigenvalues, dtype=float)
                out["zero_eigenvalue"] = bool(len(ev) and ev.min() <= 1e-10 * max(ev.max(), 1e-300))
            except Exception as e:  # noqa: BLE001
                out["error"] = type(e).__name__ + ": " + str(e)[:120]
    return out


# --------------------------------------------------------------------------
# model side
# --------------------------------------------------------------------------

def _m(rows):
    rows = list(rows)
    if not rows or not list(rows[0]):
        return "-"
    return ";".join(",".join(rs(F(x)) for x in r) for r in rows)


def _v(v):
    v = list(v)
    return "-" if not v else ",".join(rs(F(x)) for x in v)


def _finite(x):
    return bool(np.isfinite(np.asarray(x, dtype=float)).all())


def _fit_lines(case, f):
    if "error" in f or not _finite(f["xi"]) or not _finite(f["c"]) or not _finite(f["nu"]) or not all(_finite(u) for u in f["Ublocks"]):
        return []
    order = f["order"]
    N = len(f["xi"])
    lines = [
        "fit {} {} {} {} {} {}".format(
            N, ",".join(str(s) for s in f["sizes"]), _m(f["xi"]), "|".join(_m(u) for u in f["Ublocks"]), _v(f["nu"]), _m(f["c"])
        )
    ]
    K = len(f["nu"])
    offs = np.concatenate([[0], np.cumsum(f["sizes"])])
    # stacked coefficient matrix M × K as returned by the implementation
    A = np.concatenate([np.asarray(cf, dtype=float).T for cf in f["coef"]], axis=0) if K else np.zeros((int(offs[-1]), 0))
    okA = _finite(A) and K > 0
    for q, p in enumerate(order):
        comp = case["comps"][p]
        lines.append(f"gram {','.join(comp['t'])} {_m(f['phi'][q])}")
        if okA:
            lines.append(f"togrid {f['sizes'][q]} {int(offs[q])} {_m(A)} {_m(f['phi'][q])}")
            if _finite(f["psi"][q]) and _finite(f["pace"]) and _finite(f["mean"][q]):
                lines.append(f"inv {rs(F(f['sqrtw'][q]))} {_v(f['mean'][q])} {_m(f['pace'])} {_m(f['psi'][q])}")
    return lines


def _modelled(fits):
    """Fits sent to the model: the given order and the reversed one (all orders are judged by the oracle)."""
    return fits[:1] + (fits[-1:] if len(fits) > 1 else [])


def model_lines(case, impl):
    if "__crash__" in impl:
        return []
    if case["kind"] == "blockdiag":
        sh = ",".join(f"{r}:{c}" for r, c in case["shapes"])
        bl = "|".join(";".join(",".join(r) for r in b) for b in case["blocks"])
        return [f"blockdiag {sh} {bl}"]
    if case["kind"] == "irregular":
        return []
    if case["kind"] == "gram":
        lines = []
        for o in impl["gram"]:
            if not (_finite(o["v"]) and _finite(o["sigma2"]) and all(_finite(d) for d in o["D"])):
                continue
            ts = "|".join(",".join(case["comps"][p]["t"]) for p in o["order"])
            lines.append("gramroute {} {} {} {}".format(_v(o["sigma2"]), _m(o["v"]), ts, "|".join(_m(d) for d in o["D"])))
        return lines
    lines = []
    for f in _modelled(impl["fits"]):
        lines += _fit_lines(case, f)
    return lines


def _pv(s):
    return [] if s == "-" else [Fraction(t) for t in s.split(",")]


def _pm(s):
    return [] if s == "-" else [_pv(r) for r in s.split(";")]


def parse_model(case, outs):
    return dict(outs=list(outs))


def _cmp_mat(name, A, Q, scale, rtol=1e-9, atol=0.0):
    A = [list(r) for r in A]
    if len(A) != len(Q):
        return [f"{name}: {len(A)} rows vs model {len(Q)}"]
    for i, (ra, rq) in enumerate(zip(A, Q)):
        if len(ra) != len(rq):
            return [f"{name}[{i}]: {len(ra)} entries vs model {len(rq)}"]
        for j, (a, q) in enumerate(zip(ra, rq)):
            if not close(a, q, scale, rtol, atol + 1e-300):
                return [f"{name}[{i}][{j}]: impl {a!r} vs exact {float(q)!r}"]
    return []


def _amax(x):
    a = np.abs(np.asarray(x, dtype=float))
    return float(a.max()) if a.size else 0.0


def _compare_fit(case, f, outs, pos, stats):
    """Compare one fit with the model's answers starting at outs[pos]; returns (disagreements, new pos)."""
    ds = []
    if not _fit_lines(case, f):
        return ds, pos
    o = outs[pos].split(" ")
    pos += 1
    if len(o) != 11:
        return [f"model answer to fit: {outs[pos - 1][:80]}"], pos + 0
    U, B, Z, W, nsp, rho2, Pc, G, res, means, offs = _pm(o[0]), _pm(o[1]), _pm(o[2]), _pm(o[3]), _pv(o[4]), _pv(o[5]), _pm(o[6]), _pm(o[7]), _pm(o[8]), _pv(o[9]), o[10]
    M, N, K = len(U), len(f["xi"]), len(f["nu"])
    # block assembly: exact
    if [[F(x) for x in r] for r in f["U"]] != U:
        ds.append("cholesky_matrix: _block_diag output differs from the model's block assembly")
    want_off = ",".join(str(int(x)) for x in np.concatenate([[0], np.cumsum(f["sizes"])])[:-1])
    if offs != want_off:
        ds.append(f"block offsets: model {offs} vs cumulative sizes {want_off}")
    xi = np.asarray(f["xi"], dtype=float)
    qscale = float((np.abs(xi) ** 2).sum(axis=0).max()) / max(N - 1, 1) * 4 + 1e-300
    bscale = _amax(B) + 1e-300
    ds += _cmp_mat("matrix handed to _compute_eigen", f["Z"], Z, M * bscale * qscale)
    # eigenvalues reported = captured ones
    if not _same(f["eigenvalues"], f["nu"]):
        ds.append("eigenvalues differ from the output of _compute_eigen")
    # contract of the solver (L3): residual of Z c = ν c, exact
    zmax = max([abs(float(x)) for r in Z for x in r] + [1e-300])
    rmax = max([abs(float(x)) for r in res for x in r] + [0.0])
    stats["eig_residual"] = max(stats.get("eig_residual", 0.0), rmax / zmax)
    # enforced for the pairs with a positive eigenvalue: the captured output must be RIGHT eigenpairs of the exact matrix
    nuf = [float(x) for x in f["nu"]]
    for m in range(K):
        if nuf[m] > 1e-10 * max(max(nuf), 1e-300):
            rm = max(abs(float(res[j][m])) for j in range(M))
            cmx = max(abs(float(f["c"][j][m])) for j in range(M)) + 1e-300
            if rm > 1e-7 * zmax * cmx * M:
                ds.append(f"solver contract: captured pair {m} is not an eigenpair of the matrix handed to _compute_eigen (exact residual {rm:.3g}, |Z| {zmax:.3g})")
                break
    # eigenfunction coefficients: W / (√ν √normSqProj)
    A = np.concatenate([np.asarray(cf, dtype=float).T for cf in f["coef"]], axis=0) if K else np.zeros((M, 0))
    okA = _finite(A) and K > 0
    for m in range(K):
        r2 = rho2[m]
        if r2 <= 0 or not okA:
            continue
        rho = math.sqrt(float(r2))
        wmax = max(abs(float(W[j][m])) for j in range(M)) + 1e-300
        for j in range(M):
            if not close(A[j][m] * rho, W[j][m], max(wmax, qscale * _amax([r[m] for r in f["c"]])), 1e-8):
                ds.append(f"eigenfunction coefficient [{j}][{m}]: impl·ρ = {A[j][m] * rho!r} vs exact weights {float(W[j][m])!r}")
                break
    # PACE scores
    cs = float(np.abs(xi).sum(axis=1).max()) * (_amax(f["c"]) + 1e-300) + 1e-300
    ds += _cmp_mat("PACE scores", f["pace"], Pc, cs)
    # per component: basis Gram, to_grid, inverse_transform
    for q, p in enumerate(f["order"]):
        Gq = _pm(outs[pos])
        pos += 1
        gs = _amax(Gq) + 1e-300
        if f["B"][q] is not None:
            # entries below 1e-12·max are zeroed by Basis.inner_product (relative since f5d5f39): absorbed at that scale only
            ds += _cmp_mat(f"Basis.inner_product (component {p})", f["B"][q], Gq, gs, 1e-9, 2e-12 * gs)
        L = np.asarray(f["Ublocks"][q], dtype=float).T
        stats["chol_residual"] = max(stats.get("chol_residual", 0.0), _amax(L @ L.T - np.asarray([[float(x) for x in r] for r in Gq])) / gs)
        # contract of the captured factor, exact on the model side: block q of UᵀU (as assembled and multiplied by
        # the code) must be the Gram matrix of the basis of component p
        o_q = int(sum(f["sizes"][:q]))
        s_q = f["sizes"][q]
        blockB = [[B[o_q + a][o_q + b] for b in range(s_q)] for a in range(s_q)]
        for a in range(s_q):
            for b in range(s_q):
                if abs(blockB[a][b] - Gq[a][b]) > (Fraction(1, 10 ** 8) + Fraction(2, 10 ** 12)) * F(gs):
                    ds.append(f"block {q} of cholesky_matrix.T @ cholesky_matrix is not the Gram matrix of the basis of component {p}: [{a}][{b}] {float(blockB[a][b])!r} vs {float(Gq[a][b])!r}")
                    break
            else:
                continue
            break
        if okA:
            psi = _pm(outs[pos])
            pos += 1
            ps = float(np.abs(A).max()) * float(np.abs(np.asarray(f["phi"][q])).sum(axis=0).max()) + 1e-300
            ds += _cmp_mat(f"eigenfunctions.to_grid (component {p})", f["psi"][q], psi, ps)
            if _finite(f["psi"][q]) and _finite(f["pace"]) and _finite(f["mean"][q]):
                inv = _pm(outs[pos])
                pos += 1
                sc = f["sqrtw"][q] * float(np.abs(np.asarray(f["pace"])).sum(axis=1).max()) * _amax(f["psi"][q]) + _amax(f["mean"][q]) + 1e-300
                ds += _cmp_mat(f"inverse_transform (component {p})", f["rec"][q], inv, sc)
                want_t = fl([F(x) for x in case["comps"][p]["t"]])
                if list(f["rec_t"][q]) != list(want_t):
                    ds.append(f"inverse_transform (component {p}) is not on that component's grid")
    stats.setdefault("Zs", []).append((list(f["order"]), list(f["sizes"]), Z))
    return ds, pos


def compare(case, impl, model):
    if "__crash__" in impl:
        return [f"implementation crashed: {impl['__crash__']} {impl.get('msg')}"]
    outs = model["outs"]
    if case["kind"] == "blockdiag":
        o = outs[0].split(" ")
        if len(o) != 5:
            return [f"model: {outs[0][:80]}"]
        Q = _pm(o[2])
        A = impl["out"]
        R, C = int(o[0]), int(o[1])
        if (len(A), len(A[0]) if A else 0) != (R, C if R else 0):
            return [f"_block_diag shape {(len(A), len(A[0]) if A else 0)} vs model {(R, C)}"]
        if [[F(x) for x in r] for r in A] != Q:
            return ["_block_diag output differs from the model (exact comparison)"]
        return []
    if case["kind"] == "gram":
        ds = []
        sent = [o for o in impl["gram"] if _finite(o["v"]) and _finite(o["sigma2"]) and all(_finite(d) for d in o["D"])]
        Gs = []
        for o, ans in zip(sent, outs):
            parts = ans.split(" ")
            if len(parts) != 2:
                return [f"model answer to gramroute: {ans[:80]}"]
            G = _pm(parts[0])
            Gs.append(G)
            nums = [_pm(x) for x in parts[1].split("|")]
            gs = _amax(G) + max(o["sigma2"] + [0.0]) + 1e-300
            ds += _cmp_mat(f"Gram matrix handed to _compute_eigen (order {o['order']})", o["G"], G, gs)
            if not _same(o["eigenvalues"], (np.asarray(o["l"]) / o["n_obs"]).tolist()):
                ds.append("Gram route: eigenvalues are not l / n_obs")
            K = len(o["l"])
            for q in range(len(o["order"])):
                psi = np.asarray(o["psi"][q], dtype=float)
                for k in range(K):
                    if o["l"][k] <= 1e-10 * max(max(o["l"]), 1e-300):
                        continue
                    rho = math.sqrt(o["l"][k])
                    sc = float(np.abs(np.asarray(o["v"])[:, k]) @ np.abs(np.asarray(o["D"][q])).max(axis=1)) + 1e-300
                    for u in range(psi.shape[1]):
                        if not close(psi[k][u] * rho, nums[q][k][u], sc, 1e-8):
                            ds.append(f"Gram-route eigenfunction {k}, component {o['order'][q]}, point {u}: impl·√l {psi[k][u] * rho!r} vs exact {float(nums[q][k][u])!r}")
                            break
                    else:
                        continue
                    break
        if len(Gs) == 2 and Gs[0] != Gs[1]:
            ds.append("Gram route: the exact matrix changes when the components are listed in reverse order")
        return ds
    ds = []
    pos = 0
    stats = {}
    for f in _modelled(impl["fits"]):
        d, pos = _compare_fit(case, f, outs, pos, stats)
        ds += d
        if len(ds) > 4:
            break
    model["stats"] = {k: v for k, v in stats.items() if k in ("eig_residual", "chol_residual")}
    # permutation of the components conjugates the solver matrix by the block permutation (exact: the univariate
    # decompositions of a component do not depend on its position)
    Zs = stats.get("Zs", [])
    if len(Zs) == 2:
        (o0, s0, Z0), (o1, s1, Z1) = Zs
        off0 = {p: sum(s0[:q]) for q, p in enumerate(o0)}
        sigma = []
        for q, p in enumerate(o1):
            sigma += [off0[p] + a for a in range(s1[q])]
        if len(sigma) == len(Z0) == len(Z1):
            M = len(sigma)
            if any(Z1[i][j] != Z0[sigma[i]][sigma[j]] for i in range(M) for j in range(M)):
                ds.append(f"solver matrix for the order {o1} is not the block-permutation conjugate of the one for {o0} (exact model values)")
    return ds


# --------------------------------------------------------------------------
# the property's own predicate, evaluated on the implementation
# --------------------------------------------------------------------------

def _prod_gram(case, f):
    """Σ_p ⟨ψ_m^(p), ψ_l^(p)⟩ with np.trapz on each component's own grid."""
    K = len(f["nu"])
    G = np.zeros((K, K))
    for q, p in enumerate(f["order"]):
        t = np.array(fl([F(x) for x in case["comps"][p]["t"]]))
        psi = np.asarray(f["psi"][q], dtype=float)
        for m in range(K):
            for l in range(K):
                G[m, l] += np.trapz(psi[m] * psi[l], t)
    return G


def _gram_explained_by_means(xi, Bd, c, nu):
    """Product-space Gram matrix predicted for the coded weights when (ν, c) are RIGHT eigenpairs of B·cov(ξ) and the
    only defect is that the weights use the uncentred second moment Q̃ = Q + κ μμᵀ:
    W_mᵀBW_l = ν_l c_mᵀQc_l + κ(μ·c_m)(μ·c_l)(ν_m + ν_l) + κ²(μ·c_m)(μ·c_l) μᵀBμ,  ρ_m² = ν_m(c_mᵀQc_m + κ(μ·c_m)²)."""
    N = xi.shape[0]
    kappa = N / (N - 1.0)
    mu = xi.mean(axis=0)
    Q = np.atleast_2d(np.cov(xi.T))
    a = mu @ c  # μ·c_m
    cQc = c.T @ Q @ c
    mBm = float(mu @ Bd @ mu)
    K = c.shape[1]
    num = np.zeros((K, K))
    for m in range(K):
        for l in range(K):
            num[m, l] = nu[l] * cQc[m, l] + kappa * a[m] * a[l] * (nu[m] + nu[l]) + kappa ** 2 * a[m] * a[l] * mBm
    with np.errstate(all="ignore"):
        rho = np.sqrt(nu * (np.diag(cQc) + kappa * a ** 2))
        return num / np.outer(rho, rho)


def _causes(f):
    """Cause flags of one fit (tests on captured quantities)."""
    causes = []
    xi = np.asarray(f["xi"], dtype=float)
    N = len(xi)
    sd = np.sqrt((xi ** 2).mean(axis=0)) + 1e-300
    if np.abs(xi.mean(axis=0) / sd).max() > 1e-8:
        causes.append("univariate_scores_not_centred")
    raw = f.get("raw")
    if raw is not None:
        r = np.clip(np.asarray(raw, dtype=float), 0, None)
        if np.any(r[1:] > r[:-1] + 1e-12 * max(r.max(), 1e-300)):
            causes.append("solver_output_unsorted")
    nu = np.asarray(f["nu"], dtype=float)
    if len(nu) and (nu.min() <= 1e-10 * max(nu.max(), 1e-300)):
        causes.append("nonpositive_eigenvalue_retained")
    if len(nu) > 1:
        s = np.sort(nu)[::-1]
        if np.min(s[:-1] - s[1:]) <= 1e-6 * max(s[0], 1e-300):
            causes.append("near_degenerate_eigenvalues")
    if N - 1 < xi.shape[1]:
        causes.append("fewer_observations_than_coefficients")
    return causes


def oracle(case, impl):
    if "__crash__" in impl:
        return [dict(clause="runs", entry="MFPCA.fit", msg=f"crash {impl['__crash__']}: {impl.get('msg')} {impl.get('tb', '')[-300:]}")]
    vs = []

    def bad(clause, msg, entry="MFPCA.fit", causes=()):
        vs.append(dict(clause=clause, entry=entry, msg=msg, causes=list(causes)))

    if case["kind"] == "blockdiag":
        A = np.array(impl["out"], dtype=float)
        r = c = 0
        mask = np.zeros_like(A, dtype=bool)
        for b, (rr, cc) in zip(case["blocks"], case["shapes"]):
            blk = np.array([[float(F(x)) for x in row] for row in b], dtype=float).reshape(rr, cc)
            if not np.array_equal(A[r:r + rr, c:c + cc], blk):
                bad("block_assembly", f"block at ({r},{c}) is not the given block", "_block_diag")
            mask[r:r + rr, c:c + cc] = True
            r += rr
            c += cc
        if A.shape != (r, c) or np.any(A[~mask] != 0):
            bad("block_assembly", "shape / off-block entries", "_block_diag")
        return vs
    if case["kind"] == "gram":
        for o in impl["gram"]:
            l = np.asarray(o["l"], dtype=float)
            if not len(l):
                continue
            K = len(l)
            pos_idx = [k for k in range(K) if l[k] > 1e-8 * max(l.max(), 1e-300)]
            raw_sorted = o["l"] == sorted(o["l"], reverse=True)
            causes = [] if raw_sorted else ["solver_output_unsorted"]
            G = np.zeros((K, K))
            for q, p in enumerate(o["order"]):
                t = np.array(fl([F(x) for x in case["comps"][p]["t"]]))
                psi = np.asarray(o["psi"][q], dtype=float)
                with np.errstate(all="ignore"), warnings.catch_warnings():
                    warnings.simplefilter("ignore")
                    for a in range(K):
                        for b in range(K):
                            G[a, b] += np.trapz(psi[a] * psi[b], t)
            s2 = float(np.sum(o["sigma2"]))
            want = np.diag((l + s2) / np.where(l > 0, l, 1.0))
            idx = np.ix_(pos_idx, pos_idx)
            if pos_idx and np.isfinite(G[idx]).all() and np.abs(G[idx] - want[idx]).max() > 1e-6 * max(1.0, np.abs(want[idx]).max()):
                bad("gram_route_orthonormal", f"order {o['order']}: product-space Gram matrix of the Gram-route eigenfunctions deviates from diag((l+σ²)/l) by {np.abs(G[idx] - want[idx]).max():.3g}", causes=causes)
            # NumInt scores of the curves the Gram matrix was built from (`_data_inpro`; transform(None, "NumInt")
            # integrates the fit-centred training data instead, which `inner_product` centres once more)
            S = np.asarray(o["innpro"], dtype=float)
            T = np.zeros_like(S)
            for q, p in enumerate(o["order"]):
                t = np.array(fl([F(x) for x in case["comps"][p]["t"]]))
                Dq, psi = np.asarray(o["D"][q], dtype=float), np.asarray(o["psi"][q], dtype=float)
                with np.errstate(all="ignore"), warnings.catch_warnings():
                    warnings.simplefilter("ignore")
                    for k in range(K):
                        T[:, k] += np.trapz(Dq * psi[k][None, :], t, axis=1)
            if s2 == 0.0 and pos_idx and np.isfinite(T).all():
                dev = np.abs(S[:, pos_idx] - T[:, pos_idx]).max()
                if dev > 1e-6 * max(np.abs(S).max(), 1e-300):
                    bad("gram_route_scores", f"order {o['order']}: NumInt scores of the training curves differ from the InnPro scores by {dev:.3g} (noise-free)", "MFPCA.transform", causes=causes)
        a, b = impl["gram"]
        if np.abs(np.asarray(a["G"]) - np.asarray(b["G"])).max() > 1e-9 * max(np.abs(np.asarray(a["G"])).max(), 1e-300):
            bad("permutation", "Gram route: the inner-product matrix depends on the order of the components")
        return vs
    if case["kind"] == "irregular":
        if "error" in impl:
            if "ModuleNotFoundError" in impl["error"]:
                return vs
            bad("irregular_wellformed", impl["error"])
        elif (not impl["finite"] and not impl["zero_eigenvalue"]) or impl["shapes"] != impl["expected"]:
            bad("irregular_wellformed", f"shapes {impl['shapes']} expected {impl['expected']} finite {impl['finite']}")
        return vs
    fits = impl["fits"]
    f0 = fits[0]
    if "error" in f0:
        if f0["error"].startswith("single-coefficient"):
            bad("runs", "fit raises when the stacked univariate expansions have a single coefficient: " + f0["error"], causes=["single_stacked_coefficient"])
        return vs  # else: Gram matrix failed the Cholesky test (statsmodels absent): classified, not judged
    if impl["bad_method"] != "ValueError":
        bad("transform_method", f"unknown transform method: {impl['bad_method']}", "MFPCA.transform")
    if not f0["exps_unchanged"]:
        bad("inputs_unchanged", "fit changed the user's univariate_expansions dictionaries", causes=["expansions_popped"])
    if not impl.get("refit_same", True):
        bad("refit_same", f"second fit on the same estimator differs from the first (univariate sizes now {impl.get('refit_sizes')}, before {f0['sizes']})", causes=["expansions_popped"] if not f0["exps_unchanged"] else [])
    for name, d in (impl.get("reshape_diff") or {}).items():
        bad("refit_same", f"an estimator fitted before on {name} components / other grids / other n_obs and re-fitted on this data differs from a fresh fit in {d}", causes=["stale_state_other_shape"])
    for name, d in (impl.get("weights_len_diff") or {}).items():
        bad("constructor_weights", f"constructor weights of the wrong length ({name}) are not ignored as on the unchanged tree: {d}", causes=["weights_wrong_length"])
    if impl.get("typed_diff"):
        bad("option_types", f"normalize given as np.bool_ / 0-1 int (n_components as np.float64) changes {impl['typed_diff']} w.r.t. the plain Python values", causes=["option_value_type"])
    if impl.get("ro_changed"):
        bad("readonly_calls", "fitted state changed by a call that only reads the model: " + "; ".join(impl["ro_changed"]), "MFPCA.transform", causes=["state_written_by_transform"])
    if not impl.get("ro_rec_same", True):
        bad("readonly_calls", f"inverse_transform / transform(None) of the same scores differ before and after scoring other data (rel. dev {impl.get('ro_rec_dev')})", "MFPCA.inverse_transform", causes=["state_written_by_transform"])
    if not impl.get("refit_other", True):
        cs = ["stale_state"]
        if impl.get("refit_other_diff") == ["rec"] and impl.get("refit_explained_by_stale_weights"):
            cs.append("stale_weights_after_normalize_toggle")
        bad("refit_same", f"a fit on an estimator that was fitted on other data / with other options before (and used) differs from a fresh fit in {impl.get('refit_other_diff')}", causes=cs)
    P = len(case["comps"])
    for f in fits:
        if "error" in f:
            continue
        causes = _causes(f)
        tag = f"order {f['order']}"
        K = len(f["nu"])
        # (−1) the user's expansion options reach the univariate decompositions
        for q, p in enumerate(f["order"]):
            e = case["exps"][p]
            if f["sizes"][q] != _size(e):
                bad("expansion_options", f"{tag}: component {p} was expanded with {f['sizes'][q]} functions, the options ask for {_size(e)}", causes=causes)
            dv = f.get("ps_option_dev", [None] * P)[q]
            if dv is not None and (isinstance(dv, str) or dv > 1e-8):
                bad("expansion_options", f"{tag}: P-spline coefficients of component {p} differ from PSplines(n_segments, degree).fit(penalty) with the user's options (rel. dev {dv})", causes=causes)
        # (0) the matrix decomposed is blockdiag(basis Gram matrices) · cov(univariate scores)
        xi = np.asarray(f["xi"], dtype=float)
        Mtot = xi.shape[1]
        Bd = np.zeros((Mtot, Mtot))
        o = 0
        for q, p in enumerate(f["order"]):
            tq = np.array(fl([F(x) for x in case["comps"][p]["t"]]))
            ph = np.asarray(f["phi"][q], dtype=float)
            Bq = np.array([[np.trapz(ph[a] * ph[b], tq) for b in range(len(ph))] for a in range(len(ph))])
            Bd[o:o + len(Bq), o:o + len(Bq)] = Bq
            o += len(Bq)
        want = Bd @ np.atleast_2d(np.cov(xi.T))
        Zi = np.asarray(f["Z"], dtype=float)
        if Zi.shape != want.shape or np.abs(Zi - want).max() > 1e-8 * max(np.abs(want).max(), 1e-300):
            bad("solver_matrix", f"{tag}: the matrix handed to the eigen-solver is not blockdiag(Gram of the univariate bases) @ cov(univariate scores)", causes=causes)
        nu = np.asarray(f["nu"], dtype=float)
        pos_idx = [m for m in range(K) if nu[m] > 1e-10 * max(nu.max(), 1e-300)]
        # (0b) the retained pairs solve the eigen-problem of THAT matrix: Z c_m = ν_m c_m (right eigenvectors; the
        # product is not symmetric, left eigenvectors do not do)
        cm = np.asarray(f["c"], dtype=float)
        eig_ok = True
        if K and _finite(cm):
            zs = max(float(np.abs(Zi).max()), 1e-300)
            for m in pos_idx:
                r = float(np.abs(Zi @ cm[:, m] - nu[m] * cm[:, m]).max())
                if r > 1e-7 * zs * max(float(np.abs(cm[:, m]).max()), 1e-300) * Mtot:
                    eig_ok = False
                    bad("eigen_equation", f"{tag}: retained pair {m} does not solve Z c = ν c for the matrix handed to the solver (residual {r:.3g}, |Z| {zs:.3g})", causes=[c for c in causes if c in ("near_degenerate_eigenvalues",)])
                    break
        # components with a (numerically) zero eigenvalue are divided by √0: outside the hypotheses, not judged
        finite_pos = _finite(f["pace"]) and all(_finite(np.asarray(x, dtype=float)[pos_idx]) for x in f["psi"])
        if not finite_pos:
            bad("finite", f"{tag}: non-finite eigenfunctions / scores for a positive eigenvalue", causes=causes)
            continue
        all_finite = all(_finite(x) for x in f["psi"])
        # (1) orthonormal in the product space
        with np.errstate(all="ignore"):
            G = _prod_gram(case, f)
        idx = np.ix_(pos_idx, pos_idx)
        # tolerance conditioned on the eigenvalue: the coefficients are divided by √ν_m, so a relative solver error ε
        # shows as ε·ν_max/ν_m — 1e-6 for well-separated scales, relaxed for eigenvalues below 1e-6·ν_max
        if pos_idx:
            nn = nu[pos_idx]
            tolm = 1e-6 * np.maximum(1.0, 1e-6 * nn.max() / np.minimum.outer(nn, nn))
            excess = np.abs(G[idx] - np.eye(len(pos_idx))) / tolm
            dev = float(np.abs(G[idx] - np.eye(len(pos_idx))).max()) if float(excess.max()) > 1.0 else 0.0
        else:
            dev = 0.0
        if dev > 0.0:
            cs = list(causes)
            msg = f"{tag}: max |Σ_p⟨ψ_m,ψ_l⟩ − δ| = {dev:.3g} over the {len(pos_idx)} components with positive eigenvalue"
            if "univariate_scores_not_centred" in cs and pos_idx:
                # what the known centring defect explains: with Z c = ν c, Q̃ = Q + κ μμᵀ (μ = column means, κ = N/(N−1))
                Gp = _gram_explained_by_means(xi, Bd, cm, nu)
                unexplained = float(np.abs(G[idx] - Gp[idx]).max())
                if not np.isfinite(unexplained) or unexplained > 1e-6 * max(1.0, float(np.abs(Gp[idx]).max())):
                    cs.remove("univariate_scores_not_centred")
                    msg += f"; the non-zero column means of the univariate scores explain only part of it (unexplained {unexplained:.3g})"
            bad("orthonormal_product", msg, causes=cs)
        # (2) PACE scores: uncorrelated, variance = eigenvalue (univariate FPCA expansions only)
        if all(case["exps"][p]["method"] == "UFPCA" for p in f["order"]) and len(f["pace"]) > 1:
            S = np.asarray(f["pace"], dtype=float)
            C = np.atleast_2d(np.cov(S.T))
            sc = max(nu.max(), 1e-300)
            if np.abs(C - np.diag(nu)).max() > 1e-6 * sc:
                bad("pace_scores", f"{tag}: cov(PACE scores) deviates from diag(eigenvalues) by {np.abs(C - np.diag(nu)).max():.3g} (scale {sc:.3g})", "MFPCA.transform", causes=causes)
        if f.get("inv_block_err") or f.get("inv_block_dev", 0.0) > 1e-9:
            bad("inverse_transform", f"{tag}: inverse_transform of score blocks with 1, k-1, k, k+1 rows / a random k×k block (k = {K} fitted components) is not mean + (√weight·)scores·eigenfunctions: {f.get('inv_block_err') or f.get('inv_block_dev')}", "MFPCA.inverse_transform", causes=[c for c in causes if c == "nonpositive_eigenvalue_retained"])
        # (3) inverse_transform = mean + √weight · scores · ψ on each component's grid
        S = np.asarray(f["pace"], dtype=float)
        for q, p in enumerate(f["order"]):
            if not all_finite:
                break
            want = np.sqrt(f["weights"][q]) * (S @ np.asarray(f["psi"][q], dtype=float)) + np.asarray(f["mean"][q], dtype=float)[None, :]
            got = np.asarray(f["rec"][q], dtype=float)
            if got.shape != want.shape or np.abs(got - want).max() > 1e-9 * max(np.abs(want).max(), 1e-300):
                bad("inverse_transform", f"{tag}: component {p} is not mean + √weight·scores·eigenfunctions (weight {f['weights'][q]})", "MFPCA.inverse_transform", causes=causes)
            if list(f["rec_t"][q]) != list(fl([F(x) for x in case["comps"][p]["t"]])):
                bad("inverse_transform", f"{tag}: component {p} not on its own grid", "MFPCA.inverse_transform", causes=causes)
    # (4) permutation equivariance: eigenvalues and |scores| unchanged, eigenfunction components permuted
    if "error" not in f0 and _finite(f0["pace"]):
        for f in fits[1:]:
            if "error" in f or not _finite(f["pace"]):
                continue
            causes = sorted(set(_causes(f0) + _causes(f)))
            nu0, nu1 = np.asarray(f0["nu"], dtype=float), np.asarray(f["nu"], dtype=float)
            sc = max(nu0.max() if len(nu0) else 0.0, 1e-300)
            if len(nu0) != len(nu1) or np.abs(nu0 - nu1).max() > 1e-6 * sc:
                bad("permutation", f"order {f['order']}: eigenvalues {nu1.tolist()} vs {nu0.tolist()} in the original order", causes=causes)
                continue
            S0, S1 = np.asarray(f0["pace"], dtype=float), np.asarray(f["pace"], dtype=float)
            for m in range(len(nu0)):
                # eigenvectors of relatively tiny eigenvalues are ill-conditioned functions of the (float) solver
                # input: the two solver runs may legitimately differ there — not judged below 1e-6·ν_max
                if nu0[m] <= 1e-6 * sc:
                    continue
                # … and inside a cluster of nearly equal eigenvalues (gap below 1e-6·ν_max) the eigenvectors rotate freely
                if len(nu0) > 1 and np.min(np.abs(np.delete(nu0, m) - nu0[m])) <= 1e-6 * sc:
                    continue
                sgn = 1.0 if np.dot(S0[:, m], S1[:, m]) >= 0 else -1.0
                ssc = max(np.abs(S0[:, m]).max(), 1e-300)
                ptol = 1e-5 * max(1.0, 1e-4 * sc / nu0[m])  # conditioned on ν_max/ν_m (eigenvector sensitivity)
                if np.abs(S0[:, m] - sgn * S1[:, m]).max() > ptol * ssc:
                    bad("permutation", f"order {f['order']}: scores of component {m} change (beyond sign)", causes=causes)
                    break
                for q, p in enumerate(f["order"]):
                    a = np.asarray(f0["psi"][p], dtype=float)[m]
                    b = np.asarray(f["psi"][q], dtype=float)[m]
                    if not (_finite(a) and _finite(b)) or np.abs(a - sgn * b).max() > ptol * max(np.abs(a).max(), 1e-300):
                        bad("permutation", f"order {f['order']}: eigenfunction {m}, component {p} changes (beyond sign)", causes=causes)
                        break
                else:
                    continue
                break
    return vs


def nontrivial(case, impl):
    if "__crash__" in impl:
        return None
    if case["kind"] != "fit":
        return digest(case)
    f0 = impl["fits"][0]
    if "error" in f0 or not f0["nu"] or max(f0["nu"]) <= 0:
        return None
    return digest(case)


def classify(case, impl):
    tags = ["kind:" + case["kind"]]
    if "__crash__" in impl:
        return tags + ["crash"]
    if case["kind"] == "blockdiag":
        return tags + ["blocks:" + str(len(case["shapes"])), "square" if all(a == b for a, b in case["shapes"]) else "rectangular"]
    if case["kind"] == "irregular":
        return tags + (["error"] if "error" in impl else [])
    tags += [f"P:{len(case['comps'])}", f"normalize:{case['normalize']}", "shared_grid_equal_sizes" if case.get("share") else "own_grids", "nano_nonuniform_grid" if case.get("nano") else "ordinary_grid", "scale_sweep" if case.get("sweep") else "unit_scale", "rough_mean" if case["rough"] else "smooth_mean",
             "n_components:" + ("fraction" if isinstance(case["n_components"], float) else "int")]
    tags += sorted({"exp:" + e["method"] for e in case["exps"]})
    if len({len(c["t"]) for c in case["comps"]}) > 1:
        tags.append("different_grid_sizes")
    if len({_size(e) for e in case["exps"]}) > 1:
        tags.append("different_expansion_sizes")
    f0 = impl["fits"][0]
    if "error" in f0:
        return tags + ["skipped:" + f0["error"]]
    tags += ["cause:" + c for c in _causes(f0)]
    return tags


def extra_coverage(cases, impls, models):
    er = cr = 0.0
    for m in models:
        if m and "stats" in m:
            er = max(er, m["stats"].get("eig_residual", 0.0))
            cr = max(cr, m["stats"].get("chol_residual", 0.0))
    return dict(max_contract_residual=dict(eigen_relative=er, cholesky_relative=cr),
                translator=dict(TRANSLATOR, file="lean/FDAModel/Generated/MfpcaBlocks.lean",
                                theorems="C04.source_blocks, C04.coded_block_range, C04.coded_blocks_tile, C04.coded_bookkeeping"))
