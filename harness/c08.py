"""C08 — integration, norms and Gram matrices form a consistent L2 geometry."""
from fractions import Fraction

import os

import numpy as np

import c08_translate
import common
from common import F, Rng, close, close_all, err_class, fl, mat, pmat, pvec, rs, vec

PROP = "C08"
MODULES = ["FDAProofs.Props.C08"]
DRIVER = "Drivers/C08.lean"
PARALLEL = True
RULE = (
    "seeded structured cases: quadrature weights / 1-D, 2-D (non-square) and 3-D integrals on sorted "
    "non-uniform dyadic grids, dense 1-D/2-D norms and Gram matrices (n_obs 1..40, with noise variance), "
    "multivariate norms/Gram matrices, basis-expansion norms (explicit basis matrix); a case is non-trivial when its "
    "integrand/data are not all zero and the grid has >= 3 points; distinct by content hash"
)
PARTIAL = [
    "scipy.integrate.simpson is external: only linearity of the simpson route is sampled",
    "square roots (norm, squared=False) are compared through their squares",
]
TRUSTED_EXTRA = [
    "harness/c08_translate.py: syntactic map of the two branches of utils._integration_weights onto the NumPy combinators "
    "of lean/FDAModel/Core/NpVec.lean (single, slice, sub, smul, divc, concat, enumMap), whose definitions state what "
    "those NumPy operations mean",
]
GEN_FILE = os.path.join(common.LEAN_DIR, "FDAModel", "Generated", "QuadWeights.lean")
TRANSLATOR_NOTE = None


def translate():
    """Regenerate Generated/QuadWeights.lean from what `_integration_weights` says now.  A source whose shape the
    translator does not recognise (a refactor) is NOT an alarm: the reference translation is used and the evidence says
    that for this run the weights are tied to the source by the correspondence only.  Only a successful translation
    can break `C08.trapzW_src_eq_model` / `C08.simpsonW_src_eq_model`."""
    global TRANSLATOR_NOTE
    path = os.path.join(common.REPO, "FDApy", "misc", "utils.py")
    try:
        src = c08_translate.lean_source(path)
    except (ValueError, SyntaxError, IndexError, AttributeError, KeyError, TypeError) as e:
        # fall back on the translation of the source this machinery was built against (kept beside the translator), not on
        # whatever an earlier run left in the generated file
        TRANSLATOR_NOTE = f"translator: shape of _integration_weights not recognised, tie rests on the correspondence only ({e})"
        print("note:", TRANSLATOR_NOTE)
        src = open(os.path.join(os.path.dirname(os.path.abspath(__file__)), "c08_quadweights_reference.lean")).read()
        if not os.path.exists(GEN_FILE) or open(GEN_FILE).read() != src:
            with open(GEN_FILE, "w") as fh:
                fh.write(src)
        return
    except OSError as e:
        raise common.InfraError(f"translator: cannot read {path}: {e}")
    TRANSLATOR_NOTE = ("translator: quadrature weights regenerated from the source and re-proved equal to the model "
                       "(C08.trapzW_src_eq_model, C08.simpsonW_src_eq_model)")
    old = open(GEN_FILE).read() if os.path.exists(GEN_FILE) else None
    if old != src:
        with open(GEN_FILE, "w") as fh:
            fh.write(src)


def extra_coverage(cases, impls, models):
    return dict(translator=TRANSLATOR_NOTE)


def _dense(t_list, X):
    from FDApy.representation.argvals import DenseArgvals
    from FDApy.representation.functional_data import DenseFunctionalData
    from FDApy.representation.values import DenseValues

    arg = DenseArgvals({f"input_dim_{k}": np.array(fl(t)) for k, t in enumerate(t_list)})
    return DenseFunctionalData(arg, DenseValues(np.array(X, dtype=float)))


# --------------------------------------------------------------------------
# generation
# --------------------------------------------------------------------------

def _curves(rng: Rng, N, m, kind=None):
    X, kind = _curves0(rng, N, m, kind)
    r = rng.random()
    if r < 0.15:   # amplitude sweep (exact dyadic factors), and large offsets against a small spread
        a = Fraction(2) ** rng.choice([-30, -20, 20, 30])
        X = [[a * x for x in row] for row in X]
    elif r < 0.25:
        off = Fraction(2) ** rng.choice([16, 20]) * rng.choice([1, -1])
        X = [[x + off for x in row] for row in X]
    return X, kind


def _curves0(rng: Rng, N, m, kind=None):
    kind = kind or rng.choice(["rand", "rand", "smooth", "const", "zeros", "lowrank"])
    if kind == "zeros":
        return [[Fraction(0)] * m for _ in range(N)], kind
    if kind == "const":
        return [[rng.dyadic(-4, 4, 3)] * m for _ in range(N)], kind
    if kind == "smooth":
        out = []
        for _ in range(N):
            a, b, c = rng.dyadic(-2, 2, 3), rng.dyadic(-2, 2, 3), rng.dyadic(-2, 2, 3)
            out.append([a + b * Fraction(j, m) + c * Fraction(j * j, m * m) for j in range(m)])
        return out, kind
    if kind == "lowrank":
        base = rng.dyadics(m, -3, 3, 3)
        return [[rng.dyadic(-2, 2, 2) * x for x in base] for _ in range(N)], kind
    return [rng.dyadics(m, -8, 8, 4) for _ in range(N)], kind


def _grid(rng: Rng, m, ties=True):
    lo = rng.choice([0, 0, -1, 1, 100, Fraction(-7, 2), 2**21, Fraction(3, 2**30)])
    # scale sweep over many decades (exact dyadic): wavelengths in metres, day numbers, ...
    scale = rng.choice([1, 1, 2, 364, Fraction(1, 8), Fraction(1, 2**30), Fraction(1, 2**20), 2**20])
    pts = [Fraction(float(p)) for p in rng.grid(m, lo=lo, scale=scale)]   # exactly what NumPy will see
    if any(b <= a for a, b in zip(pts, pts[1:])):                          # offset too large for that spacing
        pts = rng.grid(m, lo=0, scale=scale)
    if ties and m >= 4 and rng.random() < 0.12:
        # a sorted grid with a REPEATED abscissa (a jump of the integrand at a knot): still a sorted grid;
        # the trapezoid rule and its weights are defined and exact there (zero-width interval)
        k = rng.randint(1, m - 2)
        pts[k + 1] = pts[k]
    return pts


def gen_cases(rng: Rng, tier):
    n = dict(quick=220, thorough=2500)[tier]
    big = tier == "thorough"
    kinds = ["weights", "trapz", "int2", "int3", "norm", "gram", "gram2d", "multi", "basis", "gram_seq"]
    # structured head, present in every run: named bases of every family, every spline degree, both
    # settings of the normalisation option, on a domain other than [0, 1]
    for fam, kw, K in [("bsplines", {"degree": 1}, 5), ("bsplines", {"degree": 2}, 6), ("bsplines", {}, 6),
                       ("bsplines", {"degree": 4}, 9), ("bsplines", {"degree": 5}, 11),
                       ("legendre", {}, 4), ("fourier", {}, 5), ("wiener", {}, 4)]:
        for norm_ in (False, True):
            N = rng.randint(2, 5)
            yield dict(kind="basis", family=fam, K=K, is_normalized=norm_, kw=kw, ck="rand", B=[], method="trapz",
                       t=[rs(x) for x in rng.grid(25, lo=rng.choice([0, -1, 2]), scale=rng.choice([1, 2, 5]), uniform=True)],
                       C=[[rs(x) for x in r] for r in _curves0(rng, N, K, "rand")[0]])
    for tg in (["0", "1/8", "7/8", "1", "17/16", "3"], ["0", "1/64", "1", "65/64", "2", "5", "81/16"], ["-1", "-15/16", "0", "1/32", "1"]):
        for j in range(1, len(tg) - 1):
            spike = ["0"] * len(tg)
            spike[j] = rs(rng.dyadic(1, 8, 2))
            other = [rs(abs(rng.dyadic(-2, 2, 2))) for _ in tg]
            yield dict(kind="trapz", t=tg, y=spike, y2=other, a=rs(rng.dyadic(-4, 4, 2)), b=rs(rng.dyadic(-4, 4, 2)), ck="spike")
    # generated tensor-product bases in 2-D whose marginals differ (family, number of functions, grid): the Gram matrix of
    # the basis factorises over the product grid in the order of the functions
    for (f1, k1), (f2, k2) in [(("fourier", 3), ("legendre", 2)), (("legendre", 2), ("bsplines", 5)), (("wiener", 2), ("fourier", 3)),
                               (("bsplines", 6), ("wiener", 3))]:
        N = rng.randint(2, 4)
        yield dict(kind="basis2d", families=[f1, f2], Ks=[k1, k2],
                   t1=[rs(x) for x in rng.grid(rng.choice([7, 9, 11]), lo=rng.choice([0, -1]), scale=rng.choice([1, 2]), uniform=True)],
                   t2=[rs(x) for x in rng.grid(rng.choice([8, 10, 13]), lo=rng.choice([0, 2]), scale=rng.choice([1, 3]), uniform=True)],
                   C=[[rs(x) for x in r] for r in _curves0(rng, N, k1 * k2, "rand")[0]], ck="rand")
    # data sets containing special observations among non-centred curves: an identically-null curve, two identical curves,
    # a curve equal to the sample mean (their centred versions are NOT special) - dense 1-D, 2-D, multivariate
    for which in ("null", "twin", "mean"):
        N, m = rng.randint(4, 7), rng.randint(5, 12)
        X = [[x + 3 for x in r] for r in _curves0(rng, N, m, "rand")[0]]
        k = rng.randint(0, N - 1)
        if which == "null":
            X[k] = [Fraction(0)] * m
        elif which == "twin":
            X[k] = list(X[(k + 1) % N])
        else:
            others = [r for i, r in enumerate(X) if i != k]
            X[k] = [sum(c) / (N - 1) for c in zip(*others)]      # equals the mean of the whole data set
        perm = list(range(N))
        rng.shuffle(perm)
        yield dict(kind="gram", t=[rs(x) for x in _grid(rng, m, ties=False)], X=[[rs(x) for x in r] for r in X], s2="0",
                   a=rs(rng.dyadic(-4, 4, 2)), perm=perm, ck="special:" + which, stand=False)
        m1, m2 = rng.randint(2, 4), rng.randint(3, 5)
        X2 = [[x + 2 for x in r] for r in _curves0(rng, N, m1 * m2, "rand")[0]]
        X2[k] = [Fraction(0)] * (m1 * m2) if which == "null" else list(X2[(k + 1) % N]) if which == "twin" else \
            [sum(c) / (N - 1) for c in zip(*[r for i, r in enumerate(X2) if i != k])]
        yield dict(kind="gram2d", t1=[rs(x) for x in _grid(rng, m1, ties=False)], t2=[rs(x) for x in _grid(rng, m2, ties=False)],
                   X=[[rs(x) for x in r] for r in X2], s2="0", ck="special:" + which)
        yield dict(kind="multi", comps=[dict(t=[rs(x) for x in _grid(rng, m, ties=False)], X=[[rs(x) for x in r] for r in X]),
                                        dict(t=[rs(x) for x in _grid(rng, m1 * m2, ties=False)], X=[[rs(x) for x in r] for r in X2])],
                   ck="special:" + which)
    # grids far from the origin relative to their step (time stamps in seconds sampled at 1 kHz, Julian dates, large
    # offsets): all exact floats; weights and integrals must not lose the ratio |t|/step
    for lo, step in [(1700000000, Fraction(1, 2**10)), (1700000000, Fraction(1, 2**22)), (2460000, Fraction(1, 2**31)),
                     (2**31, Fraction(1, 2**21)), (-(2**27), Fraction(1, 2**25)), (2**40, Fraction(1, 2**12)),
                     (1700000000, Fraction(1, 1000)), (2460000, Fraction(1, 86400))]:
        m = rng.randint(5, 14)
        ks = sorted(rng.sample(range(0, 8 * m), m))
        # exactly the floats NumPy will see (the decimal steps round to the full 53-bit mantissa, as real time stamps do)
        tg = [rs(Fraction(float(Fraction(lo) + k * step))) for k in ks]
        yield dict(kind="weights", t=tg, cubic=["1", "0", "0", "0"])
        ys = _curves0(rng, 2, m, "rand")[0]
        yield dict(kind="trapz", t=tg, y=[rs(x) for x in ys[0]], y2=[rs(abs(x)) for x in ys[1]],
                   a=rs(rng.dyadic(-4, 4, 2)), b=rs(rng.dyadic(-4, 4, 2)), ck="far_offset")
    for k in range(n):
        kind = kinds[k % len(kinds)]
        if kind == "weights":
            if rng.random() < 0.4:   # uniform grid with an odd number of points: Simpson exactness on cubics
                m = 2 * rng.randint(1, 12) + 1
                t = rng.grid(m, lo=rng.choice([0, -1, 3]), scale=rng.choice([1, 2, Fraction(1, 4)]), uniform=True)
            else:
                t = _grid(rng, rng.randint(2, 40))
            yield dict(kind=kind, t=[rs(x) for x in t], cubic=[rs(rng.dyadic(-3, 3, 2)) for _ in range(4)])
        elif kind == "trapz":
            m = rng.randint(2, 40)
            t = _grid(rng, m)
            ys, ck = _curves(rng, 2, m)
            yield dict(kind=kind, t=[rs(x) for x in t], y=[rs(x) for x in ys[0]], y2=[rs(x) for x in ys[1]],
                       a=rs(rng.dyadic(-4, 4, 2)), b=rs(rng.dyadic(-4, 4, 2)), ck=ck)
        elif kind == "int2":
            m1, m2 = rng.randint(2, 12), rng.randint(2, 12)
            t1, t2 = _grid(rng, m1), _grid(rng, m2)
            Y, ck = _curves(rng, m1, m2)
            g, h = rng.dyadics(m1, -4, 4, 3), rng.dyadics(m2, -4, 4, 3)
            yield dict(kind=kind, t1=[rs(x) for x in t1], t2=[rs(x) for x in t2], Y=[[rs(x) for x in r] for r in Y],
                       g=[rs(x) for x in g], h=[rs(x) for x in h], ck=ck)
        elif kind == "int3":
            m1, m2, m3 = rng.randint(2, 6), rng.randint(2, 6), rng.randint(2, 6)
            Y, ck = _curves(rng, m1, m2 * m3)
            yield dict(kind=kind, t1=[rs(x) for x in _grid(rng, m1)], t2=[rs(x) for x in _grid(rng, m2)],
                       t3=[rs(x) for x in _grid(rng, m3)], Y=[[rs(x) for x in r] for r in Y], ck=ck)
        elif kind in ("norm", "gram"):
            N = rng.randint(1, 40 if big else 14)
            m = rng.randint(2, 30)
            X, ck = _curves(rng, N, m)
            perm = list(range(N))
            rng.shuffle(perm)
            yield dict(kind=kind, t=[rs(x) for x in _grid(rng, m)], X=[[rs(x) for x in r] for r in X],
                       s2=rs(rng.choice([0, 0, Fraction(1, 8), 2])), a=rs(rng.dyadic(-4, 4, 2)), perm=perm, ck=ck,
                       stand=rng.random() < 0.3)
        elif kind == "gram2d":
            N = rng.randint(1, 8)
            m1, m2 = rng.randint(2, 7), rng.randint(2, 7)
            X, ck = _curves(rng, N, m1 * m2)
            yield dict(kind=kind, t1=[rs(x) for x in _grid(rng, m1)], t2=[rs(x) for x in _grid(rng, m2)],
                       X=[[rs(x) for x in r] for r in X], s2=rs(rng.choice([0, Fraction(1, 4)])), ck=ck)
        elif kind == "multi":
            N = rng.randint(1, 10)
            P = rng.randint(1, 3)
            comps = []
            for _ in range(P):
                m = rng.randint(2, 15)
                X, ck = _curves(rng, N, m)
                comps.append(dict(t=[rs(x) for x in _grid(rng, m)], X=[[rs(x) for x in r] for r in X]))
            yield dict(kind=kind, comps=comps, ck="multi")
        elif kind == "irreg_norm":
            N = rng.randint(1, 8)
            obs = []
            for _ in range(N):
                m = rng.randint(2, 12)
                ys, ck = _curves(rng, 1, m)
                obs.append(dict(t=[rs(x) for x in rng.grid(m)], y=[rs(x) for x in ys[0]]))
            yield dict(kind=kind, obs=obs, ck="irreg")
        elif kind == "gram_seq":
            # a history on ONE object: Gram matrices with different noise variances, values replaced in between
            N, m = rng.randint(2, 8), rng.randint(3, 12)
            X, ck = _curves(rng, N, m, "rand")
            X2, _ = _curves(rng, N, m, "rand")
            ops = []
            for _ in range(rng.randint(2, 5)):
                ops.append(rng.choice([["ip", rs(rng.choice([0, Fraction(1, 4), 3]))], ["ip", "0"], ["ip_default"], ["norm"], ["set", "X2"], ["set", "X"]]))
            ops.append(["ip", "0"])
            yield dict(kind=kind, t=[rs(x) for x in _grid(rng, m)], X=[[rs(x) for x in r] for r in X],
                       X2=[[rs(x) for x in r] for r in X2], ops=ops, ck=ck)
        elif kind == "basis":
            # basis-expansion data given by an explicit basis matrix (K x m) and coefficients (N x K)
            m = rng.randint(3, 15)
            K, N = rng.randint(1, min(5, m - 1)), rng.randint(1, 8)
            B, _ = _curves(rng, K, m, "rand")
            C, ck = _curves(rng, N, K, "rand")
            case = dict(kind=kind, t=[rs(x) for x in _grid(rng, m)], B=[[rs(x) for x in r] for r in B],
                        C=[[rs(x) for x in r] for r in C], ck=ck)
            if rng.random() < 0.5:
                # a named family evaluated by FDApy itself (values are read back and fed to the model),
                # with and without the normalisation option, on domains other than [0, 1]
                fam = rng.choice(["bsplines", "legendre", "fourier", "wiener"])
                K = rng.randint(4, 6) if fam == "bsplines" else rng.randint(2, 5)
                mm = rng.randint(max(K + 3, 9), 25)
                kw = {}
                if fam == "bsplines" and rng.random() < 0.7:    # non-default spline degree (1..5), forwarded through **kwargs
                    kw["degree"] = rng.randint(1, 5)
                    K = rng.randint(kw["degree"] + 2, kw["degree"] + 6)
                    mm = rng.randint(max(K + 3, 9), 31)
                case.update(family=fam, K=K, is_normalized=rng.random() < 0.6, kw=kw,
                            # uniform grids: the normalisation option integrates with scipy's Simpson rule, whose
                            # weights can be negative on strongly non-uniform grids (NaN basis; not this property)
                            t=[rs(x) for x in rng.grid(mm, lo=rng.choice([0, 0, -1, 2]), scale=rng.choice([1, 1, 2, 5]), uniform=True)],
                            C=[[rs(x) for x in r] for r in _curves0(rng, N, K, "rand")[0]],
                            method=rng.choice(["trapz", "trapz", "simpson"]))
            yield case


def search_cases(rng, tier):
    yield from gen_cases(rng, "thorough" if tier == "thorough" else "quick")


def witness_cases():
    return []


# --------------------------------------------------------------------------
# implementation side
# --------------------------------------------------------------------------

def _Fv(v):
    return [F(x) for x in v]


def _Fm(m):
    return [[F(x) for x in r] for r in m]


def run_impl(case):
    from FDApy.misc.utils import _inner_product, _integrate, _integration_weights

    kind = case["kind"]
    out = {}
    if kind == "weights":
        t = np.array(fl(_Fv(case["t"])))
        out["w"] = _integration_weights(t, "trapz").tolist()
        if len(t) >= 3:
            out["sw"] = _integration_weights(t, "simpson").tolist()
    elif kind == "trapz":
        t = np.array(fl(_Fv(case["t"])))
        y = np.array(fl(_Fv(case["y"])))
        y2 = np.array(fl(_Fv(case["y2"])))
        a, b = float(F(case["a"])), float(F(case["b"]))
        out["v"] = float(_integrate(y, t, method="trapz"))
        out["v2"] = float(_integrate(y2, t, method="trapz"))
        out["vlin"] = float(_integrate(a * y + b * y2, t, method="trapz"))
        out["ip"] = float(_inner_product(y, y2, t))
        if len(t) >= 3:
            out["s"] = float(_integrate(y, t, method="simpson"))
            out["s2"] = float(_integrate(y2, t, method="simpson"))
            out["slin"] = float(_integrate(a * y + b * y2, t, method="simpson"))
        if len(t) >= 3:
            # linearity on sign patterns: non-negative integrands (spikes) and their negatives / sums
            ya, ya2 = np.abs(y), np.abs(y2)
            out["s_abs"] = float(_integrate(ya, t, method="simpson"))
            out["s_negabs"] = float(_integrate(-ya, t, method="simpson"))
            out["s_abs2"] = float(_integrate(ya2, t, method="simpson"))
            out["s_abssum"] = float(_integrate(ya + ya2, t, method="simpson"))
        out["wsum"] = float(np.sum(_integration_weights(t, "trapz") * y))
        # piecewise-linear exactness: integrand affine in t
        out["aff"] = float(_integrate(a * t + b, t, method="trapz"))
    elif kind == "int2":
        t1 = np.array(fl(_Fv(case["t1"])))
        t2 = np.array(fl(_Fv(case["t2"])))
        Y = np.array(fl(_Fm(case["Y"])))
        g = np.array(fl(_Fv(case["g"])))
        h = np.array(fl(_Fv(case["h"])))
        out["v"] = float(_integrate(Y, t1, t2, method="trapz"))
        out["vT"] = float(_integrate(Y.T, t2, t1, method="trapz"))
        out["prod"] = float(_integrate(np.outer(g, h), t1, t2, method="trapz"))
        out["g"] = float(_integrate(g, t1, method="trapz"))
        out["h"] = float(_integrate(h, t2, method="trapz"))
    elif kind == "int3":
        t1 = np.array(fl(_Fv(case["t1"])))
        t2 = np.array(fl(_Fv(case["t2"])))
        t3 = np.array(fl(_Fv(case["t3"])))
        Y = np.array(fl(_Fm(case["Y"]))).reshape(len(t1), len(t2), len(t3))
        out["v"] = float(_integrate(Y, t1, t2, t3, method="trapz"))
    elif kind in ("norm", "gram"):
        t = _Fv(case["t"])
        X = np.array(fl(_Fm(case["X"])))
        fd = _dense([t], X)
        if kind == "norm":
            a = float(F(case["a"]))
            out["nsq"] = fd.norm(squared=True).tolist()
            out["n"] = fd.norm().tolist()
            out["nsq_scaled"] = _dense([t], a * X).norm(squared=True).tolist()
            out["n_scaled"] = _dense([t], a * X).norm().tolist()
            if len(X) >= 2:
                out["n_sum01"] = float(_dense([t], X[0:1] + X[1:2]).norm()[0])
                out["ip01"] = float(_inner_product(X[0], X[1], np.array(fl(t))))
            if case.get("stand"):
                out["nsq_stand"] = fd.norm(squared=True, use_argvals_stand=True).tolist()
                out["n_stand"] = fd.norm(squared=False, use_argvals_stand=True).tolist()
        else:
            s2 = float(F(case["s2"]))
            G = fd.inner_product(noise_variance=s2)
            out["G"] = G.tolist()
            perm = case["perm"]
            out["Gperm"] = _dense([t], X[perm]).inner_product(noise_variance=s2).tolist()
            out["cnsq"] = fd.center().norm(squared=True).tolist()
            # the same data handed over as a non-C-contiguous array (Fortran order / transposed view)
            out["G_fortran"] = _dense([t], np.asfortranarray(X)).inner_product(noise_variance=s2).tolist()
            if len(t) >= 3:
                # Simpson route: Gram matrix vs pairwise inner products vs squared norms, same rule
                Gs = fd.inner_product(method_integration="simpson", noise_variance=0)
                out["G_simpson"] = Gs.tolist()
                Xc = fd.center().values
                tt = np.array(fl(t))
                out["ip_simpson"] = [[float(_inner_product(Xc[i], Xc[j], tt, method="simpson")) for j in range(len(Xc))] for i in range(len(Xc))]
                out["cnsq_simpson"] = fd.center().norm(squared=True, method_integration="simpson").tolist()
    elif kind == "gram_seq":
        from FDApy.representation.values import DenseValues

        t = _Fv(case["t"])
        Xs = dict(X=np.array(fl(_Fm(case["X"]))), X2=np.array(fl(_Fm(case["X2"]))))
        fd = _dense([t], Xs["X"].copy())
        res = []
        for op in case["ops"]:
            if op[0] == "ip":
                res.append(np.array(fd.inner_product(noise_variance=float(F(op[1])))).tolist())
            elif op[0] == "ip_default":
                fd.inner_product()
                res.append(None)
            elif op[0] == "norm":
                res.append(fd.norm(squared=True).tolist())
            elif op[0] == "set":
                fd.values = DenseValues(Xs[op[1]].copy())
                res.append(None)
        out["res"] = res
    elif kind == "gram2d":
        t1, t2 = _Fv(case["t1"]), _Fv(case["t2"])
        X = np.array(fl(_Fm(case["X"]))).reshape(-1, len(t1), len(t2))
        fd = _dense([t1, t2], X)
        out["G"] = fd.inner_product(noise_variance=float(F(case["s2"]))).tolist()
        out["nsq"] = fd.norm(squared=True).tolist()
    elif kind == "multi":
        from FDApy.representation.functional_data import MultivariateFunctionalData

        comps = [_dense([_Fv(c["t"])], np.array(fl(_Fm(c["X"])))) for c in case["comps"]]
        mfd = MultivariateFunctionalData(comps)
        out["G"] = mfd.inner_product(noise_variance=np.zeros(len(comps))).tolist()
        out["Gp"] = [c.inner_product(noise_variance=0).tolist() for c in comps]
        out["nsq"] = mfd.norm(squared=True).tolist()
        out["n"] = mfd.norm().tolist()
        if all(len(c["t"]) >= 3 for c in case["comps"]):
            out["G_simpson"] = mfd.inner_product(method_integration="simpson", noise_variance=np.zeros(len(comps))).tolist()
            out["Gp_simpson"] = [c.inner_product(method_integration="simpson", noise_variance=0).tolist() for c in comps]
            out["nsq_simpson"] = mfd.norm(squared=True, method_integration="simpson").tolist()
            out["nsqp_simpson"] = [c.norm(squared=True, method_integration="simpson").tolist() for c in comps]
    elif kind == "irreg_norm":
        from FDApy.representation.argvals import DenseArgvals, IrregularArgvals
        from FDApy.representation.functional_data import IrregularFunctionalData
        from FDApy.representation.values import IrregularValues

        arg = IrregularArgvals({i: DenseArgvals({"input_dim_0": np.array(fl(_Fv(o["t"])))}) for i, o in enumerate(case["obs"])})
        val = IrregularValues({i: np.array(fl(_Fv(o["y"]))) for i, o in enumerate(case["obs"])})
        fd = IrregularFunctionalData(arg, val)
        out["nsq"] = fd.norm(squared=True).tolist()
    elif kind == "basis":
        from FDApy.representation.basis import Basis  # noqa: F401
        from FDApy.representation.functional_data import BasisFunctionalData

        t = _Fv(case["t"])
        B = np.array(fl(_Fm(case["B"])))
        C = np.array(fl(_Fm(case["C"])))
        from FDApy.representation.argvals import DenseArgvals
        from FDApy.representation.values import DenseValues

        meth = case.get("method", "trapz")
        try:
            if case.get("family"):
                basis = Basis(name=case["family"], n_functions=case["K"], argvals=DenseArgvals({"input_dim_0": np.array(fl(t))}),
                              is_normalized=case["is_normalized"], **case.get("kw", {}))
                out["B"] = np.asarray(basis.values).tolist()
            else:
                basis = Basis(name="given", argvals=DenseArgvals({"input_dim_0": np.array(fl(t))}), values=DenseValues(B))
            bfd = BasisFunctionalData(basis, C)
            out["nsq"] = np.asarray(bfd.norm(squared=True, method_integration=meth)).tolist()
            out["G"] = np.asarray(bfd.inner_product(method_integration=meth)).tolist()
            grid = bfd.to_grid()
            out["grid_nsq"] = grid.norm(squared=True, method_integration=meth).tolist()
            tt = np.array(fl(t))
            out["grid_ip"] = [[float(_inner_product(grid.values[i], grid.values[j], tt, method=meth)) for j in range(len(C))] for i in range(len(C))]
            if len(t) >= 3:
                # a history on ONE object (and on a subset sharing its basis): the other quadrature rule is asked for in
                # between; the rule named in a call decides its result, not what was computed before
                other = "simpson" if meth == "trapz" else "trapz"
                with np.errstate(all="ignore"):
                    out["nsq_other_used"] = np.asarray(bfd.norm(squared=True, method_integration=other)).tolist()
                    bfd.inner_product(method_integration=other)
                    if case.get("family"):
                        fresh_basis = Basis(name=case["family"], n_functions=case["K"], argvals=DenseArgvals({"input_dim_0": np.array(fl(t))}),
                                            is_normalized=case["is_normalized"], **case.get("kw", {}))
                    else:
                        fresh_basis = Basis(name="given", argvals=DenseArgvals({"input_dim_0": np.array(fl(t))}), values=DenseValues(B))
                    out["nsq_other_fresh"] = np.asarray(BasisFunctionalData(fresh_basis, C).norm(squared=True, method_integration=other)).tolist()
                out["nsq_after"] = np.asarray(bfd.norm(squared=True, method_integration=meth)).tolist()
                out["G_after"] = np.asarray(bfd.inner_product(method_integration=meth)).tolist()
                sub = bfd[0]
                out["sub_nsq"] = np.asarray(sub.norm(squared=True, method_integration=meth)).tolist()
                with np.errstate(all="ignore"):
                    sub.norm(squared=True, method_integration=other)
                out["nsq_after_sub"] = np.asarray(bfd.norm(squared=True, method_integration=meth)).tolist()
        except ModuleNotFoundError:
            # Gram matrix of the basis failed the Cholesky test; the fallback needs statsmodels (absent)
            out["error"] = "cholesky-fallback"
    elif kind == "basis2d":
        from FDApy.representation.argvals import DenseArgvals
        from FDApy.representation.basis import Basis
        from FDApy.representation.functional_data import BasisFunctionalData

        t1, t2 = np.array(fl(_Fv(case["t1"]))), np.array(fl(_Fv(case["t2"])))
        C = np.array(fl(_Fm(case["C"])))
        try:
            basis = Basis(name=tuple(case["families"]), n_functions=tuple(case["Ks"]),
                          argvals=DenseArgvals({"input_dim_0": t1, "input_dim_1": t2}))
            marg = [Basis(name=f, n_functions=k, argvals=DenseArgvals({"input_dim_0": t}))
                    for f, k, t in zip(case["families"], case["Ks"], (t1, t2))]
            out["B"] = np.asarray(basis.values).reshape(len(basis.values), -1).tolist()
            out["BG"] = np.asarray(basis.inner_product()).tolist()
            out["BG_marg"] = [np.asarray(b.inner_product()).tolist() for b in marg]
            bfd = BasisFunctionalData(basis, C)
            out["nsq"] = np.asarray(bfd.norm(squared=True)).tolist()
            out["G"] = np.asarray(bfd.inner_product()).tolist()
            grid = bfd.to_grid()
            out["grid_nsq"] = grid.norm(squared=True).tolist()
            out["grid_ip"] = [[float(_inner_product(grid.values[i], grid.values[j], t1, t2)) for j in range(len(C))] for i in range(len(C))]
        except ModuleNotFoundError:
            out["error"] = "cholesky-fallback"
    return out


# --------------------------------------------------------------------------
# model side
# --------------------------------------------------------------------------

def model_lines(case, impl):
    kind = case["kind"]
    J = ",".join
    M = lambda m: ";".join(",".join(r) for r in m)  # noqa: E731
    if kind == "weights":
        return [f"w {J(case['t'])}"] + ([f"simpsonw {J(case['t'])}"] if len(case["t"]) >= 3 else [])
    if kind == "trapz":
        t = J(case["t"])
        a, b = F(case["a"]), F(case["b"])
        lin = [rs(a * F(u) + b * F(v)) for u, v in zip(case["y"], case["y2"])]
        ip = [rs(F(u) * F(v)) for u, v in zip(case["y"], case["y2"])]
        aff = [rs(a * F(x) + b) for x in case["t"]]
        return [f"trapz {t} {J(case['y'])}", f"trapz {t} {J(case['y2'])}", f"trapz {t} {J(lin)}",
                f"trapz {t} {J(ip)}", f"trapz {t} {J(aff)}"]
    if kind == "int2":
        gh = [[rs(F(g) * F(h)) for h in case["h"]] for g in case["g"]]
        return [f"int2 {J(case['t1'])} {J(case['t2'])} {M(case['Y'])}", f"int2 {J(case['t1'])} {J(case['t2'])} {M(gh)}"]
    if kind == "int3":
        return [f"int3 {J(case['t1'])} {J(case['t2'])} {J(case['t3'])} {M(case['Y'])}"]
    if kind == "norm":
        return [f"normsq {J(case['t'])} {M(case['X'])}"] + ([f"normsq_stand {J(case['t'])} {M(case['X'])}"] if case.get("stand") else [])
    if kind == "gram":
        return [f"gram {J(case['t'])} {M(case['X'])} {case['s2']}"]
    if kind == "gram_seq":
        cur = "X"
        ls = []
        for op in case["ops"]:
            if op[0] == "ip":
                ls.append(f"gram {J(case['t'])} {M(case[cur])} {op[1]}")
            elif op[0] == "norm":
                ls.append(f"normsq {J(case['t'])} {M(case[cur])}")
            elif op[0] == "set":
                cur = op[1]
        return ls
    if kind == "gram2d":
        return [f"gram2 {J(case['t1'])} {J(case['t2'])} {M(case['X'])} {case['s2']}"]
    if kind == "multi":
        return [f"gram {J(c['t'])} {M(c['X'])} 0" for c in case["comps"]] + [f"normsq {J(c['t'])} {M(c['X'])}" for c in case["comps"]]
    if kind == "irreg_norm":
        return [f"normsq {J(o['t'])} {J(o['y'])}" for o in case["obs"]]
    if kind == "basis":
        # model of to_grid: X = C B (exact), then the dense norm
        if "error" in impl or "__crash__" in impl or case.get("method", "trapz") != "trapz":
            return []
        if case.get("family"):
            if not np.all(np.isfinite(np.array(impl["B"], dtype=float))):
                return []
            B = [[F(x) for x in r] for r in impl["B"]]   # the basis values FDApy evaluated, as exact rationals
        else:
            B = _Fm(case["B"])
        C = _Fm(case["C"])
        X = [[sum(c[k] * B[k][j] for k in range(len(B))) for j in range(len(B[0]))] for c in C]
        return [f"normsq {J(case['t'])} {mat(X)}", f"coefgram {J(case['t'])} {mat(B)} {M(case['C'])}"]
    if kind == "basis2d":
        if "error" in impl or "__crash__" in impl or not np.all(np.isfinite(np.array(impl["B"], dtype=float))):
            return []
        B = [[F(x) for x in r] for r in impl["B"]]   # the tensor-product basis FDApy evaluated (flattened), as exact rationals
        C = _Fm(case["C"])
        X = [[sum(c[k] * B[k][j] for k in range(len(B))) for j in range(len(B[0]))] for c in C]
        return [f"ip2d {J(case['t1'])} {J(case['t2'])} {mat(B)}", f"ip2d {J(case['t1'])} {J(case['t2'])} {mat(X)}"]
    return []


def parse_model(case, outs):
    kind = case["kind"]
    if kind == "weights":
        return dict(w=outs[0], sw=outs[1] if len(outs) > 1 else None)
    if kind in ("trapz", "int2", "int3"):
        return dict(vals=[o.split(" ") for o in outs])
    return dict(outs=outs)


def _gram_scale(case_X, Q, L, extra=0.0):
    """Scale for comparing a float Gram matrix with the exact one (the tolerance is 1e-9 x this): the size of
    the matrix plus the rounding of the centring step, which is eps-level relative to
    (level of the data) x (spread) x (measure of the domain).  A two-pass algorithm stays inside it; a
    one-pass formula (error ~ eps x level^2) does not."""
    X = [[float(F(x)) for x in r] for r in case_X]
    g = max([abs(float(x)) for r in Q for x in r] + [abs(extra), 1e-300])
    if not X or not X[0]:
        return g
    lev = max(abs(x) for r in X for x in r)
    spread = max(max(c) - min(c) for c in zip(*X))
    return g + 7.1e-6 * lev * spread * abs(L)


def _dom(*ts):
    L = 1.0
    for t in ts:
        L *= float(F(t[-1]) - F(t[0]))
    return L


def _cmp_vec(name, fs, qs, scale=None, rtol=1e-9):
    i = close_all(fs, qs, scale, rtol)
    if i is None:
        return []
    if i == -1:
        return [f"{name}: length {len(list(fs))} vs model {len(list(qs))}"]
    return [f"{name}[{i}]: impl {list(fs)[i]!r} vs exact {float(list(qs)[i])!r}"]


def _cmp_weights(name, fs, qs, rtol=1e-13):
    """Quadrature weights, entry by entry and RELATIVE TO THE WEIGHT ITSELF.  The grids are exact floats, a weight is
    a difference of two of them times a constant: one correctly rounded subtraction (relative error 2^-53 whatever the
    distance of the grid from the origin) and at most two more roundings.  A formula that rounds at the magnitude of
    the abscissae (midpoints, cumulative sums) loses |t|/step of that and is not the same weight."""
    fs, qs = list(fs), list(qs)
    if len(fs) != len(qs):
        return [f"{name}: length {len(fs)} vs model {len(qs)}"]
    for i, (f, q) in enumerate(zip(fs, qs)):
        if not close(f, q, abs(q), rtol):
            return [f"{name}[{i}]: impl {f!r} vs exact {float(q)!r} (relative to the weight)"]
    return []


def compare(case, impl, model):
    if "__crash__" in impl:
        return [f"implementation crashed: {impl['__crash__']} {impl.get('msg')}"]
    kind = case["kind"]
    ds = []
    if kind == "weights":
        if model["w"] in ("error", "bad"):
            return [f"model rejects the grid: {model['w']}"]
        ds += _cmp_weights("weights", impl["w"], pvec(model["w"]))
        if model.get("sw"):
            ds += _cmp_weights("simpson weights", impl["sw"], pvec(model["sw"]))
    elif kind == "trapz":
        names = ["v", "v2", "vlin", "ip", "aff"]
        for nm, (q, sc) in zip(names, model["vals"]):
            if not close(impl[nm], F(q), max(F(sc), 1e-300), 1e-9):
                ds.append(f"{nm}: impl {impl[nm]!r} vs exact {float(F(q))!r}")
    elif kind == "int2":
        for nm, (q, sc) in zip(["v", "prod"], model["vals"]):
            if not close(impl[nm], F(q), max(F(sc), 1e-300), 1e-9):
                ds.append(f"{nm}: impl {impl[nm]!r} vs exact {float(F(q))!r}")
    elif kind == "int3":
        q, sc = model["vals"][0]
        if not close(impl["v"], F(q), max(F(sc), 1e-300), 1e-9):
            ds.append(f"v: impl {impl['v']!r} vs exact {float(F(q))!r}")
    elif kind == "norm":
        qs = pvec(model["outs"][0])
        ds += _cmp_vec("normsq", impl["nsq"], qs)
        ds += _cmp_vec("norm^2", [x * x for x in impl["n"]], qs)
        if case.get("stand"):
            ds += _cmp_vec("normsq on standardised grid", impl["nsq_stand"], pvec(model["outs"][1]))
    elif kind in ("gram", "gram2d"):
        Q = pmat(model["outs"][0])
        G = impl["G"]
        L = _dom(case["t"]) if kind == "gram" else _dom(case["t1"], case["t2"])
        scale = _gram_scale(case["X"], Q, L, float(F(case["s2"])))
        if len(G) != len(Q):
            return [f"gram shape {len(G)} vs {len(Q)}"]
        for i, (gr, qr) in enumerate(zip(G, Q)):
            ds += _cmp_vec(f"gram[{i}]", gr, qr, scale, 1e-9)
            if ds:
                break
    elif kind == "gram_seq":
        k = 0
        for op, r in zip(case["ops"], impl["res"]):
            if op[0] == "ip":
                Q = pmat(model["outs"][k]); k += 1
                sc = max(_gram_scale(case["X"], Q, _dom(case["t"]), float(F(op[1]))), _gram_scale(case["X2"], Q, _dom(case["t"])))
                for i, (gr, qr) in enumerate(zip(r, Q)):
                    ds += _cmp_vec(f"step {op}: gram[{i}]", gr, qr, sc, 1e-9)
            elif op[0] == "norm":
                ds += _cmp_vec(f"step {op}: normsq", r, pvec(model["outs"][k])); k += 1
            if ds:
                break
    elif kind == "multi":
        P = len(case["comps"])
        Qs = [pmat(o) for o in model["outs"][:P]]
        N = len(Qs[0])
        Qsum = [[sum(Q[i][k] for Q in Qs) for k in range(N)] for i in range(N)]
        scale = sum(_gram_scale(c["X"], Q, _dom(c["t"])) for c, Q in zip(case["comps"], Qs))
        for i in range(N):
            ds += _cmp_vec(f"multigram[{i}]", impl["G"][i], Qsum[i], scale, 1e-9)
        ns = [pvec(o) for o in model["outs"][P:]]
        nsum = [sum(v[i] for v in ns) for i in range(N)]
        ds += _cmp_vec("multi normsq", impl["nsq"], nsum)
    elif kind == "irreg_norm":
        qs = [pvec(o)[0] for o in model["outs"]]
        ds += _cmp_vec("irregular normsq", impl["nsq"], qs)
    elif kind == "basis":
        if "error" in impl:
            return []
        qs = pvec(model["outs"][0])
        # Basis.inner_product zeroes basis-Gram entries below 1e-12 (absolute, by design): each zeroed entry
        # moves <c_i, G c_j> by at most 1e-12 |c_ik| |c_jl|, i.e. 1e-12 * l1^2 in total
        l1 = max(sum(abs(float(F(x))) for x in r) for r in case["C"])
        slack = 1e-3 * l1 * l1      # times rtol 1e-8 = 1e-11 l1^2
        ds += _cmp_vec("basis normsq", impl["nsq"], qs, max([abs(float(q)) for q in qs] + [1.0]) + slack, 1e-8)
        ds += _cmp_vec("grid normsq", impl["grid_nsq"], qs, None, 1e-9)
        Q = pmat(model["outs"][1])
        sc = max([abs(float(x)) for r in Q for x in r] + [1e-300])
        for i, (gr, qr) in enumerate(zip(impl["G"], Q)):
            ds += _cmp_vec(f"coefficient Gram[{i}]", gr, qr, sc + 1.0 + slack, 1e-8)
    elif kind == "basis2d":
        if "error" in impl or not model.get("outs"):
            return []
        QB, QX = pmat(model["outs"][0]), pmat(model["outs"][1])
        scb = max([abs(float(x)) for r in QB for x in r] + [1e-300])
        for i, (gr, qr) in enumerate(zip(impl["BG"], QB)):
            # Basis.inner_product zeroes entries below 1e-12 (absolute, by design)
            ds += _cmp_vec(f"Gram of the tensor-product basis[{i}]", gr, qr, scb + 1e-3, 1e-9)
        l1 = max(sum(abs(float(F(x))) for x in r) for r in case["C"])
        slack = 1e-3 * l1 * l1
        scx = max([abs(float(x)) for r in QX for x in r] + [1e-300])
        for i, (gr, qr) in enumerate(zip(impl["G"], QX)):
            ds += _cmp_vec(f"coefficient Gram (2-D basis)[{i}]", gr, qr, scx + slack, 1e-8)
        ds += _cmp_vec("2-D basis normsq", impl["nsq"], [QX[i][i] for i in range(len(QX))], scx + slack, 1e-8)
        ds += _cmp_vec("2-D grid normsq", impl["grid_nsq"], [QX[i][i] for i in range(len(QX))], scx, 1e-9)
    return ds


# --------------------------------------------------------------------------
# the property's own predicate, evaluated on the implementation
# --------------------------------------------------------------------------

def _approx(a, b, scale=1.0, tol=1e-8):
    return abs(a - b) <= tol * max(abs(scale), abs(a), abs(b), 1e-300)


def oracle(case, impl):
    if "__crash__" in impl:
        return [dict(clause="runs", entry=case["kind"], msg=f"crash {impl['__crash__']}: {impl.get('msg')}")]
    kind = case["kind"]
    vs = []

    def bad(clause, msg, entry):
        vs.append(dict(clause=clause, entry=entry, msg=msg))

    if kind == "weights" and "sw" in impl and len(case["t"]) % 2 == 1:
        tq = _Fv(case["t"])
        hs = {b - a for a, b in zip(tq, tq[1:])}
        if len(hs) == 1:   # uniform, odd number of points: the coded Simpson weights integrate cubics exactly
            c = _Fv(case.get("cubic", ["1", "1", "1", "1"]))
            f = lambda x: c[0] + c[1] * x + c[2] * x**2 + c[3] * x**3                               # noqa: E731
            Fa = lambda x: c[0] * x + c[1] * x**2 / 2 + c[2] * x**3 / 3 + c[3] * x**4 / 4            # noqa: E731
            exact = Fa(tq[-1]) - Fa(tq[0])
            got = sum(w * float(f(x)) for w, x in zip(impl["sw"], tq))
            sc = sum(abs(w * float(f(x))) for w, x in zip(impl["sw"], tq)) + 1e-300
            if abs(got - float(exact)) > 1e-9 * sc:
                bad("simpson_exact", f"coded Simpson weights on a uniform odd grid give {got} for a cubic whose integral is {float(exact)}", "_integration_weights")
    if kind == "trapz":
        a, b = float(F(case["a"])), float(F(case["b"]))
        t = fl(_Fv(case["t"]))
        y, y2 = fl(_Fv(case["y"])), fl(_Fv(case["y2"]))
        sc = sum(abs(u) + abs(v) for u, v in zip(y, y2)) * (abs(a) + abs(b) + 1) * (t[-1] - t[0] + 1e-300)
        if not _approx(impl["vlin"], a * impl["v"] + b * impl["v2"], sc):
            bad("linear", f"trapz(a y + b y2) = {impl['vlin']} but a trapz(y) + b trapz(y2) = {a*impl['v']+b*impl['v2']}", "_integrate")
        if "slin" in impl and not _approx(impl["slin"], a * impl["s"] + b * impl["s2"], sc):
            bad("linear", "simpson route is not linear", "_integrate")
        if "s_abs" in impl:
            sca = (sum(abs(u) + abs(v) for u, v in zip(y, y2)) + 1e-300) * (t[-1] - t[0] + 1e-300) * 8
            if not _approx(impl["s_negabs"], -impl["s_abs"], sca):
                bad("linear", f"simpson: I(-f) = {impl['s_negabs']} but -I(f) = {-impl['s_abs']} for a non-negative integrand f", "_integrate")
            if not _approx(impl["s_abssum"], impl["s_abs"] + impl["s_abs2"], sca):
                bad("linear", f"simpson: I(f+g) = {impl['s_abssum']} but I(f)+I(g) = {impl['s_abs'] + impl['s_abs2']} for non-negative f, g", "_integrate")
        if not _approx(impl["wsum"], impl["v"], sc):
            bad("weights", f"sum(w*y) = {impl['wsum']} differs from the integral {impl['v']}", "_integration_weights")
        t0q, t1q = F(case["t"][0]), F(case["t"][-1])   # exact arithmetic: t1^2 - t0^2 cancels badly in floats far from 0
        exact = float(F(case["a"]) * (t1q * t1q - t0q * t0q) / 2 + F(case["b"]) * (t1q - t0q))
        if not _approx(impl["aff"], exact, (abs(a) * max(abs(t[0]), abs(t[-1])) + abs(b)) * (t[-1] - t[0]) + 1e-300):
            bad("exact_linear", f"integral of affine integrand {impl['aff']} vs exact {exact}", "_integrate")
    elif kind == "int2":
        sc = max(abs(impl["v"]), abs(impl["vT"]), 1.0)
        if not _approx(impl["v"], impl["vT"], sc):
            bad("factorise", "integration depends on the order of the axes", "_integrate")
        if not _approx(impl["prod"], impl["g"] * impl["h"], max(abs(impl["g"] * impl["h"]), 1.0) * 10):
            bad("factorise", f"integral of g⊗h {impl['prod']} vs product {impl['g']*impl['h']}", "_integrate")
    elif kind == "norm":
        a = float(F(case["a"]))
        for i, (n0, n1) in enumerate(zip(impl["n"], impl["n_scaled"])):
            if not _approx(n1, abs(a) * n0, max(n0, 1.0)):
                bad("homogeneous", f"norm(a x) = {n1} vs |a| norm(x) = {abs(a)*n0} (obs {i})", "DenseFunctionalData.norm")
                break
        if "n_sum01" in impl:
            if impl["n_sum01"] > impl["n"][0] + impl["n"][1] + 1e-9 * max(1.0, impl["n"][0] + impl["n"][1]):
                bad("triangle", "norm(x+y) > norm(x)+norm(y)", "DenseFunctionalData.norm")
            if abs(impl["ip01"]) > impl["n"][0] * impl["n"][1] * (1 + 1e-9) + 1e-12:
                bad("cauchy_schwarz", "|<x,y>| > norm(x) norm(y)", "_inner_product")
        if any(x < 0 for x in impl["nsq"]):
            bad("nonneg", "negative squared norm", "DenseFunctionalData.norm")
        if "nsq_stand" in impl:
            tq = _Fv(case["t"])
            L = float(tq[-1] - tq[0])
            for i, (a2, a1, b2) in enumerate(zip(impl["nsq_stand"], impl["n_stand"], impl["nsq"])):
                if not _approx(a2, a1 * a1, max(a2, 1e-300), 1e-9):
                    bad("norm_options", f"norm(squared=True, use_argvals_stand=True) = {a2} is not the square of norm(squared=False, use_argvals_stand=True) = {a1} (obs {i})", "DenseFunctionalData.norm")
                    break
                if L > 0 and not _approx(a2 * L, b2, max(b2, 1e-300), 1e-9):
                    bad("norm_options", f"squared norm on the standardised grid times the domain length {a2 * L} differs from the squared norm {b2} (obs {i})", "DenseFunctionalData.norm")
                    break
    elif kind == "basis" and "error" not in impl and np.all(np.isfinite(np.array(impl["G"], dtype=float))):
        G = np.array(impl["G"], dtype=float)
        sc = max(np.abs(G).max(), 1e-300)
        # Basis.inner_product zeroes basis-Gram entries below 1e-12 (absolute, by design): each zeroed entry
        # moves <c_i, G c_j> by at most 1e-12 |c_ik| |c_jl|
        l1 = max(sum(abs(float(F(x))) for x in r) for r in case["C"])
        sc = sc + 1e-3 * l1 * l1          # 1e-9 * (1e-3 l1^2) = 1e-12 l1^2
        if not np.allclose(np.diag(G), impl["grid_nsq"], rtol=1e-7, atol=1e-9 * sc):
            bad("basis_norm", "squared norms from the coefficients differ from those of the evaluated curves", "BasisFunctionalData.inner_product")
        if not np.allclose(impl["nsq"], impl["grid_nsq"], rtol=1e-7, atol=1e-9 * sc):
            bad("basis_norm", "BasisFunctionalData.norm differs from the norm of the evaluated curves", "BasisFunctionalData.norm")
        if "grid_ip" in impl and not np.allclose(G, np.array(impl["grid_ip"]), rtol=1e-7, atol=1e-9 * sc + 1e-10):
            bad("basis_inner_product", "coefficient-space Gram matrix differs from the inner products of the evaluated curves "
                f"(family {case.get('family', 'given')}, is_normalized={case.get('is_normalized')}, {case.get('method', 'trapz')})",
                "BasisFunctionalData.inner_product")
        if not np.allclose(G, G.T, rtol=0, atol=1e-9 * sc):
            bad("symmetric", "coefficient-space Gram matrix not symmetric", "BasisFunctionalData.inner_product")
        if np.linalg.eigvalsh((G + G.T) / 2).min() < -1e-8 * sc:
            bad("psd", "coefficient-space Gram matrix not PSD", "BasisFunctionalData.inner_product")
        if "nsq_after" in impl:
            m_ = case.get("method", "trapz")
            if not np.allclose(impl["nsq_other_used"], impl["nsq_other_fresh"], rtol=1e-12, atol=1e-12 * sc, equal_nan=True):
                bad("rule_decides", f"norm under the other rule on an object already used with {m_!r} differs from the same call on a freshly built object "
                    "(a quantity computed under one rule is reused under another)", "BasisFunctionalData.norm")
            if not np.allclose(impl["nsq_after"], impl["nsq"], rtol=1e-12, atol=1e-12 * sc, equal_nan=True):
                bad("rule_decides", f"norm(method_integration={m_!r}) changed after the other rule was asked for on the same object", "BasisFunctionalData.norm")
            if not np.allclose(impl["G_after"], G, rtol=1e-12, atol=1e-12 * sc, equal_nan=True):
                bad("rule_decides", f"inner_product(method_integration={m_!r}) changed after the other rule was asked for on the same object", "BasisFunctionalData.inner_product")
            if not np.allclose(impl["sub_nsq"], impl["nsq"][:1], rtol=1e-12, atol=1e-12 * sc, equal_nan=True):
                bad("rule_decides", f"norm of a subset (sharing the basis) under {m_!r} differs from the parent's after the other rule was used on the parent", "BasisFunctionalData.norm")
            if not np.allclose(impl["nsq_after_sub"], impl["nsq"], rtol=1e-12, atol=1e-12 * sc, equal_nan=True):
                bad("rule_decides", f"norm under {m_!r} changed after the other rule was used on a subset sharing the basis", "BasisFunctionalData.norm")
    elif kind == "basis2d" and "error" not in impl and np.all(np.isfinite(np.array(impl["G"], dtype=float))):
        G, BG = np.array(impl["G"], dtype=float), np.array(impl["BG"], dtype=float)
        l1 = max(sum(abs(float(F(x))) for x in r) for r in case["C"])
        sc = max(np.abs(G).max(), 1e-300) + 1e-3 * l1 * l1
        fam = "x".join(case["families"])
        K = np.kron(np.array(impl["BG_marg"][0], dtype=float), np.array(impl["BG_marg"][1], dtype=float))
        if BG.shape != K.shape or not np.allclose(BG, K, rtol=1e-7, atol=1e-9 * max(np.abs(K).max(), 1.0) + 2e-12):
            bad("factorises", f"the Gram matrix of the tensor-product basis {fam} is not the product of the marginal inner products "
                "<phi_a, phi_c><psi_b, psi_d> in the order of the functions", "Basis.inner_product")
        if not np.allclose(np.diag(G), impl["grid_nsq"], rtol=1e-7, atol=1e-9 * sc):
            bad("basis_norm", f"squared norms from the coefficients differ from those of the evaluated surfaces ({fam})", "BasisFunctionalData.inner_product")
        if not np.allclose(impl["nsq"], impl["grid_nsq"], rtol=1e-7, atol=1e-9 * sc):
            bad("basis_norm", f"BasisFunctionalData.norm differs from the norm of the evaluated surfaces ({fam})", "BasisFunctionalData.norm")
        if not np.allclose(G, np.array(impl["grid_ip"]), rtol=1e-7, atol=1e-9 * sc + 1e-10):
            bad("basis_inner_product", f"coefficient-space Gram matrix differs from the inner products of the evaluated surfaces ({fam})",
                "BasisFunctionalData.inner_product")
        if not np.allclose(G, G.T, rtol=0, atol=1e-9 * sc):
            bad("symmetric", "coefficient-space Gram matrix not symmetric", "BasisFunctionalData.inner_product")
        if np.linalg.eigvalsh((G + G.T) / 2).min() < -1e-8 * sc:
            bad("psd", "coefficient-space Gram matrix not PSD", "BasisFunctionalData.inner_product")
        d, o = np.sqrt(np.abs(np.diag(G))), np.abs(G)
        if (o > np.outer(d, d) * (1 + 1e-7) + 1e-9 * sc).any():
            bad("cauchy_schwarz", "|<x_i, x_j>| exceeds |x_i| |x_j| for basis-expansion data on a 2-D basis", "BasisFunctionalData.inner_product")
    elif kind == "gram_seq":
        # the last step is inner_product(noise_variance=0): must be a Gram matrix of the CURRENT values
        G = np.array(impl["res"][-1], dtype=float)
        sc = max(np.abs(G).max(), 1e-300)
        if not np.allclose(G, G.T, rtol=0, atol=1e-9 * sc):
            bad("symmetric", "Gram matrix after a history of calls not symmetric", "DenseFunctionalData.inner_product")
        if np.abs(G.sum(axis=1)).max() > 1e-8 * sc * len(G):
            bad("rows_sum_zero", "rows of the Gram matrix do not sum to zero after a history of calls", "DenseFunctionalData.inner_product")
        if np.linalg.eigvalsh((G + G.T) / 2).min() < -1e-8 * sc:
            bad("psd", "Gram matrix not PSD after a history of calls", "DenseFunctionalData.inner_product")
        cur = "X"
        for op in case["ops"]:
            if op[0] == "set":
                cur = op[1]
        Xc = np.array(fl(_Fm(case[cur])))
        Xc = Xc - Xc.mean(axis=0)
        d = np.trapz(Xc * Xc, x=np.array(fl(_Fv(case["t"]))), axis=1)
        if not np.allclose(np.diag(G), d, rtol=1e-8, atol=1e-9 * sc):
            bad("diagonal", "diagonal of the Gram matrix is not the squared norm of the centred CURRENT curves (stale state?)", "DenseFunctionalData.inner_product")
    elif kind in ("gram", "gram2d", "multi"):
        G = np.array(impl["G"], dtype=float)
        entry = {"gram": "DenseFunctionalData.inner_product", "gram2d": "DenseFunctionalData.inner_product", "multi": "MultivariateFunctionalData.inner_product"}[kind]
        s2 = float(F(case.get("s2", "0")))
        G0 = G + s2 * np.eye(len(G))
        # rounding of (G - s2 I) + s2 I is relative to s2 as well
        sc = max(np.abs(G0).max() if G0.size else 0.0, abs(s2), 1e-300)
        if not np.allclose(G, G.T, rtol=0, atol=1e-9 * sc):
            bad("symmetric", "Gram matrix not symmetric", entry)
        if G0.size and np.linalg.eigvalsh((G0 + G0.T) / 2).min() < -1e-8 * sc:
            bad("psd", f"Gram matrix has eigenvalue {np.linalg.eigvalsh((G0+G0.T)/2).min()}", entry)
        if G0.size and np.abs(G0.sum(axis=1)).max() > 1e-8 * sc * max(len(G0), 1):
            bad("rows_sum_zero", f"row sums {np.abs(G0.sum(axis=1)).max()}", entry)
        if kind == "gram" and "G_fortran" in impl and not np.allclose(G, np.array(impl["G_fortran"]), rtol=0, atol=1e-9 * sc):
            bad("memory_layout", "Gram matrix depends on the memory layout of the values array", entry)
        if kind == "gram" and "G_simpson" in impl:
            Gs, Ps = np.array(impl["G_simpson"]), np.array(impl["ip_simpson"])
            scs = max(np.abs(Ps).max(), 1e-300)
            if not np.allclose(Gs, Ps, rtol=0, atol=1e-9 * scs):
                bad("gram_vs_inner_product", "simpson: Gram matrix differs from the pairwise inner products of the centred curves", entry)
            if not np.allclose(np.diag(Gs), impl["cnsq_simpson"], rtol=0, atol=1e-9 * scs):
                bad("diagonal", "simpson: diagonal is not the squared norm of the centred curves", entry)
        if kind == "gram":
            if not np.allclose(np.diag(G0), impl["cnsq"], rtol=1e-8, atol=1e-9 * sc):
                bad("diagonal", "diagonal is not the squared norm of the centred curves", entry)
            perm = case["perm"]
            Gp = np.array(impl["Gperm"])
            if not np.allclose(Gp, G[np.ix_(perm, perm)], rtol=0, atol=1e-8 * sc):
                bad("permutation", "Gram matrix not equivariant under permutation of observations", entry)
        if kind == "multi":
            S = np.sum([np.array(g) for g in impl["Gp"]], axis=0)
            if not np.allclose(G, S, rtol=0, atol=1e-9 * sc):
                bad("multivariate_sum", "multivariate Gram matrix is not the sum of the component Gram matrices", entry)
            if "G_simpson" in impl:
                Gs = np.array(impl["G_simpson"])
                Ss = np.sum([np.array(g) for g in impl["Gp_simpson"]], axis=0)
                scs = max(np.abs(Ss).max(), 1e-300)
                if not np.allclose(Gs, Ss, rtol=0, atol=1e-9 * scs):
                    bad("multivariate_sum", "simpson: multivariate Gram matrix is not the sum of the component Gram matrices", entry)
                ns = np.sum(np.array(impl["nsqp_simpson"]), axis=0)
                if not np.allclose(impl["nsq_simpson"], ns, rtol=1e-9, atol=1e-12 * scs):
                    bad("multivariate_sum", "simpson: multivariate squared norm is not the sum of the component squared norms", "MultivariateFunctionalData.norm")
    return vs


def nontrivial(case, impl):
    if case.get("ck") == "zeros":
        return None
    from common import digest

    return digest(case)


def classify(case, impl):
    tags = ["kind:" + case["kind"], "content:" + str(case.get("ck"))]
    for k in ("t", "t1"):
        if k in case:
            tags.append("gridpts:" + ("2" if len(case[k]) == 2 else "3-9" if len(case[k]) < 10 else "10+"))
    if "X" in case:
        tags.append("n_obs:" + ("1" if len(case["X"]) == 1 else "2-9" if len(case["X"]) < 10 else "10+"))
    return tags
