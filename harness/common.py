"""Shared machinery of the FDApy verification harness.

Every property check `harness/cXX.py` is a *spec module* (see `run.py` for the
protocol); this file holds what they share: exact rationals, the seeded PRNG,
the line protocol to the Lean drivers, the proof build + axiom audit, the
known-findings file, the evidence writer.

The implementation under test is always the *current working tree* of /repo
(VERIF_REPO overrides), imported in-process.
"""
from __future__ import annotations

import hashlib
import json
import math
import contextlib
import fcntl
import os
import random
import re
import subprocess
import sys
import time
from fractions import Fraction

VERIF = os.path.dirname(os.path.dirname(os.path.abspath(__file__)))
REPO = os.environ.get("VERIF_REPO", "/repo")
LEAN_DIR = os.path.join(VERIF, "lean")
EVIDENCE_DIR = os.path.join(VERIF, "evidence")
REPLAY_DIR = os.path.join(VERIF, "replays")
CORPUS_DIR = os.path.join(VERIF, "corpus")
KNOWN_FINDINGS = os.path.join(VERIF, "known_findings.json")

ALLOWED_AXIOMS = {"propext", "Classical.choice", "Quot.sound"}
BANNED = re.compile(
    r"\bsorry\b|\badmit\b|^\s*axiom\s|native_decide|bv_decide|implemented_by|\bunsafe\s|maxHeartbeats\s+0\b"
)

TRUSTED_BASE = [
    "Lean 4.33.0 kernel; Mathlib v4.33.0 as compiled under /opt/veriftools",
    "axioms propext, Classical.choice, Quot.sound only (audited with #print axioms on every run)",
    "hand-written Lean model lean/FDAModel/** as a description of FDApy (modelled, not verified); tied to /repo by the correspondence check of this run (sampled)",
    "correspondence harness: generators, canonicaliser, tolerances, Lean driver parser/printer",
    "external numerical kernels (LAPACK eig/eigh/cholesky/lstsq/pinv, scipy.optimize, pandas.read_csv, NumPy RNG bit-streams) taken as parameters with the contracts of DESIGN.md §2",
    "IEEE-754 rounding is not modelled: float results are compared with the exact rational model value under a stated tolerance",
]


class InfraError(Exception):
    """Infrastructure failure (exit code 2, never a silent pass)."""


_LOCK_DEPTH = {"n": 0, "fh": None, "shared": None}


@contextlib.contextmanager
def build_lock(shared=False):
    """Serialise what touches lean/.lake across concurrently running checks: translate + `lake build` + audit hold the
    lock exclusively, a driver run (`lake env lean --run`, which reads the compiled files) holds it shared.  Two checks
    share generated modules (C09/C10, C02/C03, C06/C07) and the Core libraries; two `lake build`s compiling the same
    module at once delete each other's temporary files.  Re-entrant within one process."""
    if _LOCK_DEPTH["n"] > 0:
        _LOCK_DEPTH["n"] += 1
        try:
            yield
        finally:
            _LOCK_DEPTH["n"] -= 1
        return
    fh = open(os.path.join(LEAN_DIR, ".build.lock"), "a+")
    fcntl.flock(fh, fcntl.LOCK_SH if shared else fcntl.LOCK_EX)
    _LOCK_DEPTH.update(n=1, fh=fh, shared=shared)
    try:
        yield
    finally:
        _LOCK_DEPTH.update(n=0, fh=None, shared=None)
        fcntl.flock(fh, fcntl.LOCK_UN)
        fh.close()


# messages of `lake build` / `lean` that mean "the build infrastructure failed", not "a proof does not check"
_INFRA_PAT = re.compile(r"no such file or directory|object file '.*' of module .* does not exist|failed to open|resource temporarily unavailable|"
                        r"permission denied|no space left|could not create|error code: 42949672|killed|out of memory|cannot allocate", re.I)



def use_repo():
    """Make `import FDApy` resolve to the working tree under test."""
    if REPO not in sys.path:
        sys.path.insert(0, REPO)
    os.environ.setdefault("OMP_NUM_THREADS", "1")
    os.environ.setdefault("OPENBLAS_NUM_THREADS", "1")
    os.environ.setdefault("MKL_NUM_THREADS", "1")
    os.environ.setdefault("FDAPY_VERIF", "1")


# --------------------------------------------------------------------------
# exact rationals
# --------------------------------------------------------------------------

def F(x) -> Fraction:
    """Exact rational value of an int / float / 'a/b' string / Fraction."""
    if isinstance(x, Fraction):
        return x
    if isinstance(x, str):
        return Fraction(x)
    if isinstance(x, bool):
        return Fraction(int(x))
    if isinstance(x, int):
        return Fraction(x)
    try:
        import numpy as np

        if isinstance(x, np.integer):
            return Fraction(int(x))
        if isinstance(x, np.floating):
            x = float(x)
    except ImportError:  # pragma: no cover
        pass
    if isinstance(x, float):
        if not math.isfinite(x):
            raise ValueError("non-finite float has no rational value")
        return Fraction(x)
    raise TypeError(type(x))


def rs(q) -> str:
    """Protocol form of a rational: `num/den` or `num`."""
    q = F(q)
    return str(q.numerator) if q.denominator == 1 else f"{q.numerator}/{q.denominator}"


def vec(v) -> str:
    v = list(v)
    return "-" if not v else ",".join(rs(x) for x in v)


def natvec(v) -> str:
    v = list(v)
    return "-" if not v else ",".join(str(int(x)) for x in v)


def mat(m) -> str:
    m = list(m)
    return "-" if not m else ";".join(vec(r) for r in m)


def pvec(s: str):
    return [] if s == "-" else [Fraction(t) for t in s.split(",")]


def pmat(s: str):
    return [] if s == "-" else [pvec(r) for r in s.split(";")]


def close(f, q, scale=1.0, rtol=1e-8, atol=1e-300) -> bool:
    """Is the float `f` an acceptable rounding of the exact value `q`?

    `scale` is the size of the terms of the last reduction (so that benign
    cancellation is tolerated and a wrong formula is not)."""
    try:
        f = float(f)
    except (TypeError, ValueError):
        return False
    if not math.isfinite(f):
        return False
    return abs(Fraction(f) - F(q)) <= Fraction(rtol) * F(abs(scale)) + Fraction(atol)


def close_all(fs, qs, scale=None, rtol=1e-8):
    """Vector version; returns the index of the first mismatch or None."""
    fs = list(fs)
    qs = list(qs)
    if len(fs) != len(qs):
        return -1
    if scale is None:
        scale = max([abs(float(q)) for q in qs] + [1.0])
    for i, (f, q) in enumerate(zip(fs, qs)):
        if not close(f, q, scale, rtol):
            return i
    return None


# --------------------------------------------------------------------------
# PRNG: every random choice of a run derives from one seed
# --------------------------------------------------------------------------

class Rng(random.Random):
    def dyadic(self, lo=-8, hi=8, bits=4) -> Fraction:
        """A dyadic rational k/2^bits in [lo, hi] (exactly a float64)."""
        k = self.randint(int(lo * 2**bits), int(hi * 2**bits))
        return Fraction(k, 2**bits)

    def dyadics(self, n, lo=-8, hi=8, bits=4):
        return [self.dyadic(lo, hi, bits) for _ in range(n)]

    def grid(self, m, lo=0, scale=1, uniform=None):
        """Strictly increasing grid with `m` points, all exactly float64.

        uniform: lo + scale*i/2^k (k least with 2^k >= m-1, so the span is
        <= scale); otherwise `m` distinct sorted points of the lattice
        lo + scale*j/2^k, 2^k >= 8m."""
        lo, scale = F(lo), F(scale)
        if uniform is None:
            uniform = self.random() < 0.4
        if uniform:
            k = 0
            while 2**k < max(m - 1, 1):
                k += 1
            return [lo + scale * Fraction(i, 2**k) for i in range(m)]
        k = 0
        while 2**k < 8 * m:
            k += 1
        ints = sorted(self.sample(range(0, 2**k + 1), m))
        return [lo + scale * Fraction(j, 2**k) for j in ints]

    def subseed(self) -> int:
        return self.randint(0, 2**31 - 1)


def _pow2(n: int) -> bool:
    return n > 0 and (n & (n - 1)) == 0


def _is_dyadic(q: Fraction) -> bool:
    return _pow2(q.denominator)


def fl(v):
    """Rationals -> floats (exact for dyadic rationals of moderate size)."""
    if isinstance(v, (list, tuple)):
        return [fl(x) for x in v]
    return float(v)


# --------------------------------------------------------------------------
# Lean side: build, audit, drivers
# --------------------------------------------------------------------------

def _run(cmd, cwd=None, inp=None, timeout=3600):
    t0 = time.time()
    p = subprocess.run(
        cmd, cwd=cwd, input=inp, capture_output=True, text=True, timeout=timeout
    )
    return p.returncode, p.stdout, p.stderr, time.time() - t0


def run_driver(driver: str, lines, timeout=1800):
    """Pipe `lines` through `lake env lean --run <driver>`; one answer per line."""
    lines = list(lines)
    if not lines:
        return []
    inp = "\n".join(lines) + "\n"
    with build_lock(shared=True):
        rc, out, err, _ = _run(
            ["lake", "env", "lean", "--run", driver], cwd=LEAN_DIR, inp=inp, timeout=timeout
        )
    if rc != 0:
        raise InfraError(f"driver {driver} failed rc={rc}: {err[-2000:]} {out[-500:]}")
    outs = [l for l in out.split("\n") if l != ""]
    if len(outs) != len(lines):
        raise InfraError(
            f"driver {driver}: {len(lines)} requests but {len(outs)} answers; tail={outs[-3:]}"
        )
    return outs


def theorem_names(props_file: str):
    """Names of the theorems declared in a Props file (the proof obligations)."""
    src = open(props_file).read()
    src = re.sub(r"/-.*?-/", "", src, flags=re.S)
    src = re.sub(r"--.*", "", src)
    ns = None
    names = []
    stack = []
    for line in src.split("\n"):
        m = re.match(r"\s*namespace\s+(\S+)", line)
        if m:
            stack.append(m.group(1))
            continue
        m = re.match(r"\s*end\s+(\S+)", line)
        if m and stack and stack[-1] == m.group(1):
            stack.pop()
            continue
        m = re.match(r"\s*(?:@\[[^\]]*\]\s*)?(?:private\s+|protected\s+)?(?:theorem|lemma)\s+(\S+)", line)
        if m:
            names.append(".".join(stack + [m.group(1)]))
    return names


def import_closure(modules, extra_files=()):
    """Project-local Lean files reachable through `import` from the given modules / files."""
    seen, todo = set(), []
    for m in modules:
        todo.append(os.path.join(LEAN_DIR, *m.split(".")) + ".lean")
    todo += [os.path.join(LEAN_DIR, f) for f in extra_files]
    while todo:
        p = todo.pop()
        if p in seen or not os.path.exists(p):
            continue
        seen.add(p)
        for m in re.findall(r"^\s*import\s+(\S+)", open(p).read(), flags=re.M):
            if m.split(".")[0] in ("FDAModel", "FDAProofs"):
                todo.append(os.path.join(LEAN_DIR, *m.split(".")) + ".lean")
    return sorted(seen)


def banned_tokens(paths):
    hits = []
    for root in paths:
        walker = [(os.path.dirname(root), [], [os.path.basename(root)])] if os.path.isfile(root) else os.walk(root)
        for dp, _, fs in walker:
            if ".lake" in dp:
                continue
            for f in fs:
                if not f.endswith(".lean"):
                    continue
                p = os.path.join(dp, f)
                src = open(p).read()
                src = re.sub(r"/-.*?-/", lambda m: "\n" * m.group(0).count("\n"), src, flags=re.S)
                for i, line in enumerate(src.split("\n"), 1):
                    code = re.sub(r"--.*", "", line)
                    if BANNED.search(code):
                        hits.append(f"{os.path.relpath(p, VERIF)}:{i}: {line.strip()[:120]}")
    return hits


def prove(prop: str, modules, extra_props_files=(), driver=None):
    """Build the property's Lean modules and audit the axioms of its theorems.

    Returns dict(ok, obligations, discharged, failed, log, wall_s, checker_cmd).
    A failure here is *not* by itself a violation (see run.py)."""
    t0 = time.time()
    res = dict(ok=False, obligations=0, discharged=0, failed=[], log="", theorems=[])
    cmd = ["lake", "build"] + list(modules)
    res["checker_cmd"] = "cd lean && " + " ".join(cmd) + f" && lake env lean Audit/{prop}.lean  # #print axioms of every theorem"
    rc, out, err, _ = _run(cmd, cwd=LEAN_DIR, timeout=3000)
    for attempt in range(2):
        if rc == 0 or not _INFRA_PAT.search(out + err):
            break
        time.sleep(5 * (attempt + 1))          # a build-infrastructure failure (not a proof failure): try again
        rc, out, err, _ = _run(cmd, cwd=LEAN_DIR, timeout=3000)
    if rc != 0 and _INFRA_PAT.search(out + err) and not re.search(r"unsolved goals|type mismatch|unknown identifier|unknown constant|failed to synthesize|linarith failed|omega could not|ring failed|simp made no progress|declaration uses 'sorry'", out + err):
        raise InfraError("lake build failed for a reason that is not a proof failure: " + (out + err)[-1200:])
    res["log"] += out[-4000:] + err[-4000:]
    props_files = [os.path.join(LEAN_DIR, "FDAProofs", "Props", f"{prop}.lean")] + list(extra_props_files)
    names = []
    for pf in props_files:
        if os.path.exists(pf):
            names += theorem_names(pf)
    res["theorems"] = names
    res["obligations"] = len(names)
    if rc != 0:
        res["failed"] = ["lake build failed: " + (out + err)[-1500:]]
        res["wall_s"] = time.time() - t0
        return res
    os.makedirs(os.path.join(LEAN_DIR, "Audit"), exist_ok=True)
    audit = os.path.join(LEAN_DIR, "Audit", f"{prop}.lean")
    with open(audit, "w") as fh:
        for m in modules:
            fh.write(f"import {m}\n")
        for n in names:
            fh.write(f"#print axioms {n}\n")
    rc, out, err, _ = _run(["lake", "env", "lean", f"Audit/{prop}.lean"], cwd=LEAN_DIR, timeout=1200)
    res["log"] += out[-6000:] + err[-2000:]
    ok_names = set()
    text = out.replace("\n  ", " ").replace("\n ", " ")
    for m in re.finditer(r"'([^']+)' depends on axioms: \[([^\]]*)\]", text):
        axs = {a.strip() for a in m.group(2).split(",") if a.strip()}
        if axs <= ALLOWED_AXIOMS:
            ok_names.add(m.group(1))
        else:
            res["failed"].append(f"{m.group(1)} uses axioms {sorted(axs - ALLOWED_AXIOMS)}")
    for m in re.finditer(r"'([^']+)' does not depend on any axioms", text):
        ok_names.add(m.group(1))
    for n in names:
        if n not in ok_names and not any(f.startswith(n + " ") for f in res["failed"]):
            res["failed"].append(f"{n}: no axiom report (missing or failed)")
    if rc != 0:
        res["failed"].append("audit file failed to elaborate: " + (out + err)[-800:])
    # only the sources this property depends on (its modules, their project-local imports, its driver)
    hits = banned_tokens(import_closure(modules, [driver] if driver else []))
    res["sources_audited"] = [os.path.relpath(p, LEAN_DIR) for p in import_closure(modules, [driver] if driver else [])]
    for h in hits:
        res["failed"].append("banned token: " + h)
    res["discharged"] = len([n for n in names if n in ok_names]) if not hits else 0
    res["ok"] = (not res["failed"]) and res["obligations"] > 0 and res["discharged"] == res["obligations"]
    res["wall_s"] = time.time() - t0
    return res


def leanchecker(modules):
    rc, out, err, wall = _run(["lake", "env", "leanchecker"] + list(modules), cwd=LEAN_DIR, timeout=3000)
    return rc == 0, (out + err)[-1500:], wall


# --------------------------------------------------------------------------
# known findings
# --------------------------------------------------------------------------

def load_findings(prop):
    """Open findings of a property: known_findings.json plus known_findings.d/*.json
    (read-only at run time; nothing is ever added here by a check)."""
    out = []
    paths = [KNOWN_FINDINGS]
    d = KNOWN_FINDINGS[:-5] + ".d"
    if os.path.isdir(d):
        paths += [os.path.join(d, f) for f in sorted(os.listdir(d)) if f.endswith(".json")]
    seen = set()
    for p in paths:
        if not os.path.exists(p):
            continue
        data = json.load(open(p))
        for f in data.get("open", []):
            if f.get("property") == prop and f.get("id") not in seen:
                seen.add(f.get("id"))
                out.append(f)
    return out


# --------------------------------------------------------------------------
# misc helpers for spec modules
# --------------------------------------------------------------------------

def err_class(e: BaseException) -> str:
    for c in (TypeError, ValueError, KeyError, IndexError, NotImplementedError, ZeroDivisionError, AttributeError):
        if isinstance(e, c):
            return c.__name__
    return "Other:" + type(e).__name__


def jsonable(x):
    import numpy as np

    if isinstance(x, Fraction):
        return rs(x)
    if isinstance(x, dict):
        return {str(k): jsonable(v) for k, v in x.items()}
    if isinstance(x, (list, tuple)):
        return [jsonable(v) for v in x]
    if isinstance(x, np.ndarray):
        return jsonable(x.tolist())
    if isinstance(x, (np.integer,)):
        return int(x)
    if isinstance(x, (np.floating,)):
        return jsonable(float(x))
    if isinstance(x, float):
        if math.isnan(x):
            return "nan"
        if math.isinf(x):
            return "inf" if x > 0 else "-inf"
        return x
    if isinstance(x, (np.bool_,)):
        return bool(x)
    if isinstance(x, (str, int, bool)) or x is None:
        return x
    return repr(x)


def digest(x) -> str:
    return hashlib.sha1(json.dumps(jsonable(x), sort_keys=True).encode()).hexdigest()[:16]


def poison_heap(nbytes_list=(8 * 64, 8 * 256, 8 * 1024, 8 * 4096), reps=6):
    """Fill and free blocks of typical sizes with NaN so that an
    `np.empty`-style uninitialised result is observable as NaN."""
    import numpy as np

    for nb in nbytes_list:
        blocks = [np.full(nb // 8, np.nan) for _ in range(reps)]
        del blocks


def poison_like(*shapes, reps=8):
    import numpy as np

    for shp in shapes:
        blocks = [np.full(shp, np.nan) for _ in range(reps)]
        del blocks
