"""C19 — simulations are reproducible and have the advertised structure (histories of simulator calls).

Case kinds
  twin    two simulators with one seed driven by the same call sequence over {new, add_noise, sparsify,
          add_noise_and_sparsify}, unrelated draws on the legacy global generator interleaved; every
          generator call is recorded from outside (proxy around `random_state`, wrappers around the
          `np.random` functions) and the global generator is watched through `np.random.get_state()`
          (robust against functions bound as default arguments at import time).  The Lean model predicts,
          per operation, how many draws are made and from which source (draw skeleton).
  labels  cluster labels of `KarhunenLoeve.new(n_obs, n_clusters)` vs the model.
  eig     named eigenvalue sequences (exact model for linear / quadratic / inverse; all six in the oracle).
  kl      Karhunen–Loève data = drawn coefficients times basis (scripted `multivariate_normal`), every
          basis family, 1-D / 2-D / multivariate, non-default `centers` / `clusters_std`.
  fresh   results of the simulation helpers (`_simulate_eigenvalues`, `_initialize_*`) and simulator attributes
          (eigenvalues, labels, data, coefficients) are changed in place by their owner; an identical later call
          / a twin built before must be unaffected (no shared or cached result objects).
  zc      Datasets `zhang_chen` curves = mu + vi + eps from scripted draws (two generator calls per curve).
  bm      Brownian paths (standard / geometric) from scripted draws; non-default `init_point`, `mu`, `sigma`.
  grid    the regular-spacing guard of `Brownian.new`.
"""
from __future__ import annotations

import hashlib
import math
import warnings
from fractions import Fraction

import numpy as np

from common import F, Rng, close, digest, err_class, rs

warnings.simplefilter("ignore")

PROP = "C19"
MODULES = ["FDAProofs.Props.C19"]
DRIVER = "Drivers/C19.lean"
PARALLEL = True
RULE = (
    "seeded structured cases: twin simulators (KarhunenLoeve uni 1-D with fourier/legendre/wiener/bsplines, 2-D, "
    "multivariate, mixed; Brownian standard/geometric/fractional; Datasets), seeds incl. None, call sequences of length "
    "1..6 over {new, add_noise, sparsify, add_noise_and_sparsify}, n_obs 1..30, clusters 1..4, interleaved global draws; "
    "labels for n 0..30 x k 1..5; eigenvalue sequences n 1..12 (+ n<1); scripted-draw structure checks; grids regular / "
    "perturbed; Brownian grids with float64 / int64 / int32 dtype and non-integer start values; a case is non-trivial when at least one generator call was observed or a structure was compared; "
    "distinct by content hash"
)
TRUSTED_EXTRA = [
    "harness/c19.py translate(): syntax-only translation of the named eigenvalue sequences, the cluster split of _make_coef, the eigenvalues stored by "
    "KarhunenLoeve.new and the contraction of BasisFunctionalData.to_grid into lean/FDAModel/Generated/Eigenvalues.lean; C19.generated_* re-prove on every "
    "run that they are the model's definitions; reference translation harness/c19_eigenvalues_reference.lean when a shape is not recognised",
]
PARTIAL = [
    "'successive draws differ' is probabilistic: sampled on the implementation only",
    "bit-reproducibility of NumPy's generators is a parameter (abstract deterministic streams in the model)",
    "eigenvalue sequences exponential / sqrt / wiener (real-valued closed forms) and exp() in geometric paths: oracle only",
    "fractional Brownian motion: reproducibility and draw skeleton (two calls per curve) only — no structural clause in the property",
    "standard-normal scales of Zhang-Chen (1, sqrt 2, sqrt 3; sqrt(0.1 (1 + t))) are received by the scripted source, not modelled",
]


# --------------------------------------------------------------------------
# observation of random sources
# --------------------------------------------------------------------------

def _gstate():
    st = np.random.get_state()
    h = hashlib.sha1(st[1].tobytes())
    h.update(repr(st[2:]).encode())
    return h.hexdigest()[:16]


def _flag(method, kwargs, out):
    if method == "choice" and kwargs.get("p") is not None:
        return int(np.sum(out) < 2)
    return 0


class RecGen:
    """Recording proxy around a numpy Generator (the simulator's own source)."""

    def __init__(self, gen, log):
        self._gen, self._log = gen, log

    def _wrap(self, name):
        fn = getattr(self._gen, name)

        def w(*a, **k):
            out = fn(*a, **k)
            self._log.append(("own", name, _flag(name, k, out)))
            return out

        return w

    def __getattr__(self, name):
        if name in ("normal", "uniform", "choice", "multivariate_normal"):
            return self._wrap(name)
        return getattr(self._gen, name)


class GlobalWatch:
    """Count calls of the legacy global functions (attribute wrappers) while active."""

    NAMES = ("normal", "uniform", "choice", "multivariate_normal")

    def __init__(self, log):
        self.log = log
        self.saved = {}

    def __enter__(self):
        for n in self.NAMES:
            fn = getattr(np.random, n)
            self.saved[n] = fn

            def w(*a, _fn=fn, _n=n, **k):
                out = _fn(*a, **k)
                self.log.append(("global", _n, _flag(_n, k, out)))
                return out

            setattr(np.random, n, w)
        return self

    def __exit__(self, *exc):
        for n, fn in self.saved.items():
            setattr(np.random, n, fn)
        return False


def _bytes_of(d):
    from FDApy.representation.functional_data import DenseFunctionalData, IrregularFunctionalData, MultivariateFunctionalData

    if d is None:
        return b"none"
    if isinstance(d, MultivariateFunctionalData):
        return b"|".join(_bytes_of(c) for c in d.data)
    if isinstance(d, DenseFunctionalData):
        return np.ascontiguousarray(np.asarray(d.values, dtype=float)).tobytes()
    if isinstance(d, IrregularFunctionalData):
        return b";".join(np.ascontiguousarray(np.asarray(d.values[k], dtype=float)).tobytes() for k in d.values.keys())
    return repr(type(d)).encode()


def _dig(sim):
    out = {}
    for a in ("data", "noisy_data", "sparse_data"):
        out[a] = hashlib.sha1(_bytes_of(getattr(sim, a, None))).hexdigest()[:12]
    lab = getattr(sim, "labels", None)
    out["labels"] = None if lab is None else [int(x) for x in lab]
    d = getattr(sim, "data", None)
    def _fin(x):
        return bool(x is not None and all(np.isfinite(np.asarray(c.values, dtype=float)).all() for c in (x.data if hasattr(x, "data") else [x])))

    out["finite"] = _fin(d)
    out["positive"] = bool(d is not None and all((np.asarray(c.values, dtype=float) > 0).all() for c in (d.data if hasattr(d, "data") else [d])))
    out["finite_noisy"] = _fin(getattr(sim, "noisy_data", None)) if getattr(sim, "noisy_data", None) is not None else None
    return out


# --------------------------------------------------------------------------
# simulators
# --------------------------------------------------------------------------

CONSTRUCTOR_PATHS = ["kl", "kl2d", "klmulti", "klmixed", "klobj", "klmobj", "bms", "bmg", "bmf", "ds"]
KL_FAMILIES = ["fourier", "legendre", "wiener", "bsplines"]


def _grid_for(fam, m):
    return np.linspace(-1, 1, m) if fam == "legendre" else np.linspace(0, 1, m)


def _make_sim(spec, seed):
    from FDApy.representation.argvals import DenseArgvals
    from FDApy.simulation.brownian import Brownian
    from FDApy.simulation.datasets import Datasets
    from FDApy.simulation.karhunen import KarhunenLoeve

    k = spec["kind"]
    m = spec["m"]
    if spec.get("fam") == "bsplines" and k in ("kl", "klmulti", "klobj", "klmobj"):
        spec["K"] = 5  # cubic B-splines need at least 4 functions (3 gives NaN basis values: 0 segments)
    if spec.get("fam") == "bsplines" and k in ("klmixed", "kl2d"):
        spec["fam"] = "wiener"  # two cubic B-spline functions give NaN basis values
    # documented keyword options of the constructor, in combination: `is_normalized` (through kwargs_basis),
    # `argvals` given or left to the default grid
    kwb = {"is_normalized": True} if spec.get("norm") else {}
    noargs = bool(spec.get("noargs"))
    if k == "kl":
        fam = spec["fam"]
        return KarhunenLoeve(n_functions=spec["K"], basis_name=fam, argvals=None if noargs else DenseArgvals({"input_dim_0": _grid_for(fam, m)}), random_state=seed, **kwb)
    if k == "kl2d":
        f1, f2 = spec["fam"], spec["fam2"]
        return KarhunenLoeve(n_functions=(2, 2), basis_name=(f1, f2),
                             argvals=None if noargs else DenseArgvals({"input_dim_0": _grid_for(f1, m), "input_dim_1": _grid_for(f2, 3)}), random_state=seed, **kwb)
    if k == "klmulti":
        f1, f2 = spec["fam"], spec["fam2"]
        return KarhunenLoeve(n_functions=[spec["K"], spec["K"]], basis_name=[f1, f2],
                             argvals=None if noargs else [DenseArgvals({"input_dim_0": _grid_for(f1, m)}), DenseArgvals({"input_dim_0": _grid_for(f2, m + 2)})],
                             random_state=seed, **kwb)
    if k == "klmixed":
        f1 = spec["fam"]
        return KarhunenLoeve(n_functions=[(2, 2), 4], basis_name=[("fourier", "fourier"), f1],
                             argvals=None if noargs else [DenseArgvals({"input_dim_0": np.linspace(0, 1, m), "input_dim_1": np.linspace(0, 1, 3)}),
                                                          DenseArgvals({"input_dim_0": _grid_for(f1, m)})], random_state=seed, **kwb)
    if k == "klobj":
        # a user-defined basis OBJECT (`basis_name=None, basis=<Basis>`)
        from FDApy.representation.basis import Basis

        fam = spec["fam"]
        b = Basis(name=fam, n_functions=spec["K"], argvals=DenseArgvals({"input_dim_0": _grid_for(fam, m)}), **kwb)
        return KarhunenLoeve(basis_name=None, basis=b, random_state=seed)
    if k == "klmobj":
        # a user-defined MULTIVARIATE basis object
        from FDApy.representation.basis import MultivariateBasis

        f1, f2 = spec["fam"], spec["fam2"]
        mb = MultivariateBasis(name=[f1, f2], n_functions=[spec["K"], spec["K"]],
                               argvals=[DenseArgvals({"input_dim_0": _grid_for(f1, m)}), DenseArgvals({"input_dim_0": _grid_for(f2, m + 2)})], **kwb)
        return KarhunenLoeve(basis_name=None, basis=mb, random_state=seed)
    if k in ("bms", "bmg", "bmf"):
        return Brownian(name={"bms": "standard", "bmg": "geometric", "bmf": "fractional"}[k], random_state=seed)
    if k == "ds":
        return Datasets(basis_name="zhang_chen", random_state=seed)
    raise ValueError(k)


def _kind_tok(spec):
    return {"kl": "kl", "kl2d": "kl", "klmulti": "kl", "klmixed": "kl", "klobj": "kl", "klmobj": "kl", "bms": "bms", "bmg": "bmg", "bmf": "bmf", "ds": "ds"}[spec["kind"]]


def _n_comp(spec):
    return 2 if spec["kind"] in ("klmulti", "klmixed", "klmobj") else 1


def _all_2d(spec):
    return spec["kind"] == "kl2d"


def _do_call(sim, spec, call):
    op = call["op"]
    if op == "new":
        if spec["kind"].startswith("kl"):
            sim.new(n_obs=call["n_obs"], n_clusters=call["n_clusters"], **({"clusters_std": call["cstd"]} if call.get("cstd") else {}))
        else:
            grid = np.arange(spec["m"]) if spec.get("grid_int") else np.linspace(0, 1, spec["m"])
            if spec.get("grid_var") == "dec":
                grid = grid[::-1].copy()
            elif spec.get("grid_var") == "neg":
                # Zhang-Chen's noise scale is sqrt(0.1 (1 + t)): only t > -1 is legitimate for Datasets
                grid = grid - (0.5 if spec["kind"] == "ds" else 3)
            sim.new(n_obs=call["n_obs"], argvals=grid, **call.get("kw", {}))
    elif op == "noise":
        sim.add_noise(noise_variance=call["var"])
    elif op == "sparse":
        sim.sparsify(percentage=call["p"], epsilon=call["e"])
    else:
        sim.add_noise_and_sparsify(noise_variance=call["var"], percentage=call["p"], epsilon=call["e"])


# --------------------------------------------------------------------------
# generation
# --------------------------------------------------------------------------

def _gen_spec(rng: Rng):
    kind = rng.choice(["kl", "kl", "kl", "kl2d", "klmulti", "klmixed", "klobj", "klmobj", "bms", "bmg", "bmf", "ds", "ds"])
    return dict(kind=kind, fam=rng.choice(KL_FAMILIES), fam2=rng.choice(["fourier", "legendre", "wiener"]),
                K=rng.choice([1, 2, 3, 5]) if kind != "kl" else rng.choice([2, 3, 5]), m=rng.randint(4, 9), grid_int=rng.random() < 0.3,
                grid_var=rng.choice(["inc", "inc", "dec", "neg"]))


def _gen_calls(rng: Rng, spec, n_max):
    calls = []
    have = False
    for _ in range(rng.randint(1, n_max)):
        op = rng.choice(["new", "noise", "sparse", "comb"]) if have or rng.random() < 0.15 else "new"
        if op == "new":
            c = dict(op="new", n_obs=rng.choice([1, 2, 3, 5, 8, 13, 30]), n_clusters=rng.randint(1, 4))
            if spec["kind"] == "bmf":
                c["kw"] = {"hurst": rng.choice([0.5, 0.01, 0.99, 0.25])}
            elif spec["kind"] == "bmg":
                c["kw"] = rng.choice([{}, {"mu": -45.0, "sigma": 0.5}, {"sigma": 9.0}, {"init_point": 1e-6}, {"init_point": 1e6}])
            if spec["kind"].startswith("kl") and rng.random() < 0.3:
                c["cstd"] = rng.choice(["linear", "exponential", "wiener"])
            have = True
        elif op == "noise":
            c = dict(op="noise", var=rng.choice([0.0, 0.25, 1.0, 1e-12, 1e6]))
        elif op == "sparse":
            c = dict(op="sparse", p=rng.choice([0.0, 0.1, 0.5, 0.9, 1.0, 0.001, 0.999]), e=rng.choice([0.0, 0.05, 0.3]))
        else:
            c = dict(op="comb", var=rng.choice([0.0, 1.0]), p=rng.choice([0.0, 0.2, 0.9]), e=rng.choice([0.0, 0.05]))
        c["g_before"] = rng.choice([0, 0, 1, 3])
        c["g_between"] = rng.choice([0, 1, 2, 5])
        calls.append(c)
    return calls


def gen_cases(rng: Rng, tier):
    nt, nl, ne, nk, nb, ng = dict(quick=(140, 60, 40, 60, 50, 30), thorough=(1500, 155, 100, 600, 500, 200))[tier]
    # every way of constructing each simulator x seeding, the same grid every run: basis by name (1-D, 2-D, multivariate,
    # mixed), by object, multivariate basis object, the three Brownian kinds, Datasets; seeds 0, a small one, a large one
    for ci, ckind in enumerate(CONSTRUCTOR_PATHS):
        for si, sd in enumerate((0, 7, 2**31 + 11)):
            spec = _gen_spec(rng)
            spec["kind"] = ckind
            spec["grid_var"] = ("inc", "dec", "neg")[si]
            spec["K"] = 3 if ckind in ("kl", "klobj", "klmulti", "klmobj") else spec["K"]
            calls = [dict(op="new", n_obs=(3, 5, 2)[si], n_clusters=(1, 2, 3)[(ci + si) % 3], g_before=1, g_between=2),
                     dict(op=("noise", "comb", "sparse")[(ci + si) % 3], var=0.5, p=0.5, e=0.1, g_before=0, g_between=1),
                     dict(op="new", n_obs=2, n_clusters=1, g_before=0, g_between=3)]
            yield dict(kind="twin", spec=spec, seed=sd, seed_type="int", gseed=rng.randint(0, 10**6), calls=calls, grid="constructor_paths")
    for _ in range(nt):
        spec = _gen_spec(rng)
        # boundary seeds are drawn explicitly: 0 (falsy), 1, the largest 32-bit value
        seed = rng.choice([None, rng.randint(0, 2**31 - 1), rng.randint(0, 2**31 - 1), rng.randint(0, 50), 0, 0, 1, 2**32 - 1])
        # the first twin gets the seed as an integer-like object of this type, the second as a Python int
        stype = rng.choice(["int", "int", "np.int64", "np.int32", "np.uint32", "np.uint64", "array0d", "np.intp"])
        if seed is None or (stype == "np.int32" and seed >= 2**31):
            stype = "int"
        yield dict(kind="twin", spec=spec, seed=seed, seed_type=stype, gseed=rng.randint(0, 10**6), calls=_gen_calls(rng, spec, 6 if tier == "thorough" else 5))
    pairs = [(n, k) for n in range(0, 31) for k in range(1, 6)]
    if tier == "quick":
        pairs = rng.sample(pairs, nl - 8) + [(7, 3), (2, 4), (0, 1), (1, 1), (30, 4), (3, 3), (4, 3), (29, 4)]
    for n, k in pairs:
        yield dict(kind="labels", n=n, k=k, seed=rng.randint(0, 99), K=rng.choice([1, 2, 4]))
    names = ["linear", "exponential", "quadratic", "inverse", "sqrt", "wiener"]
    for i in range(ne):
        yield dict(kind="eig", name=names[i % 6] if i < ne - 3 else rng.choice(names + ["unknown"]), n=rng.choice([1, 1, 2, 3, 5, 8, 12]) if i % 9 else rng.choice([0, -1]),
                   via_new=i % 2 == 0)
    # option interactions of KarhunenLoeve.__init__ / new, the same grid every run:
    # shape x is_normalized x (clusters, centers, clusters_std as name / array) x argvals given or default
    grid = [(shape, norm, opt, False) for shape in ("kl", "kl2d", "klmulti", "klmixed") for norm in (False, True)
            for opt in ("default", "centers", "cstd_name", "name_centers", "both")]
    grid += [(shape, norm, "name_centers", True) for shape in ("kl", "kl2d", "klmulti", "klmixed") for norm in (False, True)]
    for gi in range(len(grid) + nk):
        if gi < len(grid):
            shape, norm, opt, noargs = grid[gi]
        else:
            shape, norm, noargs = rng.choice(["kl", "kl", "kl2d", "klmulti", "klmixed"]), rng.random() < 0.3, rng.random() < 0.15
            opt = rng.choice(["default", "centers", "cstd_name", "cstd_array", "both", "name_centers"])
        spec = dict(kind=shape, fam=rng.choice(KL_FAMILIES), fam2=rng.choice(["fourier", "legendre", "wiener"]), K=rng.choice([1, 2, 3, 5]) if shape != "kl" else rng.choice([2, 3, 5]), m=rng.randint(3, 8),
                    norm=norm, noargs=noargs)
        n_obs, kc = rng.choice([1, 2, 3, 4, 7]), (rng.randint(1, 4) if gi >= len(grid) or opt == "default" else rng.randint(2, 4))
        if spec["fam"] == "bsplines" and shape in ("kl", "klmulti"):
            spec["K"] = 5
        if spec["fam"] == "bsplines" and shape in ("klmixed", "kl2d"):
            spec["fam"] = "wiener"
        nf = {"kl": spec["K"], "kl2d": 4, "klmulti": spec["K"], "klmixed": 4}[shape]
        c = dict(kind="kl", spec=spec, n_obs=n_obs, n_clusters=kc, opt=opt, seeded=rng.random() < 0.7,
                 post=rng.choice([[], ["sparse"], ["comb"], ["noise", "sparse"], ["comb", "noise"], ["sparse", "comb"]]),
                 Z=[[rs(x) for x in rng.dyadics(nf, -2, 2, 2)] for _ in range(n_obs)])
        if opt in ("centers", "both", "name_centers"):
            c["centers"] = [[rs(x) for x in rng.dyadics(kc, -3, 3, 1)] for _ in range(nf)]
            if kc >= 2:
                c["centers"][0][0], c["centers"][0][1] = "1", "-2"   # the centers differ between clusters
        if opt in ("cstd_name", "name_centers"):
            c["cstd"] = rng.choice(["linear", "quadratic", "inverse", "exponential", "sqrt", "wiener"])
        if opt in ("cstd_array", "both"):
            c["cstd"] = [[rs(rng.choice([Fraction(1, 4), Fraction(1), Fraction(4), Fraction(9, 4)])) for _ in range(kc)] for _ in range(nf)]
        yield c
    # legal-but-unusual sampling grids, the same every run: decreasing order, negative domain, a single step, integer dtype
    bm_grid = [(name, order, t0, m, gd) for name in ("standard", "geometric") for order in ("inc", "dec")
               for (t0, m, gd) in ((Fraction(0), 5, "float64"), (Fraction(-3), 4, "float64"), (Fraction(0), 2, "float64"), (Fraction(0), 6, "int64"))]
    extreme = [dict(mu=-60.0, sigma=1.0), dict(mu=-45.0, sigma=0.5), dict(mu=0.0, sigma=9.0), dict(mu=-40.0, sigma=10.0), dict(mu=30.0, sigma=0.01),
               dict(mu=0.0, sigma=1.0, init="1/1048576"), dict(mu=0.0, sigma=1.0, init="1048576"), dict(mu=-60.0, sigma=9.0, init="1/1024")]
    bm_grid += [("geometric", "inc", Fraction(0), mm, "float64") for mm in (9, 5, 9, 9, 5, 5, 5, 9)]
    n_plain = len(bm_grid) - len(extreme)
    for bi in range(len(bm_grid) + nb):
        if bi < len(bm_grid):
            name, order, t0_, m, gd_ = bm_grid[bi]
        else:
            name, order, t0_, gd_ = rng.choice(["standard", "standard", "geometric"]), rng.choice(["inc", "inc", "dec"]), None, None
            m = rng.choice([2, 3, 5, 9])
        span = rng.choice([Fraction(1), Fraction(4), Fraction(1, 4)])
        n_obs = rng.randint(1, 3)
        c = dict(kind="bm", name=name, m=m, t0=rs(rng.choice([0, -1, 2, -5])), span=rs(span), n_obs=n_obs, seeded=rng.random() < 0.7, order=order,
                 post=rng.choice([[], ["sparse"], ["comb"], ["noise", "sparse"], ["comb", "noise"]]),
                 init=rs(rng.choice([Fraction(0), Fraction(1), Fraction(-3, 2), Fraction(5, 2), Fraction(1, 4)])),
                 default_init=rng.random() < 0.25,
                 gdtype=rng.choice(["float64", "float64", "int64", "int64", "int32"]), istart=rng.choice([0, -3, 10]), istep=rng.choice([1, 2, 5]),
                 Z=[[rs(x) for x in rng.dyadics(m, -3, 3, 3)] for _ in range(n_obs)])
        if t0_ is not None:
            c["t0"], c["gdtype"] = rs(t0_), gd_
        if name == "geometric":
            c["mu"] = float(rng.choice([0.0, 0.5, -1.0]))
            c["sigma"] = float(rng.choice([1.0, 0.5, 2.0]))
            if c["default_init"] is False and F(c["init"]) <= 0 and bi < len(bm_grid):
                c["init"] = "5/2"
            if n_plain <= bi < len(bm_grid):
                # extreme but legal parameter values: strongly negative drift, large volatility, tiny / huge start value
                ex = extreme[bi - n_plain]
                c["mu"], c["sigma"], c["span"], c["extreme"] = ex["mu"], ex["sigma"], "1", True
                if "init" in ex:
                    c["init"], c["default_init"] = ex["init"], False
        yield c
    for _ in range(20 if tier == "quick" else 200):
        m, n_obs = rng.randint(2, 9), rng.randint(1, 4)
        yield dict(kind="zc", m=m, n_obs=n_obs, seeded=rng.random() < 0.7, t0=rs(rng.choice([Fraction(0), Fraction(-1, 2), Fraction(3)])),
                   span=rs(rng.choice([Fraction(1), Fraction(2), Fraction(1, 2)])),
                   Zc=[[rs(x) for x in rng.dyadics(3, -2, 2, 2)] for _ in range(n_obs)],
                   Ze=[[rs(x) for x in rng.dyadics(m, -2, 2, 3)] for _ in range(n_obs)],
                   post=rng.choice([[], ["sparse"], ["comb"]]))
    # results of the simulation helpers / simulator attributes must not be shared with later identical calls
    helpers = [("eig", nm) for nm in ["linear", "exponential", "quadratic", "inverse", "sqrt", "wiener"]] + [("centers", None), ("cstd", "linear"), ("cstd", None), ("sim", "linear"), ("sim", "wiener"), ("sim", None)]
    for hk, nm in helpers if tier == "quick" else helpers * 4:
        yield dict(kind="fresh", helper=hk, name=nm, n=rng.choice([1, 2, 3, 5, 8]), k=rng.randint(1, 3), n_obs=rng.randint(2, 6), seed=rng.randint(0, 99),
                   how=rng.choice(["cumsum", "fill", "negate"]))
    for _ in range(ng):
        m = rng.randint(2, 8)
        h = rng.choice([Fraction(1, 4), Fraction(1, 8), Fraction(1), Fraction(3, 16)])
        # offsets over many decades: years, days since an epoch, unix seconds, 2^20, 2^30
        off = rng.choice([0, -1, 5, 0, 2000, 36000, 2**20, 10**6, 1700000000, 2**30, -(10**5)])
        if off >= 10**3 or off <= -(10**3):
            h = rng.choice([Fraction(1), Fraction(1, 4), Fraction(5), Fraction(1, 8)])
        t = [Fraction(off) + i * h for i in range(m)]
        mode = rng.choice(["regular", "perturbed_big", "perturbed_tiny", "one_off", "perturbed_big", "decreasing"])
        if mode == "decreasing":
            t = t[::-1]
        if mode == "perturbed_big" and m >= 3:
            j = rng.randint(1, m - 1)
            t[j] += h * Fraction(1, rng.choice([4, 64, 1024]))
        elif mode == "perturbed_tiny" and m >= 3:
            j = rng.randint(1, m - 1)
            t[j] += h * Fraction(1, 2**22)  # relative to the step: far below rtol = 1e-5
        elif mode == "one_off" and m >= 3:
            t[-1] += h
        yield dict(kind="grid", t=[rs(x) for x in t], mode=mode, offset=str(off), name=rng.choice(["standard", "geometric", "fractional"]))


def search_cases(rng, tier):
    yield from gen_cases(rng, "quick")


def witness_cases():
    return []


# --------------------------------------------------------------------------
# implementation side
# --------------------------------------------------------------------------

def _run_op(sim, spec, call, seeded):
    """One instrumented operation: returns its record."""
    log = []
    real = sim.random_state
    if real is not None:
        sim.random_state = RecGen(real, log)
    g0 = _gstate()
    exc = None
    try:
        with GlobalWatch(log):
            try:
                _do_call(sim, spec, call)
            except Exception as e:  # noqa: BLE001
                exc = e
    finally:
        if real is not None:
            sim.random_state = real
    g1 = _gstate()
    return dict(status="ok" if exc is None else "error:" + err_class(exc), own=[(m, f) for (s, m, f) in log if s == "own"],
                glob=[(m, f) for (s, m, f) in log if s == "global"], glob_changed=g0 != g1, dig=_dig(sim),
                msg="" if exc is None else str(exc)[:100])


def _impl_twin(case):
    spec, seed = case["spec"], case["seed"]
    np.random.seed(case["gseed"])
    typed = {"int": lambda v: v, "np.int64": np.int64, "np.int32": np.int32, "np.uint32": np.uint32, "np.uint64": np.uint64,
             "np.intp": np.intp, "array0d": lambda v: np.array(v)}[case.get("seed_type", "int")]
    try:
        A = _make_sim(spec, seed if seed is None else typed(seed))
    except Exception as e:  # noqa: BLE001  (a seed type the constructor refuses: nothing to compare)
        return dict(recs=[], gflags=[], seed_rejected=err_class(e) + ": " + str(e)[:80])
    B = _make_sim(spec, seed)
    recs = []
    gflags = []
    for call in case["calls"]:
        for _ in range(call["g_before"]):
            np.random.normal(size=3)
            gflags.append(0)
        ra = _run_op(A, spec, call, seed is not None)
        gflags += [f for (_, f) in ra["glob"]]
        for _ in range(call["g_between"]):
            np.random.uniform(size=2)
            gflags.append(0)
        rb = _run_op(B, spec, call, seed is not None)
        gflags += [f for (_, f) in rb["glob"]]
        ncurves = None
        d = getattr(A, "data", None)
        if d is not None:
            from FDApy.representation.functional_data import MultivariateFunctionalData

            ncurves = [int(c.n_obs) for c in d.data] if isinstance(d, MultivariateFunctionalData) else [int(d.n_obs)]
        recs.append(dict(a=ra, b=rb, ncurves=ncurves))
    return dict(recs=recs, gflags=gflags)


def _impl_labels(case):
    from FDApy.representation.argvals import DenseArgvals
    from FDApy.simulation.karhunen import KarhunenLoeve

    sim = KarhunenLoeve(n_functions=case["K"], basis_name="fourier", argvals=DenseArgvals({"input_dim_0": np.linspace(0, 1, 5)}), random_state=case["seed"])
    try:
        sim.new(n_obs=case["n"], n_clusters=case["k"])
    except Exception as e:  # noqa: BLE001
        return dict(status="error:" + err_class(e), msg=str(e)[:100])
    return dict(status="ok", labels=[int(x) for x in sim.labels], n_data=int(sim.data.n_obs))


def _impl_eig(case):
    from FDApy.representation.argvals import DenseArgvals
    from FDApy.simulation.karhunen import KarhunenLoeve, _simulate_eigenvalues

    out = {}
    try:
        out["direct"] = [float(x) for x in _simulate_eigenvalues(case["name"], case["n"])]
        out["status"] = "ok"
    except Exception as e:  # noqa: BLE001
        out["status"] = "error:" + err_class(e)
    if case["via_new"] and case["n"] >= 1 and out["status"] == "ok":
        sim = KarhunenLoeve(n_functions=case["n"], basis_name="fourier", argvals=DenseArgvals({"input_dim_0": np.linspace(0, 1, 2 * case["n"] + 3)}), random_state=1)
        sim.new(n_obs=2, n_clusters=2, clusters_std=case["name"])
        out["via_new"] = [float(x) for x in sim.eigenvalues]
    return out


def _post_ops(sim, case, seed):
    """Operations run after the scripted `new` (genuine generator): the structure of `data` is
    read afterwards, so it must survive them."""
    ran = []
    g_changed = False
    if case.get("post"):
        sim.random_state = None if seed is None else np.random.default_rng(seed)
        g0 = _gstate()
        for op in case["post"]:
            try:
                if op == "noise":
                    sim.add_noise(noise_variance=0.5)
                elif op == "sparse":
                    sim.sparsify(percentage=0.5, epsilon=0.2)
                else:
                    sim.add_noise_and_sparsify(noise_variance=0.5, percentage=0.6, epsilon=0.1)
                ran.append(op + ":ok")
            except Exception as e:  # noqa: BLE001
                ran.append(op + ":" + err_class(e))
        g_changed = seed is not None and g0 != _gstate()
    return dict(ran=ran, glob_changed=g_changed)


class _ScriptMVN:
    """Scripted `multivariate_normal(mean, cov, size)`: mean + sqrt(diag(cov)) * next rows of Z."""

    def __init__(self, Z):
        self.Z = np.array([[float(F(x)) for x in r] for r in Z], dtype=float).reshape(len(Z), -1)
        self.pos = 0
        self.calls = []

    def multivariate_normal(self, mean=None, cov=None, size=None):
        size = int(size)
        z = self.Z[self.pos:self.pos + size]
        if z.shape[0] != size:
            raise RuntimeError("script: not enough coefficient rows")
        self.pos += size
        out = np.asarray(mean, dtype=float)[None, :] + np.sqrt(np.diag(np.asarray(cov, dtype=float)))[None, :] * z
        self.calls.append(dict(mean=np.asarray(mean, dtype=float).tolist(), cov=np.asarray(cov, dtype=float).tolist(), size=size, out=out.tolist()))
        return out


def _impl_kl(case):
    from FDApy.representation.functional_data import MultivariateFunctionalData

    spec = case["spec"]
    sim = _make_sim(spec, 3 if case["seeded"] else None)
    stub = _ScriptMVN(case["Z"])
    kw = {}
    if "centers" in case:
        kw["centers"] = np.array([[float(F(x)) for x in r] for r in case["centers"]])
    if "cstd" in case:
        kw["clusters_std"] = case["cstd"] if isinstance(case["cstd"], str) else np.array([[float(F(x)) for x in r] for r in case["cstd"]])
    saved = None
    g0 = _gstate()
    try:
        if case["seeded"]:
            sim.random_state = stub
        else:
            saved = np.random.multivariate_normal
            np.random.multivariate_normal = stub.multivariate_normal
        try:
            sim.new(n_obs=case["n_obs"], n_clusters=case["n_clusters"], **kw)
        except Exception as e:  # noqa: BLE001
            return dict(status="error:" + err_class(e), msg=str(e)[:120])
    finally:
        if saved is not None:
            np.random.multivariate_normal = saved
    post = _post_ops(sim, case, 3 if case["seeded"] else None)
    multi = isinstance(sim.data, MultivariateFunctionalData)
    comps = list(sim.data.data) if multi else [sim.data]
    bcomps = list(sim.data_basis.data) if multi else [sim.data_basis]
    from FDApy.simulation.karhunen import _simulate_eigenvalues

    nfeat = len(case["Z"][0])
    if isinstance(case.get("cstd"), str):
        eig_want = [float(x) for x in _simulate_eigenvalues(case["cstd"], nfeat)]
    elif "cstd" in case:
        eig_want = [float(F(r[0])) for r in case["cstd"]]
    else:
        eig_want = [1.0] * nfeat
    out = dict(status="ok", calls=stub.calls, labels=[int(x) for x in sim.labels], glob_changed=post["glob_changed"] if post["ran"] else g0 != _gstate(), post=post["ran"],
               eig_want=eig_want, eigenvalues=[float(x) for x in np.asarray(sim.eigenvalues).ravel()], comps=[])
    for c, b in zip(comps, bcomps):
        vals = np.asarray(c.values, dtype=float)
        basis = np.asarray(b.basis.values, dtype=float)
        out["comps"].append(dict(coef=np.asarray(b.coefficients, dtype=float).tolist(), basis=basis.reshape(basis.shape[0], -1).tolist(),
                                 data=vals.reshape(vals.shape[0], -1).tolist(), shape=list(vals.shape[1:])))
    return out


class _ScriptNormal:
    def __init__(self, Z):
        self.Z = [[float(F(x)) for x in r] for r in Z]
        self.i, self.j = 0, 0
        self.calls = []

    def normal(self, loc=0.0, scale=1.0, size=None):
        if size is None:
            z = self.Z[self.i][self.j]
            self.j += 1
            out = loc + scale * z
        else:
            n = int(size)
            z = np.array(self.Z[self.i][self.j:self.j + n])
            if z.size != n:
                raise RuntimeError("script: not enough draws")
            self.j += n
            out = loc + scale * z
        self.calls.append((self.i, size))
        return out

    def next_curve(self):
        self.i += 1
        self.j = 0


def _impl_bm(case):
    from FDApy.simulation.brownian import Brownian
    import FDApy.simulation.brownian as BR

    name, m = case["name"], case["m"]
    t0, span = float(F(case["t0"])), float(F(case["span"]))
    gd = case.get("gdtype", "float64")
    if gd == "float64":
        t = t0 + span * np.arange(m) / max(m - 1, 1)
    else:
        # a regular grid given with an integer dtype (np.arange(start, stop, step))
        t = (int(case["istart"]) + int(case["istep"]) * np.arange(m)).astype(gd)
    if case.get("order") == "dec":
        t = t[::-1].copy()      # a regular grid listed in decreasing order is accepted by the unchanged tree
    sim = Brownian(name=name, random_state=5 if case["seeded"] else None)
    stub = _ScriptNormal(case["Z"])
    kw = {}
    if not case["default_init"]:
        kw["init_point"] = float(F(case["init"]))
    if name == "geometric":
        kw["mu"], kw["sigma"] = case["mu"], case["sigma"]
    # one scripted row per curve: advance the script whenever a new curve starts
    orig = BR._simulate_brownian

    def per_curve(*a, **k):
        r = orig(*a, **k)
        stub.next_curve()
        return r

    saved = None
    BR._simulate_brownian = per_curve
    g0 = _gstate()
    try:
        if case["seeded"]:
            sim.random_state = stub
        else:
            saved = np.random.normal
            np.random.normal = stub.normal
        try:
            sim.new(n_obs=case["n_obs"], argvals=t, **kw)
        except Exception as e:  # noqa: BLE001
            return dict(status="error:" + err_class(e), msg=str(e)[:120])
    finally:
        BR._simulate_brownian = orig
        if saved is not None:
            np.random.normal = saved
    post = _post_ops(sim, case, 5 if case["seeded"] else None)
    delta = (np.max(t) - np.min(t)) / np.size(t)
    out = dict(status="ok", post=post["ran"], values=np.asarray(sim.data.values, dtype=float).tolist(), sd=float(np.sqrt(delta)), delta=float(delta),
               n_calls=len(stub.calls), glob_changed=post["glob_changed"] if post["ran"] else g0 != _gstate(), grid_same=bool(np.array_equal(sim.data.argvals["input_dim_0"], t)))
    if name == "geometric":
        init = kw.get("init_point", 1.0)
        const = case["mu"] - case["sigma"] ** 2 / 2
        fac = []
        for row in case["Z"]:
            z = np.sqrt(delta) * np.array([float(F(x)) for x in row])
            fac.append(np.exp(const * delta + case["sigma"] * z).tolist())
        out["factors"] = fac
        out["init"] = init
    return out


class _ScriptZC:
    """Scripted `normal(loc, scale)` for `_zhang_chen`: per curve first the three coefficients, then the noise."""

    def __init__(self, Zc, Ze):
        self.Zc = [[float(F(x)) for x in r] for r in Zc]
        self.Ze = [[float(F(x)) for x in r] for r in Ze]
        self.k = 0
        self.calls = []

    def normal(self, loc=0.0, scale=1.0, size=None):
        i, second = divmod(self.k, 2)
        self.k += 1
        z = np.array(self.Ze[i] if second else self.Zc[i])
        sc = np.asarray(scale, dtype=float)
        if sc.shape != z.shape:
            raise RuntimeError(f"script: scale of shape {sc.shape} for draw {self.k - 1}")
        out = loc + sc * z
        self.calls.append(out.tolist())
        return out


def _impl_zc(case):
    from FDApy.simulation.datasets import Datasets

    m = case["m"]
    t = float(F(case["t0"])) + float(F(case["span"])) * np.arange(m) / max(m - 1, 1)
    sim = Datasets(basis_name="zhang_chen", random_state=9 if case["seeded"] else None)
    stub = _ScriptZC(case["Zc"], case["Ze"])
    saved = None
    g0 = _gstate()
    try:
        if case["seeded"]:
            sim.random_state = stub
        else:
            saved = np.random.normal
            np.random.normal = stub.normal
        try:
            sim.new(n_obs=case["n_obs"], argvals=t)
        except Exception as e:  # noqa: BLE001
            return dict(status="error:" + err_class(e), msg=str(e)[:120])
    finally:
        if saved is not None:
            np.random.normal = saved
    glob_changed = case["seeded"] and g0 != _gstate()
    post = _post_ops(sim, case, 9 if case["seeded"] else None)
    return dict(status="ok", values=np.asarray(sim.data.values, dtype=float).tolist(), calls=stub.calls, cos=np.cos(2 * np.pi * t).tolist(),
                sin=np.sin(2 * np.pi * t).tolist(), glob_changed=bool(glob_changed or post["glob_changed"]), post=post["ran"],
                grid_same=bool(np.array_equal(sim.data.argvals["input_dim_0"], t)))


def _spoil(a, how):
    """change an array in place, as a caller owning it may do"""
    a = np.asarray(a)
    if a.size == 0 or not a.flags.writeable:
        return
    if how == "cumsum" and a.ndim == 1 and a.dtype.kind == "f":
        np.cumsum(a, out=a)
        a += 1.0
    elif how == "negate":
        np.negative(a, out=a) if a.dtype.kind in "fi" else None
        a -= 7
    else:
        a.fill(-5)


def _impl_fresh(case):
    """call; keep a copy; let the caller change the first result in place; call again: the second result
    must be what the first was, and share no memory with it"""
    from FDApy.representation.argvals import DenseArgvals
    from FDApy.simulation import karhunen as K

    hk, nm, n, k = case["helper"], case["name"], case["n"], case["k"]
    out = dict(status="ok", items=[])

    def item(label, first, second):
        f0 = np.array(first, copy=True)
        shares = bool(np.shares_memory(np.asarray(first), np.asarray(second))) if np.asarray(first).size else False
        _spoil(first, case["how"])
        return label, f0, shares

    if hk in ("eig", "centers", "cstd"):
        fn = {"eig": lambda: K._simulate_eigenvalues(nm, n), "centers": lambda: K._initialize_centers(n, k, None),
              "cstd": lambda: K._initialize_clusters_std(n, k, nm)}[hk]
        r1 = fn()
        r2 = fn()
        label, f0, shares = item(hk, r1, r2)
        r3 = fn()
        out["items"].append(dict(label=label, shares=shares, first=f0.tolist(), third=np.asarray(r3).tolist()))
        return out
    # simulator attributes: twins; the first twin's results are changed in place before the second is used
    def mk():
        s_ = K.KarhunenLoeve(n_functions=max(n, 2), basis_name="fourier", argvals=DenseArgvals({"input_dim_0": np.linspace(0, 1, 7)}), random_state=case["seed"])
        s_.new(n_obs=case["n_obs"], n_clusters=k, **({"clusters_std": nm} if nm else {}))
        return s_

    a = mk()
    snap = dict(eigenvalues=np.array(a.eigenvalues, copy=True), labels=np.array(a.labels, copy=True), data=np.array(a.data.values, copy=True),
                coefficients=np.array(a.data_basis.coefficients, copy=True), basis=np.array(a.basis.values, copy=True))
    b = mk()
    objs_a = dict(eigenvalues=a.eigenvalues, labels=a.labels, data=a.data.values, coefficients=a.data_basis.coefficients, basis=a.basis.values)
    objs_b = dict(eigenvalues=b.eigenvalues, labels=b.labels, data=b.data.values, coefficients=b.data_basis.coefficients, basis=b.basis.values)
    shares = {key: bool(np.shares_memory(np.asarray(objs_a[key]), np.asarray(objs_b[key]))) for key in objs_a}
    for key in ("eigenvalues", "labels", "data", "coefficients"):
        _spoil(objs_a[key], case["how"])
    c = mk()
    objs_c = dict(eigenvalues=c.eigenvalues, labels=c.labels, data=c.data.values, coefficients=c.data_basis.coefficients, basis=c.basis.values)
    for key in objs_a:
        out["items"].append(dict(label="simulator." + key, shares=shares[key], first=snap[key].tolist(), third=np.asarray(objs_c[key]).tolist(),
                                 second=np.asarray(objs_b[key]).tolist()))
    return out


def _impl_grid(case):
    from FDApy.simulation.brownian import Brownian

    t = np.array([float(F(x)) for x in case["t"]])
    sim = Brownian(name=case["name"], random_state=1)
    try:
        sim.new(n_obs=1, argvals=t)
    except Exception as e:  # noqa: BLE001
        return dict(status="error:" + err_class(e), msg=str(e)[:100])
    return dict(status="ok")


def run_impl(case):
    return {"twin": _impl_twin, "labels": _impl_labels, "eig": _impl_eig, "kl": _impl_kl, "bm": _impl_bm, "grid": _impl_grid, "zc": _impl_zc, "fresh": _impl_fresh}[case["kind"]](case)


# --------------------------------------------------------------------------
# model side
# --------------------------------------------------------------------------

def _op_tok(spec, call, rec, twin):
    """Model event of one operation of one twin (None when the operation made no modelled draws)."""
    k = _kind_tok(spec)
    r = rec[twin]
    st = r["status"]
    nc = rec["ncurves"]
    if call["op"] == "new":
        if st != "ok":
            return None
        return f"new-{call['n_obs']}-{call['n_clusters']}-{spec['m']}"
    if nc is None:
        return None
    if call["op"] == "noise":
        return f"noise-{len(nc)}" if st == "ok" else None
    cs = ".".join(str(x) for x in nc)
    if call["op"] == "sparse":
        return f"sparse-{cs}" if st == "ok" else None
    if st == "ok":
        return f"comb-{cs}"
    return f"noise-{len(nc)}"  # the noise half ran, the sparsification was rejected (2-D)


def model_lines(case, impl):
    if "__crash__" in impl:
        return []
    kind = case["kind"]
    J = ",".join
    if kind == "twin":
        spec = case["spec"]
        seeded = case["seed"] is not None
        evs = []
        oflags = []
        for call, rec in zip(case["calls"], impl["recs"]):
            if call["g_before"]:
                evs.append(f"g{call['g_before']}")
            ta = _op_tok(spec, call, rec, "a")
            if ta:
                evs.append(f"o0:{_kind_tok(spec)}:{ta}")
            if call["g_between"]:
                evs.append(f"g{call['g_between']}")
            tb = _op_tok(spec, call, rec, "b")
            if tb:
                evs.append(f"o1:{_kind_tok(spec)}:{tb}")
            oflags += [f for (_, f) in rec["a"]["own"]]
        of = "".join(str(f) for f in oflags) or "-"
        gf = "".join(str(f) for f in impl["gflags"]) or "-"
        return [f"trace {1 if seeded else 0} {case.get('before', 0)} {of} {gf} " + " ".join(evs)]
    if kind == "labels":
        return [f"labels {case['n']} {case['k']}"]
    if kind == "eig":
        return [f"eig {case['name']} {case['n']}"] if case["n"] >= 0 else []
    if kind == "kl":
        if impl.get("status") != "ok":
            return []
        lines = []
        for c in impl["comps"]:
            coef = ";".join(J(rs(F(x)) for x in r) for r in c["coef"])
            basis = ";".join(J(rs(F(x)) for x in r) for r in c["basis"])
            lines.append(f"kl {coef} {basis} {len(c['basis'][0])}")
        return lines
    if kind == "bm":
        if impl.get("status") != "ok":
            return []
        lines = []
        for i, row in enumerate(case["Z"]):
            if case["name"] == "standard":
                init = "0" if case["default_init"] else case["init"]
                lines.append(f"bm {init} {rs(F(impl['sd']))} {J(row[: case['m'] - 1]) if case['m'] > 1 else '-'}")
            else:
                lines.append(f"geom {rs(F(impl['init']))} {J(rs(F(x)) for x in impl['factors'][i])}")
        return lines
    if kind == "grid":
        return [f"grid {J(case['t'])}"]
    if kind == "fresh":
        # the named sequence returned AFTER the caller changed an earlier result must still be the model's
        if case["helper"] == "eig" and case["name"] in ("linear", "quadratic", "inverse"):
            return [f"eig {case['name']} {case['n']}"]
        return []
    if kind == "zc":
        if impl.get("status") != "ok" or len(impl["calls"]) != 2 * case["n_obs"]:
            return []
        R = lambda v: J(rs(F(x)) for x in v)  # noqa: E731
        return [f"zc {R(impl['cos'])} {R(impl['sin'])} {rs(F(impl['calls'][2*i][0]))} {rs(F(impl['calls'][2*i][1]))} {rs(F(impl['calls'][2*i][2]))} {R(impl['calls'][2*i+1])}"
                for i in range(case["n_obs"])]
    return []


def parse_model(case, outs):
    return dict(outs=outs)


def _seg_counts(seg):
    a, ds = seg.split(":")
    ds = [] if ds == "-" else ds.split(",")
    return int(a), sum(1 for d in ds if d.startswith("o")), sum(1 for d in ds if d.startswith("g"))


def _pvec(s):
    return [] if s == "-" else [Fraction(x) for x in s.split(",")]


def _pmat(s):
    return [] if s == "-" else [_pvec(r) for r in s.split(";")]


def compare(case, impl, model):
    if "__crash__" in impl:
        return [f"implementation harness crashed: {impl['__crash__']} {impl.get('msg')} {impl.get('tb', '')[-300:]}"]
    kind = case["kind"]
    outs = model["outs"]
    ds = []
    if outs and outs[0].startswith("bad"):
        return [f"model rejected the request: {outs[0]}"]
    if kind == "twin":
        segs = outs[0].split(" ")
        ops = [s for s in segs if not s.startswith("end:")]
        spec = case["spec"]
        k = 0
        for ci, (call, rec) in enumerate(zip(case["calls"], impl["recs"])):
            for twin, sid in (("a", 0), ("b", 1)):
                if _op_tok(spec, call, rec, twin) is None:
                    r = rec[twin]
                    if r["own"] or r["glob"] or r["glob_changed"]:
                        if not (call["op"] == "comb" and r["status"] != "ok"):
                            ds.append(f"call {ci} ({call['op']}) twin {twin}: failed ({r['status']}) but made draws own={len(r['own'])} global={len(r['glob'])}")
                    continue
                if k >= len(ops):
                    ds.append("model answered fewer operations than were run")
                    break
                a, no, ng = _seg_counts(ops[k])
                k += 1
                r = rec[twin]
                if a != sid:
                    ds.append(f"call {ci}: model event of simulator {a}, expected {sid}")
                if no != len(r["own"]):
                    ds.append(f"call {ci} ({call['op']}) twin {twin}: {len(r['own'])} draws on the simulator's own generator, draw skeleton says {no}")
                if (ng > 0) != r["glob_changed"]:
                    ds.append(f"call {ci} ({call['op']}) twin {twin}: global generator {'changed' if r['glob_changed'] else 'untouched'}, draw skeleton says {ng} global draws")
                if r["glob"] and ng != len(r["glob"]):
                    ds.append(f"call {ci} ({call['op']}) twin {twin}: {len(r['glob'])} calls of np.random functions, draw skeleton says {ng}")
        return ds[:6]
    if kind == "labels":
        if impl["status"] != "ok":
            return [] if outs[0].startswith("error") else [f"implementation raised {impl['status']} ({impl.get('msg')}), model gives {outs[0]}"]
        want = [] if outs[0] == "-" else [int(x) for x in outs[0].split(",")]
        if impl["labels"] != want:
            ds.append(f"labels {impl['labels']} vs model {want}")
        return ds
    if kind == "eig":
        o = outs[0]
        if o == "unmodelled":
            return []
        if o.startswith("error"):
            return [] if impl["status"].startswith("error") else [f"model rejects n={case['n']}, implementation returned {impl.get('direct')}"]
        if impl["status"] != "ok":
            return [f"implementation raised {impl['status']}, model gives {o}"]
        q = _pvec(o)
        for key in ("direct", "via_new"):
            if key in impl:
                if len(impl[key]) != len(q) or any(not close(f, x, 1.0, 1e-12) for f, x in zip(impl[key], q)):
                    ds.append(f"{key} eigenvalues {impl[key]} vs exact {[float(x) for x in q]}")
        return ds
    if kind == "kl":
        if impl["status"] != "ok":
            return [f"implementation raised {impl['status']}: {impl.get('msg')}"]
        for ci, (c, o) in enumerate(zip(impl["comps"], outs)):
            dm, sm = o.split(" ")
            Q, S = _pmat(dm), _pmat(sm)
            if len(Q) != len(c["data"]):
                ds.append(f"component {ci}: {len(c['data'])} curves vs model {len(Q)}")
                continue
            for i, (fr, qr, sr) in enumerate(zip(c["data"], Q, S)):
                if len(fr) != len(qr):
                    ds.append(f"component {ci} curve {i}: {len(fr)} values vs model {len(qr)}")
                    break
                bad = [j for j, (f, q, s) in enumerate(zip(fr, qr, sr)) if not close(f, q, max(s, Fraction(1, 10**300)), 1e-9)]
                if bad:
                    ds.append(f"component {ci} curve {i} point {bad[0]}: data {fr[bad[0]]!r} vs coef·basis {float(qr[bad[0]])!r}")
                    break
        return ds[:4]
    if kind == "bm":
        if impl["status"] != "ok":
            return [f"implementation raised {impl['status']}: {impl.get('msg')}"]
        for i, o in enumerate(outs):
            q = _pvec(o)
            f = impl["values"][i]
            if len(q) != len(f):
                ds.append(f"curve {i}: {len(f)} values vs model {len(q)}")
                continue
            sc = max([abs(float(x)) for x in q] + [1.0])
            bad = [j for j, (a, b) in enumerate(zip(f, q)) if not close(a, b, sc, 1e-9)]
            if bad:
                ds.append(f"curve {i} point {bad[0]}: path {f[bad[0]]!r} vs model {float(q[bad[0]])!r}")
        return ds[:4]
    if kind == "fresh":
        q = _pvec(outs[0])
        third = impl["items"][0]["third"]
        if len(third) != len(q) or any(not close(f, x, 1.0, 1e-12) for f, x in zip(third, q)):
            ds.append(f"{case['name']} eigenvalues returned after an earlier result was changed in place: {third} vs exact {[float(x) for x in q]}")
        return ds
    if kind == "zc":
        if impl["status"] != "ok":
            return [f"implementation raised {impl['status']}: {impl.get('msg')}"]
        for i, o in enumerate(outs):
            q = _pvec(o)
            f = impl["values"][i]
            sc = max([abs(float(x)) for x in q] + [10.0])
            bad = [j for j, (a, b) in enumerate(zip(f, q)) if not close(a, b, sc, 1e-9)] if len(f) == len(q) else [-1]
            if bad:
                ds.append(f"curve {i} sample {bad[0]}: data {f[bad[0]] if bad[0] >= 0 else len(f)!r} vs mu + vi + eps = {float(q[bad[0]]) if bad[0] >= 0 else len(q)!r}")
        return ds[:4]
    if kind == "grid":
        want = outs[0]
        got = "ok" if impl["status"] == "ok" else impl["status"]
        if want != got:
            ds.append(f"grid {case['mode']}: implementation {got} ({impl.get('msg', '')}), model {want}")
        return ds
    return ds


# --------------------------------------------------------------------------
# the property's own predicate on the implementation
# --------------------------------------------------------------------------

def oracle(case, impl):
    if "__crash__" in impl:
        return [dict(clause="runs", entry=case["kind"], msg=f"harness crash {impl['__crash__']}: {impl.get('msg')} {impl.get('tb', '')[-300:]}")]
    kind = case["kind"]
    vs = []

    def bad(clause, entry, msg, causes=()):
        vs.append(dict(clause=clause, entry=entry, msg=msg, causes=list(causes)))

    if kind == "twin":
        spec = case["spec"]
        seeded = case["seed"] is not None
        cls = {"kl": "KarhunenLoeve", "kl2d": "KarhunenLoeve", "klmulti": "KarhunenLoeve", "klmixed": "KarhunenLoeve", "klobj": "KarhunenLoeve", "klmobj": "KarhunenLoeve", "bms": "Brownian", "bmg": "Brownian",
               "bmf": "Brownian", "ds": "Datasets"}[spec["kind"]]
        meth = {"new": "new", "noise": "add_noise", "sparse": "sparsify", "comb": "add_noise_and_sparsify"}
        prev_new = None
        prev_dig = {}
        for ci, (call, rec) in enumerate(zip(case["calls"], impl["recs"])):
            entry = f"{cls}.{meth[call['op']]}"
            a, b = rec["a"], rec["b"]
            if seeded:
                if a["status"] != b["status"]:
                    bad("twins_agree", entry, f"call {ci}: twin outcomes differ: {a['status']} vs {b['status']}")
                for key in ("data", "noisy_data", "sparse_data", "labels"):
                    if a["dig"][key] != b["dig"][key]:
                        how = "" if case.get("seed_type", "int") == "int" else f" (the first one was given the seed as {case['seed_type']})"
                        bad("twins_agree", entry, f"call {ci} ({call['op']}): `{key}` of two simulators built with seed {case['seed']}{how} and driven by the same calls differ",
                            ["global_generator_used"] if (a["glob_changed"] or b["glob_changed"]) else [])
                        break
                for r, nm in ((a, "first"), (b, "second")):
                    if r["glob_changed"]:
                        bad("global_untouched", entry, f"call {ci} ({call['op']}): the seeded {nm} simulator advanced the legacy global generator", ["global_generator_used"])
                        break
            # the structure advertised for `data` (and for the noisy curves) must survive the later operations:
            # only `new` may change `data`, only the noise operations may change `noisy_data`
            for r, nm in ((a, "first"), (b, "second")):
                prev = prev_dig.get(nm)
                if prev is not None:
                    if call["op"] != "new" and r["dig"]["data"] != prev["data"]:
                        bad("structure_after_operations", entry, f"call {ci} ({call['op']}): the simulated `data` of the {nm} simulator changed "
                            f"(finite before: {prev.get('finite')}, after: {r['dig'].get('finite')}) — they are no longer what `new` built", ["data_changed_by_later_op"])
                    if call["op"] in ("new", "sparse") and r["dig"]["noisy_data"] != prev["noisy_data"]:
                        bad("structure_after_operations", entry, f"call {ci} ({call['op']}): `noisy_data` of the {nm} simulator changed", ["data_changed_by_later_op"])
                if call["op"] in ("noise", "comb") and r["dig"].get("finite") and r["dig"].get("finite_noisy") is False:
                    bad("structure_after_operations", entry, f"call {ci} ({call['op']}): noisy curves of finite data contain NaN", ["data_changed_by_later_op"])
                prev_dig[nm] = r["dig"]
            if call["op"] == "new" and a["status"] == "ok" and spec["kind"] == "bmg" and a["dig"].get("positive") is False:
                bad("geometric_positive", entry, f"call {ci}: a geometric path is not strictly positive (parameters {call.get('kw', {})})", ["extreme_parameters"])
            if call["op"] == "new" and a["status"] == "ok" and spec["kind"] in ("bms", "bmg", "bmf", "ds") and a["dig"].get("finite") is False:
                bad("brownian_finite", entry, f"call {ci}: the simulated paths are not finite (grid: {spec.get('grid_var', 'inc')}{', integer' if spec.get('grid_int') else ''})", ["unusual_grid"])
            if call["op"] == "new" and a["status"] == "ok":
                if prev_new is not None and prev_new == a["dig"]["data"] and call["n_obs"] > 0 and a["dig"].get("finite"):
                    bad("successive_differ", entry, f"call {ci}: two successive draws of one simulator are identical")
                prev_new = a["dig"]["data"]
        return vs
    if kind == "labels":
        n, k = case["n"], case["k"]
        if impl["status"] != "ok":
            if n >= 1:
                bad("labels", "KarhunenLoeve.new", f"n_obs={n}, n_clusters={k}: raised {impl['status']} {impl.get('msg')}")
            return vs
        lab = impl["labels"]
        if len(lab) != n or impl["n_data"] != n:
            bad("labels", "KarhunenLoeve.new", f"{len(lab)} labels / {impl['n_data']} curves for n_obs={n}")
        if any(x > y for x, y in zip(lab, lab[1:])):
            bad("labels", "KarhunenLoeve.new", f"labels not in order: {lab}")
        sizes = [lab.count(g) for g in range(k)]
        want = [n // k + (1 if g < n % k else 0) for g in range(k)]
        if sizes != want or any(not (0 <= x < k) for x in lab):
            bad("labels", "KarhunenLoeve.new", f"group sizes {sizes} for n={n}, k={k}; near-equal split is {want}")
        return vs
    if kind == "eig":
        if case["n"] < 1:
            if impl["status"] == "ok":
                bad("eigenvalues", "_simulate_eigenvalues", f"n={case['n']} accepted")
            return vs
        if case["name"] == "unknown":
            if impl["status"] == "ok":
                bad("eigenvalues", "_simulate_eigenvalues", "unknown name accepted")
            return vs
        if impl["status"] != "ok":
            bad("eigenvalues", "_simulate_eigenvalues", f"{case['name']}, n={case['n']}: raised {impl['status']}")
            return vs
        for key in ("direct", "via_new"):
            if key not in impl:
                continue
            ev = impl[key]
            if len(ev) != case["n"] or any(not (x > 0) for x in ev) or any(y > x for x, y in zip(ev, ev[1:])):
                bad("eigenvalues", "_simulate_eigenvalues" if key == "direct" else "KarhunenLoeve.new", f"{case['name']} n={case['n']}: {ev} is not a positive non-increasing sequence of length n")
        if "via_new" in impl and impl["via_new"] != impl["direct"]:
            bad("eigenvalues", "KarhunenLoeve.new", f"simulator.eigenvalues {impl['via_new']} differ from the named sequence {impl['direct']}")
        return vs
    if kind == "kl":
        if impl["status"] != "ok":
            bad("kl_structure", "KarhunenLoeve.new", f"raised {impl['status']}: {impl.get('msg')}")
            return vs
        n, k = case["n_obs"], case["n_clusters"]
        calls = impl["calls"]
        want_sizes = [n // k + (1 if g < n % k else 0) for g in range(k)]
        if [c["size"] for c in calls] != want_sizes:
            bad("kl_structure", "KarhunenLoeve.new", f"one multivariate_normal call per cluster expected with sizes {want_sizes}, got {[c['size'] for c in calls]}")
            return vs
        drawn = [row for c in calls for row in c["out"]]
        nf = len(case["Z"][0])
        cen = [[float(F(x)) for x in r] for r in case["centers"]] if "centers" in case else [[0.0] * k for _ in range(nf)]
        for g, c in enumerate(calls):
            if c["mean"] != [cen[f][g] for f in range(nf)]:
                bad("kl_structure", "KarhunenLoeve.new", f"cluster {g}: mean {c['mean']} is not column {g} of `centers`", ["option_not_forwarded"])
            if isinstance(case.get("cstd"), list):
                wantv = [float(F(case["cstd"][f][g])) for f in range(nf)]
                if np.diag(np.array(c["cov"])).tolist() != wantv:
                    bad("kl_structure", "KarhunenLoeve.new", f"cluster {g}: variances {np.diag(np.array(c['cov'])).tolist()} are not column {g} of `clusters_std`", ["option_not_forwarded"])
        for ci, c in enumerate(impl["comps"]):
            if c["coef"] != drawn:
                bad("kl_same_coefficients", "KarhunenLoeve.new", f"component {ci}: coefficients are not the drawn coefficients (in cluster order)")
            coef, basis, data = np.array(c["coef"]), np.array(c["basis"]), np.array(c["data"])
            want = np.array(drawn) @ basis
            sc = np.abs(np.array(drawn)) @ np.abs(basis) + 1e-300
            if data.shape != want.shape or not np.all(np.abs(data - want) <= 1e-9 * sc):
                bad("kl_structure", "KarhunenLoeve.new", f"component {ci}: data != drawn coefficients x basis functions (max dev {np.abs(data - want).max() if data.shape == want.shape else 'shape'})")
        if case["seeded"] and impl["glob_changed"]:
            bad("global_untouched", "KarhunenLoeve.new", "seeded simulator advanced the global generator", ["global_generator_used"])
        lab = impl["labels"]
        if [lab.count(g) for g in range(k)] != want_sizes or any(x > y for x, y in zip(lab, lab[1:])):
            bad("labels", "KarhunenLoeve.new", f"labels {lab}")
        ev = impl["eigenvalues"]
        if isinstance(case.get("cstd"), str) and (any(not (x > 0) for x in ev) or any(y > x for x, y in zip(ev, ev[1:]))):
            bad("eigenvalues", "KarhunenLoeve.new", f"eigenvalues {ev}")
        if ev != impl["eig_want"]:
            what = f"the named sequence `{case['cstd']}`" if isinstance(case.get("cstd"), str) else ("the first column of `clusters_std`" if "cstd" in case else "ones")
            bad("eigenvalues", "KarhunenLoeve.new", f"simulator.eigenvalues {ev} are not {what} {impl['eig_want']} (options: n_clusters={k}, centers={'given' if 'centers' in case else 'default'})",
                ["option_interaction"])
        return vs
    if kind == "bm":
        init = 0.0 if (case["default_init"] and case["name"] == "standard") else (1.0 if case["default_init"] else float(F(case["init"])))
        if case["name"] == "geometric" and not init > 0:
            if impl["status"] == "ok":
                bad("geometric_positive", "Brownian.new", f"init_point {init} accepted for a geometric path")
            return vs
        if impl["status"] != "ok":
            bad("brownian", "Brownian.new", f"raised {impl['status']}: {impl.get('msg')}")
            return vs
        vals = impl["values"]
        if any(not np.all(np.isfinite(np.asarray(row, dtype=float))) for row in vals):
            bad("brownian_finite", "Brownian.new", f"paths on the grid {case.get('order', 'inc')}/{case.get('gdtype', 'float64')} are not finite: {vals[0]}", ["unusual_grid"] if case.get("order") == "dec" else [])
        if not impl["grid_same"]:
            bad("brownian", "Brownian.new", "the paths are not on the requested grid")
        if case["seeded"] and impl["glob_changed"]:
            bad("global_untouched", "Brownian.new", "seeded simulator advanced the global generator", ["global_generator_used"])
        if case["name"] == "standard":
            for i, row in enumerate(vals):
                if row[0] != init:
                    bad("brownian_start", "Brownian.new", f"curve {i} starts at {row[0]!r}, requested {init!r}", ["option_not_forwarded"] if not case["default_init"] else [])
                    break
                z = [float(F(x)) for x in case["Z"][i]]
                for j in range(1, len(row)):
                    inc = row[j] - row[j - 1]
                    if abs(inc - impl["sd"] * z[j - 1]) > 1e-9 * (abs(row[j]) + abs(row[j - 1]) + 1):
                        bad("brownian_increment", "Brownian.new", f"curve {i}: increment {j} is {inc!r}, sqrt(delta)*draw = {impl['sd'] * z[j-1]!r}")
                        break
        else:
            for i, row in enumerate(vals):
                if any(not (x > 0) for x in row):
                    bad("geometric_positive", "Brownian.new", f"curve {i} is not positive: {row}")
                    break
        return vs
    if kind == "fresh":
        entry = {"eig": "_simulate_eigenvalues", "centers": "_initialize_centers", "cstd": "_initialize_clusters_std", "sim": "KarhunenLoeve.new"}[case["helper"]]
        for it in impl["items"]:
            if it["shares"] and it["label"] != "simulator.basis":
                bad("results_independent", entry, f"{it['label']}: the results of two identical calls share memory — a caller changing one changes the other", ["shared_result"])
            for key in ("second", "third"):
                if key in it and not _same_arr(it["first"], it[key]):
                    bad("results_independent", entry, f"{it['label']}: after the first result was changed in place by its owner, an identical {'call' if key == 'third' else 'earlier call'} gives {str(it[key])[:80]} instead of {str(it['first'])[:80]}", ["shared_result"])
                    break
        return vs
    if kind == "zc":
        if impl["status"] != "ok":
            bad("zhang_chen_structure", "Datasets.new", f"raised {impl['status']}: {impl.get('msg')}")
            return vs
        if len(impl["calls"]) != 2 * case["n_obs"] or any(len(c) != (case["m"] if k % 2 else 3) for k, c in enumerate(impl["calls"])):
            bad("zhang_chen_structure", "Datasets.new", f"expected per curve one draw of 3 coefficients and one of {case['m']} noise values, got sizes {[len(c) for c in impl['calls']]}")
            return vs
        cos, sin = np.array(impl["cos"]), np.array(impl["sin"])
        for i, row in enumerate(impl["values"]):
            c, eps = impl["calls"][2 * i], np.array(impl["calls"][2 * i + 1])
            want = (1.2 + 2.3 * cos + 4.2 * sin) + (c[0] + c[1] * cos + c[2] * sin) + eps
            if len(row) != len(want) or not np.allclose(row, want, rtol=0, atol=1e-9 * (np.abs(want).max() + 10)):
                bad("zhang_chen_structure", "Datasets.new", f"curve {i}: data are not mu + vi + eps (max dev {np.abs(np.array(row) - want).max() if len(row) == len(want) else 'length'}; operations run after new: {impl['post']})")
                break
        if impl["glob_changed"]:
            bad("global_untouched", "Datasets.new", "seeded simulator advanced the global generator", ["global_generator_used"])
        if not impl["grid_same"]:
            bad("zhang_chen_structure", "Datasets.new", "the curves are not on the requested grid")
        return vs
    if kind == "grid":
        t = [F(x) for x in case["t"]]
        d = [b - a for a, b in zip(t, t[1:])]
        irregular = any(abs(x - d[0]) > Fraction(1, 10**8) + Fraction(1, 10**5) * abs(d[0]) for x in d) if d else False
        clearly = any(abs(x - d[0]) > Fraction(1, 10**4) * abs(d[0]) for x in d) if d else False
        if clearly and impl["status"] == "ok":
            bad("irregular_grid_rejected", "Brownian.new", f"irregularly spaced grid {[float(x) for x in t]} accepted")
        if not irregular and impl["status"] != "ok":
            bad("irregular_grid_rejected", "Brownian.new", f"regular grid rejected: {impl['status']} {impl.get('msg')}")
        return vs
    return vs


def _same_arr(a, b):
    a, b = np.asarray(a, dtype=float), np.asarray(b, dtype=float)
    return a.shape == b.shape and bool(np.array_equal(a, b, equal_nan=True))


def nontrivial(case, impl):
    if "__crash__" in impl:
        return None
    if case["kind"] == "twin":
        n = sum(len(r[t]["own"]) + len(r[t]["glob"]) + (1 if r[t]["glob_changed"] else 0) for r in impl["recs"] for t in ("a", "b"))
        return digest(case) if n > 0 else None
    return digest(case)


def classify(case, impl):
    tags = ["kind:" + case["kind"]]
    if "__crash__" in impl:
        return tags + ["crash"]
    if case["kind"] == "twin":
        tags.append("sim:" + case["spec"]["kind"])
        tags.append("seed:" + ("none" if case["seed"] is None else "set"))
        tags.append("seed_type:" + case.get("seed_type", "int") + (":rejected" if impl.get("seed_rejected") else ""))
        tags.append("calls:" + str(len(case["calls"])))
        for call, rec in zip(case["calls"], impl["recs"]):
            tags.append(f"op:{call['op']}:{rec['a']['status'].split(':')[0]}")
            if any(f for (_, f) in rec["a"]["own"] + rec["a"]["glob"]):
                tags.append("fallback_draw")
            if call["op"] == "new":
                tags.append("clusters:" + str(call["n_clusters"]))
    elif case["kind"] == "kl":
        tags += ["shape:" + case["spec"]["kind"], "fam:" + case["spec"]["fam"], "opt:" + case["opt"], "clusters:" + str(case["n_clusters"]),
                 "is_normalized:" + str(bool(case["spec"].get("norm"))), "argvals:" + ("default" if case["spec"].get("noargs") else "given")]
    elif case["kind"] == "bm":
        tags += ["bm:" + case["name"], "status:" + impl["status"].split(":")[0], "grid_dtype:" + case.get("gdtype", "float64"), "grid_order:" + case.get("order", "inc")]
    elif case["kind"] == "grid":
        tags += ["grid:" + case["mode"], "status:" + impl["status"].split(":")[0], "grid_offset:" + ("small" if abs(int(case.get("offset", "0"))) < 1000 else "large")]
    elif case["kind"] == "eig":
        tags += ["eig:" + case["name"]]
    return tags


# --------------------------------------------------------------------------
# translator: named eigenvalue sequences and the cluster split, from the source as it is NOW
# --------------------------------------------------------------------------
# `translate()` (run by `run.py` before the proof step) parses FDApy/simulation/karhunen.py with
# `ast` and writes lean/FDAModel/Generated/Eigenvalues.lean: exact definitions of what the source
# says (element `i`, 0-based, of each `_eigenvalues_<name>(n)`; for exponential / sqrt the rational
# skeleton — the argument of `exp`, base and exponent of the power; `np.pi` becomes a parameter),
# the length of each sequence (index convention), and the cluster sizes of `_make_coef`.
# Props/C19.lean proves that these generated definitions equal the model's; an edit of a formula
# then breaks a proof obligation.  When the source shape is not recognised (a refactor) nothing is
# reported: the last generated section is kept and the evidence says the tie rests on the
# correspondence only.

import ast  # noqa: E402
import os  # noqa: E402

import common  # noqa: E402

GEN_FILE = os.path.join(common.LEAN_DIR, "FDAModel", "Generated", "Eigenvalues.lean")
TRANSLATOR_NOTES = []
EIG_KINDS = {"linear": "rat", "quadratic": "rat", "inverse": "rat", "exponential": "exp", "sqrt": "pow", "wiener": "ratpi"}


class NotRecognised(Exception):
    pass


def _attr_name(node):
    """`np.exp` -> 'exp', `numpy.linalg.x` -> 'x', bare name -> name"""
    if isinstance(node, ast.Attribute):
        return node.attr
    if isinstance(node, ast.Name):
        return node.id
    return None


def _const(node, env=None):
    """Constant folding: exact rational value of a constant expression (decimal literals exactly)."""
    env = env or {}
    if isinstance(node, ast.Constant) and isinstance(node.value, (int, float)) and not isinstance(node.value, bool):
        return Fraction(repr(node.value)) if isinstance(node.value, float) else Fraction(node.value)
    if isinstance(node, ast.Name) and node.id in env:
        return _const(env[node.id], {k: v for k, v in env.items() if k != node.id})
    if isinstance(node, ast.UnaryOp) and isinstance(node.op, (ast.USub, ast.UAdd)):
        v = _const(node.operand, env)
        return -v if isinstance(node.op, ast.USub) else v
    if isinstance(node, ast.BinOp):
        a, b = _const(node.left, env), _const(node.right, env)
        if isinstance(node.op, ast.Add):
            return a + b
        if isinstance(node.op, ast.Sub):
            return a - b
        if isinstance(node.op, ast.Mult):
            return a * b
        if isinstance(node.op, ast.Div) and b != 0:
            return a / b
        if isinstance(node.op, ast.Pow) and b.denominator == 1 and (a != 0 or b >= 0):
            return a ** int(b)
    raise NotRecognised("not a constant")


def _lean_q(q: Fraction) -> str:
    return f"({q.numerator} : Rat)" if q.denominator == 1 else f"(({q.numerator} : Rat) / {q.denominator})"


class _Irrational(Exception):
    def __init__(self, kind, parts):
        self.kind, self.parts = kind, parts


class _ExprTr:
    """Python expression -> Lean `Rat` term in `n`, `i` (element index, 0-based) and, if used, `pi`."""

    def __init__(self, nname, env):
        self.nname, self.env = nname, dict(env)
        self.uses_pi = False
        self.aranges = []   # (lean start, lean stop) over Int in n
        self.loopvar = {}

    def int_term(self, node):
        """integer-valued term in n, over Int (bounds of arange / range)"""
        try:
            q = _const(node, {})
            if q.denominator == 1:
                return f"({q.numerator} : Int)"
        except NotRecognised:
            pass
        if isinstance(node, ast.Name):
            if node.id == self.nname:
                return "(n : Int)"
            if node.id in self.env:
                return self.int_term(self.env[node.id])
        if isinstance(node, ast.BinOp) and isinstance(node.op, (ast.Add, ast.Sub, ast.Mult)):
            op = {ast.Add: "+", ast.Sub: "-", ast.Mult: "*"}[type(node.op)]
            return f"({self.int_term(node.left)} {op} {self.int_term(node.right)})"
        raise NotRecognised("bound of arange/range")

    def index_elem(self, args):
        """element `i` of np.arange(a, b[, 1]) / range(a, b): a + i"""
        if len(args) == 1:
            a, b = ast.Constant(0), args[0]
        elif len(args) == 2 or (len(args) == 3 and _const(args[2]) == 1):
            a, b = args[0], args[1]
        else:
            raise NotRecognised("arange with a step")
        self.aranges.append((self.int_term(a), self.int_term(b)))
        return f"({self.tr(a)} + (i : Rat))"

    def tr(self, node):
        try:
            return _lean_q(_const(node, {}))
        except NotRecognised:
            pass
        if isinstance(node, ast.Name):
            if node.id == self.nname:
                return "(n : Rat)"
            if node.id in self.loopvar:
                return self.loopvar[node.id]
            if node.id in self.env:
                return self.tr(self.env[node.id])
            raise NotRecognised(f"free name {node.id}")
        if isinstance(node, ast.Attribute) and node.attr == "pi":
            self.uses_pi = True
            return "pi"
        if isinstance(node, ast.UnaryOp) and isinstance(node.op, (ast.USub, ast.UAdd)):
            return f"(-{self.tr(node.operand)})" if isinstance(node.op, ast.USub) else self.tr(node.operand)
        if isinstance(node, ast.BinOp):
            if isinstance(node.op, ast.Pow):
                return self.power(node.left, node.right)
            if type(node.op) in (ast.Add, ast.Sub, ast.Mult, ast.Div):
                op = {ast.Add: "+", ast.Sub: "-", ast.Mult: "*", ast.Div: "/"}[type(node.op)]
                return f"({self.tr(node.left)} {op} {self.tr(node.right)})"
        if isinstance(node, ast.ListComp) and len(node.generators) == 1 and not node.generators[0].ifs:
            g = node.generators[0]
            if isinstance(g.target, ast.Name) and isinstance(g.iter, ast.Call) and _attr_name(g.iter.func) in ("range", "arange"):
                self.loopvar[g.target.id] = self.index_elem(g.iter.args)
                return self.tr(node.elt)
        if isinstance(node, ast.Call):
            f = _attr_name(node.func)
            if f == "arange":
                return self.index_elem(node.args)
            if f in ("array", "asarray", "float64", "float") and len(node.args) >= 1:
                return self.tr(node.args[0])
            if f in ("power", "float_power") and len(node.args) == 2:
                return self.power(node.args[0], node.args[1])
            if f == "sqrt" and len(node.args) == 1:
                return self.power(node.args[0], ast.BinOp(ast.Constant(1), ast.Div(), ast.Constant(2)))
            if f == "reciprocal" and len(node.args) == 1:
                return f"((1 : Rat) / {self.tr(node.args[0])})"
            if f == "exp" and len(node.args) == 1:
                raise _Irrational("exp", [self.tr(node.args[0])])
        raise NotRecognised(ast.dump(node)[:80])

    def power(self, base, expo):
        e = _const(expo, self.env)
        b = self.tr(base)
        if e.denominator == 1:
            k = abs(int(e))
            prod = "(1 : Rat)" if k == 0 else "(" + " * ".join([b] * k) + ")"
            return prod if e >= 0 else f"((1 : Rat) / {prod})"
        raise _Irrational("pow", [b, _lean_q(e)])


def _function_table(tree):
    """name -> (first parameter name, return expression, local simple assignments)"""
    out = {}
    for node in tree.body:
        if isinstance(node, ast.FunctionDef):
            env, ret = {}, None
            for st in node.body:
                if isinstance(st, ast.Assign) and len(st.targets) == 1 and isinstance(st.targets[0], ast.Name):
                    env[st.targets[0].id] = st.value
                elif isinstance(st, ast.Return) and st.value is not None:
                    ret = st.value
            if ret is not None and node.args.args:
                out[node.name] = (node.args.args[0].arg, ret, env)
        elif isinstance(node, ast.Assign) and len(node.targets) == 1 and isinstance(node.targets[0], ast.Name) and isinstance(node.value, ast.Lambda):
            lam = node.value
            if lam.args.args:
                out[node.targets[0].id] = (lam.args.args[0].arg, lam.body, {})
    return out


def _eig_section(tree, src_lines):
    table = _function_table(tree)
    lines = []
    for name, want in EIG_KINDS.items():
        fn = f"_eigenvalues_{name}"
        if fn not in table:
            raise NotRecognised(f"{fn} not found as a module-level def / lambda with a return expression")
        nname, ret, env = table[fn]
        tr = _ExprTr(nname, env)
        C = name.capitalize()
        text = ast.unparse(ret)
        try:
            body = tr.tr(ret)
            kind = "ratpi" if tr.uses_pi else "rat"
            parts = [body]
        except _Irrational as ir:
            kind, parts = ir.kind, ir.parts
        if kind != want:
            raise NotRecognised(f"{fn}: expression `{text}` is of kind {kind}, expected {want}")
        if len(set(tr.aranges)) != 1:
            raise NotRecognised(f"{fn}: expected exactly one index range, found {len(set(tr.aranges))}")
        a, b = tr.aranges[0]
        lines.append(f"/-- `{fn}(n)`: the source returns `{text}`; element `i` (0-based) -/")
        if kind == "rat":
            lines.append(f"def eig{C}Src (n i : Nat) : Rat := {parts[0]}")
        elif kind == "ratpi":
            lines.append(f"def eig{C}Src (pi : Rat) (n i : Nat) : Rat := {parts[0]}")
        elif kind == "exp":
            lines.append(f"def eig{C}ArgSrc (n i : Nat) : Rat := {parts[0]}   -- the sequence is `exp` of this")
        else:
            lines.append(f"def eig{C}BaseSrc (n i : Nat) : Rat := {parts[0]}   -- the sequence is this base …")
            lines.append(f"def eig{C}ExpSrc : Rat := {parts[1]}   -- … to this power")
        lines.append(f"/-- number of elements of that sequence (stop - start of its index range) -/")
        lines.append(f"def eig{C}LenSrc (n : Nat) : Int := {b} - {a}")
        lines.append("")
    return "\n".join(lines)


def _nat_term(node, names):
    """Python integer expression in the two size names -> Lean Nat term in n, k"""
    if isinstance(node, ast.Constant) and isinstance(node.value, int):
        return str(node.value)
    if isinstance(node, ast.Name) and node.id in names:
        return names[node.id]
    if isinstance(node, ast.BinOp) and type(node.op) in (ast.Add, ast.Sub, ast.Mult, ast.FloorDiv, ast.Mod):
        op = {ast.Add: "+", ast.Sub: "-", ast.Mult: "*", ast.FloorDiv: "/", ast.Mod: "%"}[type(node.op)]
        return f"({_nat_term(node.left, names)} {op} {_nat_term(node.right, names)})"
    raise NotRecognised("size expression " + ast.dump(node)[:60])


def _subst(node, env, depth=0):
    """inline simple local assignments (names -> expressions)"""
    if depth > 6:
        return node

    class T(ast.NodeTransformer):
        def visit_Name(self, n):
            if n.id in env:
                return _subst(env[n.id], {k: v for k, v in env.items() if k != n.id}, depth + 1)
            return n

    import copy

    return T().visit(copy.deepcopy(node))


def _label_section(tree):
    """Find, in any function, `sizes = np.ones(k, dtype=int) * base` (or `np.full(k, base)`,
    `np.zeros(k) + base`) followed by `sizes[lo:hi] += c`."""
    for fn in [x for x in ast.walk(tree) if isinstance(x, ast.FunctionDef)]:
        env = {}
        created = {}
        for st in fn.body:
            if isinstance(st, ast.Assign) and len(st.targets) == 1:
                tgt = st.targets[0]
                if isinstance(tgt, ast.Name):
                    arr = _array_ctor(st.value)
                    if arr is not None:
                        created[tgt.id] = arr
                    else:
                        env[tgt.id] = st.value
                elif isinstance(tgt, ast.Tuple) and isinstance(st.value, ast.Tuple) and len(tgt.elts) == len(st.value.elts):
                    for t, v in zip(tgt.elts, st.value.elts):
                        if isinstance(t, ast.Name):
                            env[t.id] = v
            elif isinstance(st, ast.AugAssign) and isinstance(st.op, ast.Add) and isinstance(st.target, ast.Subscript) \
                    and isinstance(st.target.value, ast.Name) and st.target.value.id in created and isinstance(st.target.slice, ast.Slice):
                size, base = created[st.target.value.id]
                # only integer expressions of plain names are inlined (`k = centers.shape[1]` stays the name `k`)
                env = {k: v for k, v in env.items()
                       if all(isinstance(x, (ast.Name, ast.BinOp, ast.Constant, ast.operator, ast.Load)) for x in ast.walk(v))}
                sl = st.target.slice
                if sl.step is not None:
                    raise NotRecognised("slice with a step in the cluster split")
                size, base = _subst(size, env), _subst(base, env)
                lo = _subst(sl.lower, env) if sl.lower is not None else None
                hi = _subst(sl.upper, env) if sl.upper is not None else None
                inc = _subst(st.value, env)
                if not isinstance(size, ast.Name):
                    raise NotRecognised("number of clusters is not a plain name")
                kname = size.id
                free = {x.id for e in (base, lo, hi) if e is not None for x in ast.walk(e) if isinstance(x, ast.Name)} - {kname}
                if len(free) != 1:
                    raise NotRecognised(f"cluster split uses names {sorted(free)}")
                names = {kname: "k", free.pop(): "n"}
                conds = []
                if lo is not None:
                    conds.append(f"{_nat_term(lo, names)} ≤ g")
                if hi is not None:
                    conds.append(f"g < {_nat_term(hi, names)}")
                cond = " ∧ ".join(conds) if conds else "True"
                text = f"{ast.unparse(st.target)} += {ast.unparse(st.value)} on sizes of base {ast.unparse(base)}"
                return "\n".join([
                    f"/-- `{fn.name}`: size of cluster `g` of `n` observations in `k` clusters; source: `{text}` -/",
                    f"def clusterSizeSrc (n k g : Nat) : Nat := {_nat_term(base, names)} + (if {cond} then {_nat_term(inc, names)} else 0)",
                    ""])
    raise NotRecognised("no `sizes = ones(k) * base; sizes[lo:hi] += c` pattern found")


def _array_ctor(node):
    """(size, base value) of `np.ones(k, …) * base`, `base * np.ones(k)`, `np.full(k, base, …)`, `np.zeros(k, …) + base`"""
    def ctor(c, name):
        return isinstance(c, ast.Call) and _attr_name(c.func) == name and len(c.args) >= 1

    if isinstance(node, ast.BinOp) and isinstance(node.op, ast.Mult):
        for a, b in ((node.left, node.right), (node.right, node.left)):
            if ctor(a, "ones"):
                return a.args[0], b
    if isinstance(node, ast.BinOp) and isinstance(node.op, ast.Add):
        for a, b in ((node.left, node.right), (node.right, node.left)):
            if ctor(a, "zeros"):
                return a.args[0], b
    if ctor(node, "full") and len(node.args) >= 2:
        return node.args[0], node.args[1]
    return None


def _klnew_section(tree):
    """`KarhunenLoeve.new`: what is stored in `eigenvalues`, whether every component gets the same coefficient array,
    whether the gridded data are rescaled; `BasisFunctionalData.to_grid`: which axes `coefficients x basis` contracts."""
    cls = next((n for n in tree.body if isinstance(n, ast.ClassDef) and n.name == "KarhunenLoeve"), None)
    new = next((it for it in cls.body if isinstance(it, ast.FunctionDef) and it.name == "new"), None) if cls else None
    if new is None:
        raise NotRecognised("KarhunenLoeve.new not found")
    me = new.args.args[0].arg
    col, extra = None, False
    same_coef, scaled = None, False
    for node in ast.walk(new):
        if isinstance(node, ast.Assign) and len(node.targets) == 1 and isinstance(node.targets[0], ast.Attribute) \
                and node.targets[0].attr == "eigenvalues" and isinstance(node.targets[0].value, ast.Name) and node.targets[0].value.id == me:
            v = node.value
            if isinstance(v, ast.BinOp) and isinstance(v.op, ast.Add):
                extra, v = True, v.left
            if isinstance(v, ast.Subscript) and isinstance(v.value, ast.Name) and v.value.id == "clusters_std" and isinstance(v.slice, ast.Tuple) \
                    and len(v.slice.elts) == 2 and isinstance(v.slice.elts[0], ast.Slice) and v.slice.elts[0].lower is None and v.slice.elts[0].upper is None \
                    and isinstance(v.slice.elts[1], ast.Constant):
                col = int(v.slice.elts[1].value)
            else:
                raise NotRecognised("what is stored in eigenvalues: " + ast.unparse(node.value)[:60])
        # [BasisFunctionalData(basis=basis, coefficients=coef) for basis in self.basis.data]
        if isinstance(node, ast.ListComp) and isinstance(node.elt, ast.Call) and _attr_name(node.elt.func) == "BasisFunctionalData":
            kw = {k.arg: k.value for k in node.elt.keywords}
            cf = kw.get("coefficients", node.elt.args[1] if len(node.elt.args) > 1 else None)
            loopvars = {g.target.id for g in node.generators if isinstance(g.target, ast.Name)}
            same_coef = isinstance(cf, ast.Name) and cf.id not in loopvars
        # [data.to_grid() for data in self.data_basis.data]   (an element that is not the bare call is a rescaling)
        if isinstance(node, ast.ListComp) and "to_grid" in ast.unparse(node.elt):
            scaled = not (isinstance(node.elt, ast.Call) and _attr_name(node.elt.func) == "to_grid" and not node.elt.args)
    if col is None or same_coef is None:
        raise NotRecognised("KarhunenLoeve.new: eigenvalues assignment / multivariate branch not found")
    # to_grid of BasisFunctionalData
    fd = ast.parse(open(os.path.join(common.REPO, "FDApy", "representation", "functional_data.py")).read())
    bcls = next((n for n in fd.body if isinstance(n, ast.ClassDef) and n.name == "BasisFunctionalData"), None)
    tg = next((it for it in bcls.body if isinstance(it, ast.FunctionDef) and it.name == "to_grid"), None) if bcls else None
    if tg is None:
        raise NotRecognised("BasisFunctionalData.to_grid not found")
    axes = None
    for node in ast.walk(tg):
        if isinstance(node, ast.Call) and _attr_name(node.func) == "einsum" and len(node.args) == 3 and isinstance(node.args[0], ast.Constant):
            sub = node.args[0].value.replace(" ", "")
            ins, out = sub.split("->")
            a, b = ins.split(",")
            ops = [ast.unparse(x) for x in node.args[1:]]
            if not (ops[0].endswith("coefficients") and ops[1].endswith("basis.values")):
                if ops[1].endswith("coefficients") and ops[0].endswith("basis.values"):
                    a, b = b, a
                else:
                    raise NotRecognised("operands of einsum " + str(ops))
            a_l, b_l = a.replace("...", ""), b.replace("...", "")
            shared = [c for c in a_l if c in b_l and c not in out]
            if len(shared) != 1 or len(a_l) != 2:
                raise NotRecognised("einsum subscripts " + sub)
            kept = [c for c in a_l if c != shared[0]][0]
            if not out.startswith(kept):
                raise NotRecognised("einsum output " + sub)
            axes = (a_l.index(shared[0]), b.index(shared[0]) if not b.startswith("...") else -1, sub)
        elif isinstance(node, ast.BinOp) and isinstance(node.op, ast.MatMult) and ast.unparse(node.left).endswith("coefficients") \
                and ast.unparse(node.right).endswith("basis.values"):
            axes = (1, 0, "coefficients @ basis.values")
        elif isinstance(node, ast.Call) and _attr_name(node.func) in ("matmul", "dot") and len(node.args) == 2 \
                and ast.unparse(node.args[0]).endswith("coefficients") and ast.unparse(node.args[1]).endswith("basis.values"):
            axes = (1, 0, _attr_name(node.func) + "(coefficients, basis.values)")
    if axes is None or axes[1] < 0:
        raise NotRecognised("coefficients x basis product of to_grid not found")
    B = lambda x: "true" if x else "false"  # noqa: E731
    return "\n".join([
        "/-- `KarhunenLoeve.new`: `self.eigenvalues = clusters_std[:, k]` (plus something else?) -/",
        f"def eigenvaluesColumnSrc : Nat := {col}",
        f"def eigenvaluesExtraTermSrc : Bool := {B(extra)}",
        "/-- multivariate branch: the same coefficient array for every component; gridded components rescaled? -/",
        f"def klSameCoefEveryComponentSrc : Bool := {B(same_coef)}",
        f"def klGridRescaledSrc : Bool := {B(scaled)}",
        f"/-- `BasisFunctionalData.to_grid`: `{axes[2]}` sums over this axis of the coefficients and this axis of the basis values -/",
        f"def klCoefContractAxisSrc : Nat := {axes[0]}",
        f"def klBasisContractAxisSrc : Nat := {axes[1]}",
        ""])


_SECTIONS = ("eigenvalues", "clusters", "klnew")
REFERENCE_FILE = os.path.join(os.path.dirname(os.path.abspath(__file__)), "c19_eigenvalues_reference.lean")


def _old_section(old, name):
    if not old:
        return None
    a, b = f"-- BEGIN {name}\n", f"-- END {name}\n"
    if a in old and b in old:
        return old[old.index(a) + len(a): old.index(b)]
    return None


def translate():
    TRANSLATOR_NOTES.clear()
    path = os.path.join(common.REPO, "FDApy", "simulation", "karhunen.py")
    old = open(GEN_FILE).read() if os.path.exists(GEN_FILE) else None
    try:
        src = open(path).read()
        tree = ast.parse(src)
    except (OSError, SyntaxError) as e:
        TRANSLATOR_NOTES.append(f"translator: cannot read {path} ({e}); reference translation used, tie rests on the correspondence only")
        print("note:", TRANSLATOR_NOTES[-1])
        text = open(REFERENCE_FILE).read()
        if text != old:
            with open(GEN_FILE, "w") as fh:
                fh.write(text)
        return
    sections = {}
    reference = open(REFERENCE_FILE).read()
    for name, fn in (("eigenvalues", lambda: _eig_section(tree, src)), ("clusters", lambda: _label_section(tree)), ("klnew", lambda: _klnew_section(tree))):
        try:
            sections[name] = fn()
            TRANSLATOR_NOTES.append(f"translator: {name} translated from the current source")
        except (NotRecognised, AttributeError, IndexError, KeyError, TypeError, ValueError, OSError, SyntaxError) as e:
            # never an alarm: the reference translation stored beside the translator is used (not what an earlier run left behind)
            note = f"translator: source shape not recognised for {name} ({str(e)[:120]}); reference translation used, tie rests on the correspondence only"
            TRANSLATOR_NOTES.append(note)
            print("note:", note)
            sections[name] = _old_section(reference, name)
    head = ("/-\nGENERATED by harness/c19.py `translate()` from FDApy/simulation/karhunen.py (named eigenvalue\n"
            "sequences, cluster split of `_make_coef`, what `KarhunenLoeve.new` stores and how coefficients x basis gives the data).  Do not edit: regenerated on every run of `./check C19`.\n"
            "Props/C19.lean proves that these definitions equal the model's (`FDAModel/SimulationRng.lean`).\n-/\n"
            "set_option linter.unusedVariables false\nnamespace FDA.Generated\n\n")
    body = "".join(f"-- BEGIN {n}\n{sections[n]}-- END {n}\n\n" for n in _SECTIONS)
    text = head + body + "end FDA.Generated\n"
    if text != old:
        os.makedirs(os.path.dirname(GEN_FILE), exist_ok=True)
        with open(GEN_FILE, "w") as fh:
            fh.write(text)


def extra_coverage(cases, impls, models):
    return dict(translator=list(TRANSLATOR_NOTES), generated_file=os.path.relpath(GEN_FILE, common.VERIF))
