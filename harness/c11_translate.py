"""Translator for C11: the bodies of the cross-validating setters — `DenseFunctionalData.argvals / values`,
`IrregularFunctionalData.argvals / values`, `GridFunctionalData.argvals_stand` — and of `Argvals.compatible_with` /
`Values.compatible_with` -> `lean/FDAModel/Generated/Setters.lean`.

Syntax only: every statement is mapped onto one constructor of `FDA.PySetter.Stmt` (`lean/FDAModel/Core/PySetter.lean`),
in the order of the source; no statement is dropped, merged or reordered.  `C11.setter_src_eq_model` then proves that
executing these statement lists on the container model gives exactly the model's `setArg` / `setVal` / `setStand true`
(same result, same error class, and no assignment before a failing check).  Anything not recognised raises `Shape`: not
an alarm, the caller falls back on the reference translation.
"""
import ast


class Shape(ValueError):
    pass


CLASSES = {"DenseArgvals": "denseArgvals", "IrregularArgvals": "irregularArgvals", "DenseValues": "denseValues",
           "IrregularValues": "irregularValues", "Argvals": "argvals"}
FIELDS = {"_argvals": "argvals", "argvals": "argvals", "_values": "values", "values": "values", "_argvals_stand": "stand"}


def _self_attr(e, me):
    return e.attr if isinstance(e, ast.Attribute) and isinstance(e.value, ast.Name) and e.value.id == me else None


def _is_raise(st, err):
    if not isinstance(st, ast.Raise):
        return False
    exc = st.exc.func if isinstance(st.exc, ast.Call) else st.exc
    return isinstance(exc, ast.Name) and exc.id == err


def _stmt(st, me, x):
    # self._f = x   /   self._argvals_stand = self._argvals.normalization()
    if isinstance(st, ast.Assign) and len(st.targets) == 1:
        tgt = _self_attr(st.targets[0], me)
        if tgt in ("_argvals", "_values", "_argvals_stand"):
            v = st.value
            if isinstance(v, ast.Name) and v.id == x:
                return f".assign .{FIELDS[tgt]}"
            if tgt == "_argvals_stand" and isinstance(v, ast.Call) and isinstance(v.func, ast.Attribute) and v.func.attr == "normalization" \
                    and not v.args and _self_attr(v.func.value, me) in ("_argvals", "argvals"):
                return ".normalizeStand"
        raise Shape(f"assignment not recognised: {ast.unparse(st)}")
    # self._values.compatible_with(x)
    if isinstance(st, ast.Expr) and isinstance(st.value, ast.Call):
        c = st.value
        if isinstance(c.func, ast.Attribute) and c.func.attr == "compatible_with" and len(c.args) == 1 \
                and isinstance(c.args[0], ast.Name) and c.args[0].id == x:
            recv = _self_attr(c.func.value, me)
            if recv in ("_values", "values", "_argvals", "argvals"):
                return f".compatWith .{FIELDS[recv]}"
        raise Shape(f"call not recognised: {ast.unparse(st)}")
    if isinstance(st, ast.If) and not st.orelse and len(st.body) == 1:
        t, body = st.test, st.body[0]
        # if hasattr(self, "values"): self._values.compatible_with(x)
        if isinstance(t, ast.Call) and isinstance(t.func, ast.Name) and t.func.id == "hasattr" and len(t.args) == 2 \
                and isinstance(t.args[0], ast.Name) and t.args[0].id == me and isinstance(t.args[1], ast.Constant):
            inner = _stmt(body, me, x)
            if inner.startswith(".compatWith") and FIELDS.get(t.args[1].value) == inner.split(".")[-1]:
                return inner
            raise Shape(f"hasattr guard does not match its body: {ast.unparse(st)}")
        # if not isinstance(x, C): raise TypeError
        if isinstance(t, ast.UnaryOp) and isinstance(t.op, ast.Not) and isinstance(t.operand, ast.Call) \
                and isinstance(t.operand.func, ast.Name) and t.operand.func.id == "isinstance" and len(t.operand.args) == 2 \
                and isinstance(t.operand.args[0], ast.Name) and t.operand.args[0].id == x and _is_raise(body, "TypeError"):
            c = t.operand.args[1]
            if isinstance(c, ast.Name) and c.id in CLASSES:
                return f".requireClass .{CLASSES[c.id]}"
            if isinstance(c, ast.Call) and isinstance(c.func, ast.Name) and c.func.id == "type" and len(c.args) == 1 \
                    and _self_attr(c.args[0], me) in ("_argvals", "argvals"):
                return ".requireClassOfArgvals"
            raise Shape(f"class test not recognised: {ast.unparse(t)}")
        # if x.n_points != self._argvals.n_points: raise ValueError
        if isinstance(t, ast.Compare) and len(t.ops) == 1 and isinstance(t.ops[0], ast.NotEq) and _is_raise(body, "ValueError"):
            l, r = t.left, t.comparators[0]
            def npts_of_x(e):
                return isinstance(e, ast.Attribute) and e.attr == "n_points" and isinstance(e.value, ast.Name) and e.value.id == x
            def npts_of_argvals(e):
                return isinstance(e, ast.Attribute) and e.attr == "n_points" and _self_attr(e.value, me) in ("_argvals", "argvals")
            if (npts_of_x(l) and npts_of_argvals(r)) or (npts_of_argvals(l) and npts_of_x(r)):
                return ".requirePointsOfArgvals"
    raise Shape(f"statement not recognised: {ast.unparse(st)[:80]}")


def _body(fn):
    return [b for b in fn.body if not (isinstance(b, ast.Expr) and isinstance(b.value, ast.Constant) and isinstance(b.value.value, str))]


def _setter(cls, name):
    for it in cls.body:
        if isinstance(it, ast.FunctionDef) and it.name == name and any(
                isinstance(d, ast.Attribute) and d.attr == "setter" for d in it.decorator_list) and not any(
                isinstance(d, ast.Name) and d.id == "abstractmethod" for d in it.decorator_list):
            if len(it.args.args) != 2:
                raise Shape(f"{cls.name}.{name}: signature")
            me, x = it.args.args[0].arg, it.args.args[1].arg
            return "[" + ", ".join(_stmt(s, me, x) for s in _body(it)) + "]"
    raise Shape(f"setter {cls.name}.{name} not found")


def _compat(tree, clsname):
    cls = next((n for n in tree.body if isinstance(n, ast.ClassDef) and n.name == clsname), None)
    fn = next((it for it in cls.body if isinstance(it, ast.FunctionDef) and it.name == "compatible_with"), None) if cls else None
    if fn is None:
        raise Shape(f"{clsname}.compatible_with not found")
    me, x = fn.args.args[0].arg, fn.args.args[1].arg
    body = _body(fn)
    if len(body) == 1 and isinstance(body[0], ast.If) and not body[0].orelse and len(body[0].body) == 1 and _is_raise(body[0].body[0], "ValueError"):
        t = body[0].test
        if isinstance(t, ast.Compare) and len(t.ops) == 1 and isinstance(t.ops[0], ast.NotEq):
            sides = []
            for e in (t.left, t.comparators[0]):
                if isinstance(e, ast.Attribute) and e.attr == "n_points" and isinstance(e.value, ast.Name) and e.value.id in (me, x):
                    sides.append(e.value.id)
            if sorted(sides) == sorted([me, x]):
                return ".raiseValueErrorIfPointsDiffer"
    raise Shape(f"{clsname}.compatible_with: body not recognised")


def lean_source(repo):
    import os

    rep = os.path.join(repo, "FDApy", "representation")
    fd = ast.parse(open(os.path.join(rep, "functional_data.py")).read())
    classes = {n.name: n for n in fd.body if isinstance(n, ast.ClassDef)}
    for c in ("GridFunctionalData", "DenseFunctionalData", "IrregularFunctionalData"):
        if c not in classes:
            raise Shape(f"class {c} not found")
    parts = dict(
        denseArgvalsSetter=_setter(classes["DenseFunctionalData"], "argvals"),
        denseValuesSetter=_setter(classes["DenseFunctionalData"], "values"),
        irregArgvalsSetter=_setter(classes["IrregularFunctionalData"], "argvals"),
        irregValuesSetter=_setter(classes["IrregularFunctionalData"], "values"),
        standSetter=_setter(classes["GridFunctionalData"], "argvals_stand"),
    )
    ca = _compat(ast.parse(open(os.path.join(rep, "argvals.py")).read()), "Argvals")
    cv = _compat(ast.parse(open(os.path.join(rep, "values.py")).read()), "Values")
    defs = "\n\n".join(f"def {k} : List Stmt :=\n  {v}" for k, v in parts.items())
    return f"""/-
GENERATED by `harness/c11_translate.py` from `FDApy/representation/functional_data.py` (the `argvals`, `values` and
`argvals_stand` setters), `argvals.py` and `values.py` (`compatible_with`).  Do not edit.
Syntax only, statement by statement: `C11.setter_src_eq_model` proves that these bodies are the model's setters.
-/
import FDAModel.Core.PySetter

namespace FDA.Generated.Setters
open FDA.PySetter

{defs}

def argvalsCompatibleWith : CompatBody := {ca}

def valuesCompatibleWith : CompatBody := {cv}

end FDA.Generated.Setters
"""
