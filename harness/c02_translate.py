"""Translator for C02 / C03: the formulas of univariate FPCA as WRITTEN in the source
-> `lean/FDAModel/Generated/UfpcaFormulas.lean` (`FDA.FPCA.FitConsts`, `FDA.FPCA.TransformConsts`).

Sources read (with `ast`):
* `FDApy/preprocessing/dim_reduction/ufpca.py`: `_fit_covariance` (which of `W^{1/2}` / `W^{-1/2}` stands on which
  side of the covariance, their powers, how the eigenfunctions are recovered from the solver vectors),
  `_fit_inner_product` (`values.T @ eigenvectors / sqrt(eigenvalues)`, `eigenvalues / n_obs`),
  `_transform_numerical_integration_dense`, `_transform_innpro`, `UFPCA.transform`, `UFPCA.inverse_transform`;
* `FDApy/misc/utils.py`: `_compute_covariance` (Mercer sum);
* `FDApy/representation/functional_data.py`: `DenseFunctionalData.rescale` (`self / sqrt(weights)`).

It maps SYNTAX only: names, literals, operators, operand order, `.T`, powers, subscripts — no arithmetic beyond reading
a numeric literal, no simplification.  `C02.*_src_eq_model`, `C03.*_src_eq_model` then prove that the formulas so written
are the model's (`symMat`, `backTransform`, `gramEigfun`, `gramEigval`, `mercer`, `transformImpl`, `scoresInnPro`'s
radicand, `inverseTransform`).  A source whose shape is not recognised raises `Shape`: no alarm; the caller falls back
on the reference translation stored beside this file (`c02_ufpcaformulas_reference.lean`).
"""
import ast
from fractions import Fraction


class Shape(ValueError):
    pass


def _name(n, ident):
    return isinstance(n, ast.Name) and n.id == ident


def _attr_chain(n):
    """`a.b.c` -> "a.b.c" (None if not a pure attribute chain)."""
    parts = []
    while isinstance(n, ast.Attribute):
        parts.append(n.attr)
        n = n.value
    if isinstance(n, ast.Name):
        parts.append(n.id)
        return ".".join(reversed(parts))
    return None


def _np(n, attr):
    return (isinstance(n, ast.Call) and isinstance(n.func, ast.Attribute) and n.func.attr == attr
            and isinstance(n.func.value, ast.Name) and n.func.value.id in ("np", "numpy"))


def _num(n):
    if isinstance(n, ast.UnaryOp) and isinstance(n.op, ast.USub):
        return -_num(n.operand)
    if isinstance(n, ast.Constant) and isinstance(n.value, (int, float)) and not isinstance(n.value, bool):
        return Fraction(n.value) if isinstance(n.value, int) else Fraction(repr(n.value))
    raise Shape(f"numeric literal expected: {ast.unparse(n)}")


def _func(tree, name, cls=None):
    scope = tree.body
    if cls:
        c = [n for n in tree.body if isinstance(n, ast.ClassDef) and n.name == cls]
        if len(c) != 1:
            raise Shape(f"class {cls}")
        scope = c[0].body
    f = [n for n in scope if isinstance(n, ast.FunctionDef) and n.name == name]
    if len(f) != 1:
        raise Shape(f"function {name}")
    return f[0]


def _skeleton(fn, kinds):
    """The top-level statements of `fn` (docstring apart) must be exactly of these kinds, in this order — an extra branch,
    loop or early return is a shape the translator does not claim to understand."""
    body = [b for b in fn.body if not (isinstance(b, ast.Expr) and isinstance(getattr(b, "value", None), ast.Constant))]
    got = [type(b).__name__ for b in body]
    if got != kinds:
        raise Shape(f"{fn.name}: statements {got}, expected {kinds}")


def _assigns(body):
    out = {}
    for st in body:
        if isinstance(st, ast.Assign) and len(st.targets) == 1 and isinstance(st.targets[0], ast.Name):
            out.setdefault(st.targets[0].id, []).append(st.value)
    return out


def _strip_T(n):
    """(expr, transposed?) for `expr.T` / `np.transpose(expr)`."""
    if isinstance(n, ast.Attribute) and n.attr == "T":
        return n.value, True
    if _np(n, "transpose") and len(n.args) == 1:
        return n.args[0], True
    return n, False


def _pow(n, is_base):
    """Power of the base in `np.sqrt(b)`, `b ** c`, `np.power(b, c)`, `1 / E`, `float(E)`, `b`."""
    if is_base(n):
        return Fraction(1)
    if isinstance(n, ast.Call) and _name(n.func, "float") and len(n.args) == 1:
        return _pow(n.args[0], is_base)
    if _np(n, "sqrt") and len(n.args) == 1:
        return _pow(n.args[0], is_base) / 2
    if _np(n, "power") and len(n.args) == 2:
        return _pow(n.args[0], is_base) * _num(n.args[1])
    if isinstance(n, ast.BinOp) and isinstance(n.op, ast.Pow):
        return _pow(n.left, is_base) * _num(n.right)
    if isinstance(n, ast.BinOp) and isinstance(n.op, ast.Div) and _num(n.left) == 1:
        return -_pow(n.right, is_base)
    raise Shape(f"power of the base not recognised: {ast.unparse(n)}")


def _matmul_chain(n):
    """Operands of `a @ b @ c`, `np.dot(np.dot(a, b), c)`, `np.linalg.multi_dot([a, b, c])`, left to right."""
    if isinstance(n, ast.BinOp) and isinstance(n.op, ast.MatMult):
        return _matmul_chain(n.left) + _matmul_chain(n.right)
    if (_np(n, "dot") or _np(n, "matmul")) and len(n.args) == 2:
        return _matmul_chain(n.args[0]) + _matmul_chain(n.args[1])
    if isinstance(n, ast.Call) and _attr_chain(n.func) in ("np.linalg.multi_dot", "numpy.linalg.multi_dot") \
            and len(n.args) == 1 and isinstance(n.args[0], (ast.List, ast.Tuple)):
        return [x for e in n.args[0].elts for x in _matmul_chain(e)]
    return [n]


# --------------------------------------------------------------------------
# fit
# --------------------------------------------------------------------------

def _fit_covariance(fn):
    _skeleton(fn, ["Assign"] * 12 + ["Return"])
    A = _assigns(fn.body)
    out = {}
    w = [v for v in A.get("weight", []) if isinstance(v, ast.Call) and _name(v.func, "_integration_weights")]
    if len(w) != 1:
        raise Shape("weight = _integration_weights(...)")
    kw = {k.arg: k.value for k in w[0].keywords}
    method = kw.get("method", w[0].args[1] if len(w[0].args) > 1 else None)
    out["quadTrapz"] = isinstance(method, ast.Constant) and method.value == "trapz"
    diags = {}
    for name, vals in A.items():
        for v in vals:
            if _np(v, "diag") and len(v.args) == 1:
                diags[name] = _pow(v.args[0], lambda e: _name(e, "weight"))
    pos = [n for n, p in diags.items() if p > 0]
    neg = [n for n, p in diags.items() if p < 0]
    if len(pos) != 1 or len(neg) != 1:
        raise Shape("one diag(weight^a), a > 0, and one diag(weight^b), b < 0, expected")
    out["sqrtPow"], out["invPow"] = diags[pos[0]], diags[neg[0]]
    kind = lambda e: ".sqrtW" if _name(e, pos[0]) else ".invSqrtW" if _name(e, neg[0]) else None  # noqa: E731
    if len(A.get("covariance_matrix", [])) != 1:
        raise Shape("covariance_matrix = …")
    ops = _matmul_chain(A["covariance_matrix"][0])
    is_cov = lambda e: (ast.unparse(e).startswith("covariance")) and kind(e) is None  # noqa: E731
    ic = [i for i, e in enumerate(ops) if is_cov(e)]
    if len(ic) != 1 or len(ops) > 3 or any(kind(e) is None for i, e in enumerate(ops) if i != ic[0]):
        raise Shape(f"covariance_matrix: operands {[ast.unparse(e) for e in ops]}")
    left, right = ops[:ic[0]], ops[ic[0] + 1:]
    if len(left) > 1 or len(right) > 1:
        raise Shape("more than one factor on a side of the covariance")
    out["symLeft"] = kind(left[0]) if left else ".one"
    out["symRight"] = kind(right[0]) if right else ".one"
    # the solver vectors: second target of `… = _compute_eigen(…)`
    vec = None
    for st in fn.body:
        if isinstance(st, ast.Assign) and isinstance(st.targets[0], ast.Tuple) and isinstance(st.value, ast.Call) \
                and _name(st.value.func, "_compute_eigen") and len(st.targets[0].elts) == 2:
            vec = st.targets[0].elts[1].id
    if vec is None or len(A.get("eigenfunctions", [])) != 1:
        raise Shape("eigenvalues, eigenvectors = _compute_eigen(…); eigenfunctions = …")
    e, tr = _strip_T(A["eigenfunctions"][0])
    ops = _matmul_chain(e)
    if len(ops) != 2:
        raise Shape("eigenfunctions: a product of two factors expected")
    a, ta = _strip_T(ops[0])
    b, tb = _strip_T(ops[1])
    if kind(a) and _name(b, vec) and not ta and not tb:
        out["backDiag"], out["backForm"] = kind(a), ".diagMatT" if tr else ".diagMat"
    elif _name(a, vec) and kind(b) and not tb and not tr:
        out["backDiag"], out["backForm"] = kind(b), ".matTDiag" if ta else ".matDiag"
    else:
        raise Shape(f"eigenfunctions = {ast.unparse(A['eigenfunctions'][0])}")
    return out


def _fit_inner_product(fn):
    _skeleton(fn, ["Assign"] * 8 + ["Return"])
    A = _assigns(fn.body)
    out = {}
    ef = A.get("eigenfunctions", [])
    if len(ef) != 2:
        raise Shape("two assignments to eigenfunctions expected")
    v = ef[0]
    if not (isinstance(v, ast.BinOp) and isinstance(v.op, ast.Div)):
        raise Shape("eigenfunctions = … / …")
    ops = _matmul_chain(v.left)
    if len(ops) != 2 or not _name(ops[1], "eigenvectors"):
        raise Shape("values(.T) @ eigenvectors expected")
    base, out["gramValuesT"] = _strip_T(ops[0])
    chain = _attr_chain(base)
    if chain == "data._data_inpro.values":
        out["gramInpro"] = True
    elif chain == "data.values":
        out["gramInpro"] = False
    else:
        raise Shape(f"curves {ast.unparse(base)}")
    out["gramDivPow"] = _pow(v.right, lambda e: _name(e, "eigenvalues"))
    second = ef[1]
    if not (isinstance(second, ast.Call) and len(second.args) == 2):
        raise Shape("DenseFunctionalData(argvals, eigenfunctions[.T])")
    e2, out["gramResultT"] = _strip_T(second.args[1])
    if not _name(e2, "eigenfunctions"):
        raise Shape("DenseFunctionalData(…, eigenfunctions.T)")
    ev = None
    for st in fn.body:
        if isinstance(st, ast.Assign) and isinstance(st.targets[0], ast.Subscript) and isinstance(st.targets[0].slice, ast.Constant) \
                and st.targets[0].slice.value == "eigenvalues":
            ev = st.value
    if not (isinstance(ev, ast.BinOp) and isinstance(ev.op, ast.Div) and _name(ev.left, "eigenvalues")):
        raise Shape("results['eigenvalues'] = eigenvalues / …")
    out["gramEigShift"] = _n_obs_shift(ev.right)
    return out


def _n_obs_shift(n):
    """`<something>.n_obs` -> 0, `(<something>.n_obs - d)` -> d."""
    if isinstance(n, ast.Attribute) and n.attr == "n_obs":
        return 0
    if isinstance(n, ast.BinOp) and isinstance(n.op, ast.Sub) and isinstance(n.left, ast.Attribute) and n.left.attr == "n_obs":
        d = _num(n.right)
        if d.denominator == 1 and d >= 0:
            return int(d)
    raise Shape(f"n_obs [- d] expected: {ast.unparse(n)}")


def _compute_covariance(fn):
    if [type(b).__name__ for b in fn.body[1:]] not in (["Assign", "Return"], ["Return"]):
        raise Shape("_compute_covariance: statements")
    A = _assigns(fn.body)
    ret = [st.value for st in fn.body if isinstance(st, ast.Return)]
    if len(ret) != 1:
        raise Shape("_compute_covariance: return")
    ops = _matmul_chain(ret[0])
    # inline single-use temporaries
    flat = []
    for e in ops:
        if isinstance(e, ast.Name) and e.id in A and e.id not in ("eigenfunctions", "eigenvalues"):
            flat += _matmul_chain(A[e.id][-1])
        else:
            flat.append(e)
    if len(flat) != 3:
        raise Shape(f"Mercer sum: three factors expected, got {[ast.unparse(e) for e in flat]}")
    l, lt = _strip_T(flat[0])
    r, rt = _strip_T(flat[2])
    if not (_name(l, "eigenfunctions") and _name(r, "eigenfunctions") and _np(flat[1], "diag") and len(flat[1].args) == 1):
        raise Shape("transpose(Φ) @ diag(λ) @ Φ expected")
    return dict(mercerLeftT=lt, mercerDiagPow=_pow(flat[1].args[0], lambda e: _name(e, "eigenvalues")), mercerRightPlain=not rt)


# --------------------------------------------------------------------------
# transform / inverse_transform
# --------------------------------------------------------------------------

def _transform(fn):
    out = {}
    branch = [st for st in fn.body if isinstance(st, ast.If) and isinstance(st.test, ast.Compare) and _name(st.test.left, "data")
              and isinstance(st.test.ops[0], ast.Is) and isinstance(st.test.comparators[0], ast.Constant)
              and st.test.comparators[0].value is None and st.orelse]
    if len(branch) != 1:
        raise Shape("if data is None: … else: …")
    body = branch[0].orelse
    cen = [st.value for st in body if isinstance(st, ast.Assign) and _name(st.targets[0], "data_new")]
    if len(cen) != 1 or not (isinstance(cen[0], ast.Call) and _attr_chain(cen[0].func) == "data.center"):
        raise Shape("data_new = data.center(…)")
    kw = {k.arg: k.value for k in cen[0].keywords}
    out["centerWithMean"] = _attr_chain(kw.get("mean")) == "self._mean" if "mean" in kw else False
    norm = [st for st in body if isinstance(st, ast.If) and _attr_chain(st.test) == "self.normalize"]
    if len(norm) != 1 or len(norm[0].body) != 1 or not isinstance(norm[0].body[0], ast.Assign):
        raise Shape("if self.normalize: data_new, _ = ….rescale(…)")
    call = norm[0].body[0].value
    if not (isinstance(call, ast.Call) and isinstance(call.func, ast.Attribute) and call.func.attr == "rescale"):
        raise Shape("….rescale(…)")
    who = _attr_chain(call.func.value)
    if who not in ("data", "data_new"):
        raise Shape(f"rescale of {who}")
    out["rescaleCentred"] = who == "data_new"
    kw = {k.arg: k.value for k in call.keywords}
    out["rescaleWeights"] = _attr_chain(kw.get("weights")) == "self.weights" if "weights" in kw else False
    return out


def _rescale(fn):
    A = _assigns(fn.body)
    v = A.get("new_data", [])
    if len(v) != 1 or not (isinstance(v[0], ast.BinOp) and isinstance(v[0].op, ast.Div) and _name(v[0].left, "self")):
        raise Shape("new_data = self / …")
    return dict(rescaleDivPow=_pow(v[0].right, lambda e: _name(e, "weights")))


def _numint(fn):
    _skeleton(fn, ["Assign", "Assign", "Assign", "For", "Return"])
    A = _assigns(fn.body)
    out = {}
    ax = A.get("axis", [])
    if len(ax) != 1:
        raise Shape("axis = …")
    a = ax[0]
    rev = False
    if isinstance(a, ast.Subscript) and isinstance(a.slice, ast.Slice) and a.slice.step is not None and _num(a.slice.step) == -1 \
            and a.slice.lower is None and a.slice.upper is None:
        a, rev = a.value, True
    if isinstance(a, ast.ListComp) and len(a.generators) == 1 and isinstance(a.elt, ast.Name) \
            and _name(a.generators[0].target, a.elt.id) and not a.generators[0].ifs:
        a = a.generators[0].iter
    elif isinstance(a, ast.Call) and _name(a.func, "list") and len(a.args) == 1:
        a = a.args[0]
    if not (isinstance(a, ast.Call) and _attr_chain(a.func) == "data.argvals.values" and not a.args):
        raise Shape("axis: the values of data.argvals, in order, expected")
    out["numintAxesReversed"] = rev
    tmp = A.get("temp", [])
    if len(tmp) != 1 or not (isinstance(tmp[0], ast.ListComp) and len(tmp[0].generators) == 1
                             and _attr_chain(tmp[0].generators[0].iter) == "data.values"):
        raise Shape("temp = [… for obs in data.values]")
    obs = tmp[0].generators[0].target.id
    e = tmp[0].elt
    out["numintProduct"] = (isinstance(e, ast.BinOp) and isinstance(e.op, ast.Mult)
                            and {ast.unparse(e.left), ast.unparse(e.right)} == {obs, "eigenfunctions.values"})
    calls = [n for n in ast.walk(fn) if isinstance(n, ast.Call) and _name(n.func, "_integrate")]
    if len(calls) != 1:
        raise Shape("one call of _integrate expected")
    c = calls[0]
    if not (len(c.args) == 2 and isinstance(c.args[1], ast.Starred) and _name(c.args[1].value, "axis")):
        raise Shape("_integrate(curve, *axis, …)")
    kw = {k.arg: k.value for k in c.keywords}
    out["numintMethodForwarded"] = _name(kw.get("method"), "method") if "method" in kw else False
    return out


def _innpro(fn):
    _skeleton(fn, ["Return"])
    ret = [st.value for st in fn.body if isinstance(st, ast.Return)]
    if len(ret) != 1 or not (isinstance(ret[0], ast.BinOp) and isinstance(ret[0].op, ast.Mult)):
        raise Shape("return … * …")
    a, b = ret[0].left, ret[0].right
    if _name(a, "eigenvectors"):
        a, b = b, a
    if not _name(b, "eigenvectors"):
        raise Shape("… * eigenvectors")
    # a = (radicand) ^ p
    if _np(a, "sqrt") and len(a.args) == 1:
        rad, p = a.args[0], Fraction(1, 2)
    elif isinstance(a, ast.BinOp) and isinstance(a.op, ast.Pow):
        rad, p = a.left, _num(a.right)
    else:
        rad, p = a, Fraction(1)
    out = dict(innproPow=p, innproTimesN=False, innproShift=0)
    if _name(rad, "eigenvalues"):
        return out
    if isinstance(rad, ast.BinOp) and isinstance(rad.op, ast.Mult):
        x, y = rad.left, rad.right
        if _name(x, "eigenvalues"):
            x, y = y, x
        if _name(y, "eigenvalues"):
            out["innproTimesN"], out["innproShift"] = True, _n_obs_shift(x)
            return out
    raise Shape(f"radicand {ast.unparse(rad)}")


def _inverse(fn):
    _skeleton(fn, ["Assign", "Return"])
    out = {}
    es = [n for n in ast.walk(fn) if _np(n, "einsum")]
    if len(es) != 1 or not (isinstance(es[0].args[0], ast.Constant) and isinstance(es[0].args[0].value, str)):
        raise Shape("np.einsum('…', scores, eigenfunctions)")
    if not (len(es[0].args) == 3 and _name(es[0].args[1], "scores") and _attr_chain(es[0].args[2]) == "self.eigenfunctions.values"):
        raise Shape("einsum operands")
    out["einsum"] = es[0].args[0].value.replace(" ", "")
    dv = [n for n in ast.walk(fn) if isinstance(n, ast.Call) and _name(n.func, "DenseValues") and len(n.args) == 1]
    if len(dv) != 1:
        raise Shape("DenseValues(…)")
    e = dv[0].args[0]
    out["invAddMean"] = False
    if isinstance(e, ast.BinOp) and isinstance(e.op, ast.Add):
        l, r = e.left, e.right
        if _attr_chain(l) == "self.mean.values":
            l, r = r, l
        if _attr_chain(r) != "self.mean.values":
            raise Shape("… + self.mean.values")
        out["invAddMean"], e = True, l
    if not (isinstance(e, ast.BinOp) and isinstance(e.op, ast.Mult)):
        raise Shape("scale * values")
    sc, v = e.left, e.right
    if _name(sc, "values"):
        sc, v = v, sc
    if not _name(v, "values"):
        raise Shape("scale * values")
    is_w = lambda x: _attr_chain(x) == "self.weights"  # noqa: E731
    if isinstance(sc, ast.IfExp):
        if _attr_chain(sc.test) != "self.normalize":
            raise Shape("… if self.normalize else …")
        out["invGuardNormalize"], out["invPow"], out["invElse"] = True, _pow(sc.body, is_w), _num(sc.orelse)
    else:
        out["invGuardNormalize"], out["invPow"], out["invElse"] = False, _pow(sc, is_w), Fraction(1)
    return out


# --------------------------------------------------------------------------

def parse(repo):
    import os

    def tree(*p):
        return ast.parse(open(os.path.join(repo, "FDApy", *p)).read())

    u = tree("preprocessing", "dim_reduction", "ufpca.py")
    fit = {}
    fit.update(_fit_covariance(_func(u, "_fit_covariance")))
    fit.update(_fit_inner_product(_func(u, "_fit_inner_product")))
    fit.update(_compute_covariance(_func(tree("misc", "utils.py"), "_compute_covariance")))
    tr = {}
    tr.update(_transform(_func(u, "transform", "UFPCA")))
    tr.update(_rescale(_func(tree("representation", "functional_data.py"), "rescale", "DenseFunctionalData")))
    tr.update(_numint(_func(u, "_transform_numerical_integration_dense")))
    tr.update(_innpro(_func(u, "_transform_innpro")))
    tr.update(_inverse(_func(u, "inverse_transform", "UFPCA")))
    return fit, tr


def _lean(v):
    if isinstance(v, bool):
        return "true" if v else "false"
    if isinstance(v, Fraction):
        return f"(({v.numerator} : ℚ) / {v.denominator})"
    if isinstance(v, int):
        return str(v)
    if isinstance(v, str) and v.startswith("."):
        return v
    if isinstance(v, str):
        return '"' + v.replace("\\", "\\\\").replace('"', '\\"') + '"'
    raise Shape(f"value {v!r}")


FIT_FIELDS = ["sqrtPow", "invPow", "symLeft", "symRight", "backDiag", "backForm", "quadTrapz", "gramValuesT", "gramInpro",
              "gramDivPow", "gramResultT", "gramEigShift", "mercerLeftT", "mercerDiagPow", "mercerRightPlain"]
TR_FIELDS = ["centerWithMean", "rescaleCentred", "rescaleWeights", "rescaleDivPow", "numintProduct", "numintAxesReversed",
             "numintMethodForwarded", "innproPow", "innproTimesN", "innproShift", "einsum", "invPow", "invGuardNormalize",
             "invElse", "invAddMean"]


def lean_source(repo):
    fit, tr = parse(repo)
    f = ", ".join(f"{k} := {_lean(fit[k])}" for k in FIT_FIELDS)
    t = ", ".join(f"{k} := {_lean(tr[k])}" for k in TR_FIELDS)
    return f"""/- GENERATED by harness/c02_translate.py from FDApy/preprocessing/dim_reduction/ufpca.py, FDApy/misc/utils.py (_compute_covariance), FDApy/representation/functional_data.py (DenseFunctionalData.rescale) — do not edit. -/
import FDAModel.FPCA
namespace FDA.Generated
/-- `_fit_covariance`, `_fit_inner_product`, `_compute_covariance` as written. -/
def ufpcaFit : FDA.FPCA.FitConsts :=
  {{ {f} }}
/-- `UFPCA.transform`, `DenseFunctionalData.rescale`, `_transform_numerical_integration_dense`, `_transform_innpro`, `UFPCA.inverse_transform` as written. -/
def ufpcaTransform : FDA.FPCA.TransformConsts :=
  {{ {t} }}
end FDA.Generated
"""


if __name__ == "__main__":
    import sys

    print(lean_source(sys.argv[1] if len(sys.argv) > 1 else "/repo"))
