"""C20 — noise and sparsification respect the source data, even on failure (fault sequences).

Three kinds of cases:

* ``scripted``  exact dyadic data put into a `Simulation` object, scripted random sources (the
  simulator's ``random_state`` or the global ``np.random`` functions are replaced by deterministic
  sources fed from the case), a history of operations; the last operation is run once without a
  fault and then once for EVERY fault point (each internal call of `simulation.py` made to fail in
  turn, before it starts and after it returned).  What is compared with the Lean model
  (`Drivers/C20.lean`, the definitions of `FDAModel/Simulation.lean`) is BEHAVIOUR only: the outcome and
  the three datasets after every fault-free operation (exact), and for every fault point the
  implementation has — whatever their number and names — the outcome (exception class, datasets after
  the failure, every step of the continued history) must be one of the outcomes the model allows for
  that operation.  The internal call trace and the number of fault points are not compared.
* ``real``      the genuine simulators (KarhunenLoeve / Brownian) with their genuine generators;
  call-level fault enumeration without a model, oracle only.
* ``line``      the same, but the exception is raised at the k-th executed *line* of
  `simulation.py` (or of any FDApy file) through ``sys.settrace`` — "raises at any point".  Only
  lines holding a call are fault points (a bare `try:` line or the attribute assignment of the
  `finally` block cannot raise synchronously).

The oracle is the property's own predicate on the implementation (never the model).
"""
from __future__ import annotations

import math
import os
import sys
from fractions import Fraction

import numpy as np

import common
from common import F, Rng, digest, err_class, rs

import warnings

warnings.simplefilter("ignore")

PROP = "C20"
MODULES = ["FDAProofs.Props.C20"]
DRIVER = "Drivers/C20.lean"
PARALLEL = True
RULE = (
    "seeded histories over {add_noise, sparsify, add_noise_and_sparsify} on uni-/multivariate 1-D, 2-D and mixed "
    "datasets (1..6 points per dimension, 1..4 curves, 1..3 components), variances r^2 with r in {0, dyadic}, "
    "percentages/epsilons in [0,1] incl. 0 and 1, scripted draws; the last operation is run without fault and with "
    "every fault point in turn (exhaustive over the fault points of the case); real-generator cases on the genuine "
    "simulators with call-level and line-level fault injection; a case is non-trivial when its last operation has "
    ">= 1 fault point; distinct by content hash"
)
PARTIAL = [
    "object identity (`sim.data is` the original object) and absence of in-place writes are observed on the implementation, not proved",
    "the bit-streams of NumPy's generators are a parameter: scripted sources stand in for them in the model-compared cases",
    "line-level fault injection (sys.settrace) is oracle-only: no model prediction of the intermediate noisy/sparse attributes",
]
EXHAUSTIVE = {"quick": False, "thorough": False}
TRUSTED_EXTRA = [
    "harness/c20_translate.py: syntax-only, statement-by-statement translation of Simulation.add_noise / sparsify / add_noise_and_sparsify and of "
    "the formulas of _add_noise_univariate_data / _sparsify_univariate_data into lean/FDAModel/Generated/SimBodies.lean "
    "(statement language lean/FDAModel/Core/PySim.lean); C20.generated_*_eq_model re-prove on every run that the bodies are the model's operations",
]
GEN_SIMBODIES = os.path.join(common.LEAN_DIR, "FDAModel", "Generated", "SimBodies.lean")
TRANSLATOR = {"note": None}


def translate():
    """Regenerate Generated/SimBodies.lean from the method bodies as they are now.  An unrecognised shape is NOT an
    alarm: the reference translation kept beside the translator is used and the evidence says that the tie rests on the
    correspondence only."""
    import c20_translate

    try:
        src = c20_translate.lean_source(common.REPO)
        TRANSLATOR["note"] = ("translator: bodies of add_noise / sparsify / add_noise_and_sparsify and the noise / sparsification formulas regenerated from "
                              "the source and re-proved equal to the model (C20.generated_add_noise_eq_model / _sparsify_ / _combined_, generated_noise_formula, "
                              "generated_sparsify_formulas)")
    except (ValueError, SyntaxError, IndexError, AttributeError, KeyError, TypeError) as e:
        TRANSLATOR["note"] = f"translator: shape of simulation.py not recognised, tie rests on the correspondence only ({str(e)[:160]})"
        print("note:", TRANSLATOR["note"])
        src = open(os.path.join(os.path.dirname(os.path.abspath(__file__)), "c20_simbodies_reference.lean")).read()
    except OSError as e:
        raise common.InfraError(f"translator: cannot read the sources: {e}")
    if not os.path.exists(GEN_SIMBODIES) or open(GEN_SIMBODIES).read() != src:
        with open(GEN_SIMBODIES, "w") as fh:
            fh.write(src)

SIMFILE = "simulation/simulation.py"


_RAISABLE = {}


def _raisable_lines(filename):
    """Lines of a source file that hold an operation able to raise synchronously: the lines of
    every simple statement (or compound-statement header) that contains a call.  A bare `try:` /
    `finally:` / `else:` line or a plain name-to-attribute assignment cannot raise."""
    import ast

    if filename in _RAISABLE:
        return _RAISABLE[filename]
    lines = set()
    try:
        tree = ast.parse(open(filename).read())
    except (OSError, SyntaxError):
        _RAISABLE[filename] = None
        return None
    for node in ast.walk(tree):
        if not isinstance(node, ast.stmt):
            continue
        if isinstance(node, (ast.FunctionDef, ast.AsyncFunctionDef, ast.ClassDef, ast.Try)):
            continue
        heads = []
        if isinstance(node, (ast.If, ast.While)):
            heads = [node.test]
        elif isinstance(node, (ast.For, ast.AsyncFor)):
            heads = [node.iter]
        elif isinstance(node, (ast.With, ast.AsyncWith)):
            heads = [i.context_expr for i in node.items]
        else:
            heads = [node]
        for h in heads:
            if any(isinstance(x, (ast.Call, ast.Raise)) for x in ast.walk(h)) or isinstance(h, ast.Raise):
                lines.update(range(h.lineno, (h.end_lineno or h.lineno) + 1))
    _RAISABLE[filename] = lines
    return lines


class Injected(Exception):
    """The fault raised by the schedule."""


# --------------------------------------------------------------------------
# canonical text of a simulator state (same syntax as the Lean driver prints)
# --------------------------------------------------------------------------

def _q(x):
    x = float(x)
    if math.isnan(x):
        return "nan"
    if math.isinf(x):
        return "inf" if x > 0 else "-inf"
    return rs(F(x))


def _vec(v):
    v = list(v)
    return "-" if not v else ",".join(_q(x) for x in v)


def _mat(m):
    m = list(m)
    return "-" if not m else ";".join(_vec(r) for r in m)


def _grid_sig(argvals):
    """the grid WITH its dimension names, in their order (a grid under other names is another grid)"""
    return "|".join(f"{k}=" + _vec(np.asarray(argvals[k], dtype=float).ravel().tolist()) for k in argvals.keys())


def _grid_of(argvals):
    return [np.asarray(argvals[k], dtype=float).ravel().tolist() for k in argvals.keys()]


def _comp_text(fd):
    from FDApy.representation.functional_data import DenseFunctionalData, IrregularFunctionalData

    if isinstance(fd, DenseFunctionalData):
        vals = np.asarray(fd.values, dtype=float)
        return _mat(_grid_of(fd.argvals)) + "@" + _mat(vals.reshape(vals.shape[0], -1).tolist())
    if isinstance(fd, IrregularFunctionalData):
        keys = list(fd.values.keys())
        grids = [_mat(_grid_of(fd.argvals[k])) for k in keys]
        g = grids[0] if grids and all(x == grids[0] for x in grids) else "GRIDS-DIFFER:" + "/".join(grids)
        if keys != list(range(len(keys))):
            g = f"LABELS{keys}:" + g
        return g + "@" + _mat([np.asarray(fd.values[k], dtype=float).ravel().tolist() for k in keys])
    return "?" + type(fd).__name__


def _data_text(d):
    from FDApy.representation.functional_data import MultivariateFunctionalData

    if d is None:
        return "none"
    if isinstance(d, MultivariateFunctionalData):
        return "M~" + "|".join(_comp_text(c) for c in d.data)
    return "U~" + _comp_text(d)


def _state_text(sim):
    return "#".join(_data_text(getattr(sim, a, None)) for a in ("data", "noisy_data", "sparse_data"))


# --------------------------------------------------------------------------
# instrumentation: ticker, scripted random sources, wrappers (all from outside)
# --------------------------------------------------------------------------

class Ticker:
    def __init__(self, fail_at=None):
        self.fail_at = fail_at
        self.n = 0
        self.trace = []

    def tick(self, label):
        self.trace.append(label)
        if self.fail_at is not None and self.n == self.fail_at:
            raise Injected(label)
        self.n += 1


def _wrap_fn(fn, label, ticker):
    def w(*a, **k):
        ticker.tick(label)
        r = fn(*a, **k)
        ticker.tick(label + ":ret")
        return r

    return w


def _class_proxy(orig, label, ticker):
    """Stand-in for a class used by `simulation.py`: calling it ticks, `isinstance` still works."""

    class Meta(type):
        def __instancecheck__(cls, obj):
            return isinstance(obj, orig)

        def __subclasscheck__(cls, sub):
            return issubclass(sub, orig)

        def __call__(cls, *a, **k):
            ticker.tick(label)
            r = orig(*a, **k)
            ticker.tick(label + ":ret")
            return r

    return Meta(orig.__name__, (), {})


class ScriptSource:
    """Deterministic stand-in for `np.random.Generator` / the legacy global functions.

    normal(0, 1, shape)            -> next scripted array (shape must match)
    uniform(lo, hi, n)             -> lo + (hi - lo) * u_i
    choice(pop, size, p=…)         -> inverse cdf on scripted uniforms (NumPy's algorithm)
    choice(pop, size=2[, replace]) -> draws a < n, b < n-1; replace=False: (a, b + [b >= a]);
                                      replace=True (default): (a, b) as they come; population too
                                      small for replace=False -> ValueError like NumPy
    """

    def __init__(self):
        self.Z = []
        self.SS = []
        self.comp = 0
        self.curve = 0

    def load(self, Z, SS):
        self.Z = [np.array([[float(F(x)) for x in r] for r in m], dtype=float) for m in Z]
        self.SS = SS
        self.zi = 0
        self.comp = -1
        self.curve = -1

    def normal(self, loc=0.0, scale=1.0, size=None):
        if self.zi >= len(self.Z):
            raise RuntimeError("script: no more normal draws")
        z = self.Z[self.zi]
        self.zi += 1
        size = tuple(int(s) for s in (size if isinstance(size, (tuple, list)) else (size,)))
        if z.shape[0] != size[0] or z.size != int(np.prod(size)):
            raise RuntimeError(f"script: normal shape {size} vs scripted {z.shape}")
        return loc + scale * z.reshape(size)

    def uniform(self, low=0.0, high=1.0, size=None):
        self.comp += 1
        self.curve = -1
        if self.comp >= len(self.SS) or len(self.SS[self.comp]) != int(size):
            raise RuntimeError("script: uniform request does not fit")
        u = np.array([float(F(c["u"])) for c in self.SS[self.comp]], dtype=float)
        return low + (high - low) * u

    def choice(self, a, size=None, replace=True, p=None):
        a = np.asarray(a)
        if p is not None:
            self.curve += 1
            cs = self.SS[self.comp][self.curve]
            u = np.array([float(F(x)) for x in cs["m"]], dtype=float)
            if u.size != int(size):
                raise RuntimeError("script: mask request does not fit")
            cdf = np.cumsum(np.asarray(p, dtype=float))
            return a[np.searchsorted(cdf, u, side="right")]
        cs = self.SS[self.comp][self.curve]
        n = a.size
        if not replace and int(size) > n:
            raise ValueError("Cannot take a larger sample than population when replace is False")
        i, j = int(cs["a"]), int(cs["b"])
        if not replace:
            j = j if j < i else j + 1
        return a[[i, j]]


class Instrument:
    """Install the wrappers (fault points) and the random sources around one operation."""

    NAMES_FN = ["_add_noise_univariate_data", "_sparsify_univariate_data"]
    NAMES_CLS = ["DenseArgvals", "DenseValues", "DenseFunctionalData", "IrregularArgvals", "IrregularValues",
                 "IrregularFunctionalData", "MultivariateFunctionalData"]

    def __init__(self, sim, ticker, source=None, use_global=False, rec=None):
        self.sim, self.ticker, self.source, self.use_global, self.rec = sim, ticker, source, use_global, rec
        self.saved = []

    def _set(self, obj, name, val, inst=False):
        if inst:
            self.saved.append((obj, name, None, True))
            obj.__dict__[name] = val
        else:
            self.saved.append((obj, name, getattr(obj, name), False))
            setattr(obj, name, val)

    def __enter__(self):
        import FDApy.simulation.simulation as S

        t = self.ticker
        for n in self.NAMES_FN:
            self._set(S, n, _wrap_fn(getattr(S, n), n, t))
        for n in self.NAMES_CLS:
            self._set(S, n, _class_proxy(getattr(S, n), n, t))
        sim = self.sim
        for n in ("_check_data", "_check_dimension", "add_noise", "sparsify"):
            self._set(sim, n, _wrap_fn(getattr(sim, n), n, t), inst=True)
        src = self.source
        if src is not None or self.rec is not None:
            gen = src if src is not None else (sim.random_state if sim.random_state is not None else np.random)
            rec = self.rec

            def mk(label, fn):
                def w(*a, **k):
                    t.tick(label)
                    r = fn(*a, **k)
                    if rec is not None:
                        rec.append((label, np.array(r, copy=True)))
                    t.tick(label + ":ret")
                    return r

                return w

            fns = dict(normal=mk("rnorm", gen.normal), uniform=mk("runif", gen.uniform), choice=mk("rchoice", gen.choice))
            if self.use_global:
                self._set(sim, "random_state", None)
                for k, v in fns.items():
                    self._set(np.random, k, v)
            else:
                proxy = type("RandomStateProxy", (), {k: staticmethod(v) for k, v in fns.items()})()
                self._set(sim, "random_state", proxy)
        return self

    def __exit__(self, *exc):
        for obj, name, old, inst in reversed(self.saved):
            if inst:
                obj.__dict__.pop(name, None)
            else:
                setattr(obj, name, old)
        return False


# --------------------------------------------------------------------------
# generation
# --------------------------------------------------------------------------

def _gen_comp(rng: Rng, n_obs, two_d=None):
    if two_d is None:
        two_d = rng.random() < 0.25
    dims = [rng.randint(1, 3), rng.randint(2, 3)] if two_d else [rng.choice([1, 2, 2, 3, 4, 5, 6])]
    grid = [[rs(x) for x in rng.grid(d, lo=rng.choice([0, -1, 10]), scale=rng.choice([1, 4]))] for d in dims]
    n = int(np.prod(dims))
    kind = rng.choice(["rand", "rand", "const", "zeros"])
    if kind == "zeros":
        vals = [["0"] * n for _ in range(n_obs)]
    elif kind == "const":
        vals = [[rs(rng.dyadic(-4, 4, 2))] * n for _ in range(n_obs)]
    else:
        vals = [[rs(x) for x in rng.dyadics(n, -8, 8, 3)] for _ in range(n_obs)]
    # user-chosen dimension names (not `input_dim_k`; in 2-D not in sorted order, or the canonical names swapped)
    names = rng.choice([None, None, ["time"], ["t"]]) if not two_d else rng.choice([None, ["y", "x"], ["input_dim_1", "input_dim_0"], ["time", "space"]])
    out = dict(grid=grid, vals=vals)
    if names:
        out["names"] = names
    return out


def _unit(rng: Rng, bits=4, edge=0.3):
    if rng.random() < edge:
        return rng.choice([Fraction(0), Fraction(1), Fraction(0), Fraction(1, 2)])
    return Fraction(rng.randint(0, 2**bits), 2**bits)


def _open_unit(rng: Rng, bits=5):
    return Fraction(rng.randint(0, 2**bits - 1), 2**bits)


def _gen_scripts(rng: Rng, comps):
    Z, SS = [], []
    for c in comps:
        n_obs, n = len(c["vals"]), len(c["vals"][0]) if c["vals"] else 0
        zc = [[rs(x) for x in rng.dyadics(n, -3, 3, 3)] for _ in range(n_obs)]
        # every script also contains draws of large and tiny magnitude and an exact zero (±5, ±10, 1000, 2^-30, 0)
        special = [Fraction(5), Fraction(-10), Fraction(1000), Fraction(1, 2**30), Fraction(0), Fraction(-5), Fraction(10)]
        k0 = rng.randint(0, len(special) - 1)
        pos = 0
        for row in zc:
            for j in range(len(row)):
                if pos < len(special) and (pos < 3 or rng.random() < 0.5):
                    row[j] = rs(special[(k0 + pos) % len(special)])
                pos += 1
        Z.append(zc)
        curves = []
        for _ in range(n_obs):
            sparse_draws = rng.random() < 0.4
            m = [rs(_open_unit(rng) if not sparse_draws else rng.choice([Fraction(0), Fraction(1, 32), _open_unit(rng)])) for _ in range(n)]
            a = rng.randint(0, max(n - 1, 0))
            b = rng.randint(0, max(n - 2, 0))
            if n >= 2 and rng.random() < 0.5:
                b = min(a, n - 2)  # the draw that collides when sampled with replacement
            curves.append(dict(u=rs(_open_unit(rng)), m=m, a=a, b=b))
        SS.append(curves)
    return Z, SS


def _gen_op(rng: Rng, comps, op=None, fail=None):
    op = op or rng.choice(["N", "S", "C", "C"])
    r = rng.choice([Fraction(0), Fraction(0), Fraction(1, 2), Fraction(1), Fraction(3, 4), Fraction(2)])
    p, e = _unit(rng), _unit(rng, edge=0.4)
    if rng.random() < 0.35:
        p = rng.choice([Fraction(0), Fraction(1, 16), Fraction(1, 8)])  # the fallback branch
    Z, SS = _gen_scripts(rng, comps)
    return dict(op=op, r=rs(r), p=rs(p), e=rs(e), fail=fail, Z=Z, SS=SS)


def _gen_scripted(rng: Rng):
    shape = rng.choice(["uni", "uni", "uni2d", "multi", "multi", "multi2d", "mixed", "none"])
    n_obs = rng.randint(1, 4)
    if shape == "none":
        data = None
        comps = [_gen_comp(rng, n_obs, False)]
    elif shape in ("uni", "uni2d"):
        comps = [_gen_comp(rng, n_obs, shape == "uni2d")]
        data = dict(multi=False, comps=comps)
    else:
        k = rng.randint(1, 3)
        if shape == "multi2d":
            comps = [_gen_comp(rng, n_obs, True) for _ in range(k)]
        elif shape == "mixed":
            comps = [_gen_comp(rng, n_obs, False), _gen_comp(rng, n_obs, True)]
            rng.shuffle(comps)
        else:
            comps = [_gen_comp(rng, n_obs, False) for _ in range(k)]
        data = dict(multi=True, comps=comps)
    ops = []
    for _ in range(rng.choice([0, 0, 1, 1, 2])):
        rng.choice([None, None, rng.randint(0, 40)])  # (kept for the stability of the case stream)
        # earlier operations run without fault: a positional fault index depends on the shape of the code;
        # failures inside a history are covered by the continued histories after every fault of the last op
        ops.append(_gen_op(rng, comps, fail=None))
    ops.append(_gen_op(rng, comps, op=rng.choice(["C", "C", "C", "S", "N"]), fail="all"))
    # the history CONTINUES after the last operation — after the fault-free run and after every failed run
    tail = [_gen_op(rng, comps, op=o, fail=None) for o in rng.choice([["S"], ["S"], ["N", "S"], ["C"], ["S", "C"], []])]
    return dict(kind="scripted", shape=shape, global_rng=rng.random() < 0.3, data=data, ops=ops, tail=tail)


SIM_KINDS = ["kl", "kl_named", "kl_2d_named", "kl_multi_named", "kl_multi", "kl_2d", "kl_mixed", "brownian", "brownian_geometric", "brownian_fractional", "datasets", "kl_1pt", "kl_2pt"]


def _gen_real(rng: Rng, kind):
    # every simulator kind x every operation (each kind may override an operation)
    sim = rng.choice(["kl", "kl", "kl_multi", "kl_2d", "kl_mixed", "brownian", "brownian_geometric", "brownian_geometric", "brownian_fractional",
                      "datasets", "kl_1pt", "kl_2pt"])
    return dict(kind=kind, sim=sim, seed=rng.choice([None, rng.randint(0, 10**6)]), n_obs=rng.randint(1, 5),
                m=rng.randint(3, 9), r2=rng.choice([0.0, 0.0, 0.25, 1.0, 2.5]),
                p=rng.choice([0.0, 0.0, 0.1, 0.5, 0.9, 1.0]), e=rng.choice([0.0, 0.05, 0.3, 1.0]),
                op=rng.choice(["C", "C", "C", "S", "N"]), scope=rng.choice(["sim", "fdapy"]), ks=rng.subseed(),
                gseed=rng.randint(0, 10**6))


def gen_cases(rng: Rng, tier):
    n_s, n_r, n_l = dict(quick=(170, 60, 50), thorough=(2500, 700, 600))[tier]
    for _ in range(n_s):
        yield _gen_scripted(rng)
    # every simulator kind x every operation, every run (a simulator class may override an operation):
    # positive variance so that the recorded draws are compared with noisy - data
    for i, sim in enumerate(SIM_KINDS):
        for j, op in enumerate(("N", "S", "C")):
            c = _gen_real(rng, "real")
            c.update(sim=sim, op=op, r2=(0.25, 1.0, 2.5)[(i + j) % 3], seed=(None if (i + j) % 4 == 0 else c["seed"] or 7), p=(0.5, 0.9, 0.1)[(i + j) % 3], grid="systematic")
            yield c
    for _ in range(n_r):
        yield _gen_real(rng, "real")
    for _ in range(n_l):
        c = _gen_real(rng, "line")
        c["n_faults"] = 40 if tier == "quick" else 150
        yield c


def search_cases(rng, tier):
    for _ in range(300 if tier == "quick" else 1500):
        c = _gen_scripted(rng)
        yield c
    for _ in range(200):
        yield _gen_real(rng, "real")


def witness_cases():
    return []


# --------------------------------------------------------------------------
# implementation side
# --------------------------------------------------------------------------

def _mk_dense(c):
    from FDApy.representation.argvals import DenseArgvals
    from FDApy.representation.functional_data import DenseFunctionalData
    from FDApy.representation.values import DenseValues

    dims = [len(g) for g in c["grid"]]
    names = c.get("names") or [f"input_dim_{k}" for k in range(len(c["grid"]))]
    arg = DenseArgvals({names[k]: np.array([float(F(x)) for x in g]) for k, g in enumerate(c["grid"])})
    vals = np.array([[float(F(x)) for x in r] for r in c["vals"]], dtype=float).reshape([len(c["vals"])] + dims)
    return DenseFunctionalData(arg, DenseValues(vals))


def _mk_data(d):
    from FDApy.representation.functional_data import MultivariateFunctionalData

    if d is None:
        return None
    comps = [_mk_dense(c) for c in d["comps"]]
    return MultivariateFunctionalData(comps) if d["multi"] else comps[0]


def _mk_sim():
    from FDApy.simulation.simulation import Simulation

    class _Sim(Simulation):
        def new(self, n_obs, n_clusters=1, argvals=None, **kwargs):  # pragma: no cover
            raise NotImplementedError

    return _Sim("verif", random_state=None)


def _call_op(sim, op):
    r2 = float(F(op["r"]) ** 2) if "r" in op else op["r2"]
    p, e = float(F(op["p"])) if isinstance(op["p"], str) else op["p"], float(F(op["e"])) if isinstance(op["e"], str) else op["e"]
    if op["op"] == "N":
        sim.add_noise(noise_variance=r2)
    elif op["op"] == "S":
        sim.sparsify(percentage=p, epsilon=e)
    else:
        type(sim).add_noise_and_sparsify(sim, noise_variance=r2, percentage=p, epsilon=e)


def _components(d):
    from FDApy.representation.functional_data import MultivariateFunctionalData

    if d is None:
        return []
    return list(d.data) if isinstance(d, MultivariateFunctionalData) else [d]


def _bits(a):
    return np.ascontiguousarray(np.asarray(a, dtype=float)).tobytes()


def _check_noise(viol, entry, data, noisy, r, Zs, exact):
    """noisy - data = r * draws, same grid, same shape; zero variance: bitwise the data."""
    cd, cn = _components(data), _components(noisy)
    if len(cd) != len(cn) or (type(data).__name__ != type(noisy).__name__):
        viol.append(dict(clause="noise_difference", entry=entry, msg=f"structure {type(data).__name__}/{len(cd)} vs {type(noisy).__name__}/{len(cn)}"))
        return
    for ci, (a, b) in enumerate(zip(cd, cn)):
        if _grid_sig(a.argvals) != _grid_sig(b.argvals) or not (a.argvals == b.argvals):
            viol.append(dict(clause="same_grid", entry=entry, msg=f"component {ci}: noisy curves are on another grid: {_grid_sig(b.argvals)[:90]} instead of {_grid_sig(a.argvals)[:90]}"))
        x, y = np.asarray(a.values, dtype=float), np.asarray(b.values, dtype=float)
        if x.shape != y.shape:
            viol.append(dict(clause="noise_difference", entry=entry, msg=f"component {ci}: shape {x.shape} vs {y.shape}"))
            continue
        if r == 0:
            if _bits(x) != _bits(y):
                viol.append(dict(clause="noise_zero_variance", entry=entry, msg=f"component {ci}: zero variance but noisy != data"))
            continue
        if Zs is None or ci >= len(Zs):
            continue
        z = np.asarray(Zs[ci], dtype=float).reshape(x.shape)
        fin = np.isfinite(x)  # a basis evaluated on a one-point grid gives NaN curves: nothing to compare there
        x, y, z = x[fin], y[fin], z[fin]
        if x.size == 0:
            continue
        diff = y - x
        tol = 0 if exact else 1e-12 * (np.abs(x).max(initial=0.0) + abs(r) * np.abs(z).max(initial=0.0) + 1e-300)
        if not np.all(np.abs(diff - r * z) <= tol):
            j = int(np.argmax(np.abs(diff - r * z)))
            viol.append(dict(clause="noise_difference", entry=entry,
                             msg=f"component {ci}: noisy - data = {diff.ravel()[j]!r} but std*draw = {(r*z).ravel()[j]!r} (flat index {j})"))


def _check_sparse(viol, entry, source, sparse):
    """kept values untouched, others missing (NaN), >= 2 kept per curve, grid = source grid."""
    from FDApy.representation.functional_data import IrregularFunctionalData

    cs, cp = _components(source), _components(sparse)
    if len(cs) != len(cp) or (type(source).__name__ == "MultivariateFunctionalData") != (type(sparse).__name__ == "MultivariateFunctionalData"):
        viol.append(dict(clause="sparsify_subset", entry=entry, msg="component structure differs from the source"))
        return
    for ci, (a, b) in enumerate(zip(cs, cp)):
        if not isinstance(b, IrregularFunctionalData):
            viol.append(dict(clause="sparsify_subset", entry=entry, msg=f"component {ci} is {type(b).__name__}"))
            continue
        x = np.asarray(a.values, dtype=float)
        g = _grid_sig(a.argvals)
        if len(b.values) != x.shape[0]:
            viol.append(dict(clause="sparsify_subset", entry=entry, msg=f"component {ci}: {len(b.values)} curves vs {x.shape[0]}"))
            continue
        for i, key in enumerate(b.values.keys()):
            v = np.asarray(b.values[key], dtype=float)
            if v.shape != x[i].shape:
                viol.append(dict(clause="sparsify_subset", entry=entry, msg=f"component {ci} curve {i}: shape {v.shape} vs {x[i].shape}"))
                continue
            keep = ~np.isnan(v)
            src_nan = np.isnan(x[i])
            if _bits(v[keep]) != _bits(x[i][keep]):
                viol.append(dict(clause="sparsify_subset", entry=entry, causes=["kept_value_changed"],
                                 msg=f"component {ci} curve {i}: a kept value differs from the source"))
            nk = int((keep | src_nan).sum()) if src_nan.any() else int(keep.sum())
            if v.size >= 2 and nk < 2:
                viol.append(dict(clause="at_least_two", entry=entry, causes=["kept<2"],
                                 msg=f"component {ci} curve {i}: only {nk} of {v.size} samples kept"))
            if _grid_sig(b.argvals[key]) != g:
                viol.append(dict(clause="sparsify_subset", entry=entry, msg=f"component {ci} curve {i}: grid differs from the source grid"))


def _other_attrs(sim):
    """Every attribute of the simulator except the three datasets (and the instrumentation): identity for
    objects, value for plain scalars.  A failed call must leave them as they were."""
    out = {}
    for k, v in vars(sim).items():
        if k in ("data", "noisy_data", "sparse_data", "random_state", "_check_data", "_check_dimension", "add_noise", "sparsify"):
            continue
        out[k] = v if isinstance(v, (int, float, str, bool, type(None))) else ("obj", id(v))
    return out


class _Obs:
    """Observe one simulator around one run and evaluate the property's predicates."""

    def __init__(self, sim):
        self.sim = sim
        self.attrs0 = _other_attrs(sim)
        self.d0 = sim.data
        self.d0_text = _data_text(sim.data)
        self.n0 = getattr(sim, "noisy_data", None)
        self.s0 = getattr(sim, "sparse_data", None)
        self.n0_text = _data_text(self.n0)

    def after(self, viol, op, status, label, r, Zs, exact):
        sim = self.sim
        entry = {"N": "Simulation.add_noise", "S": "Simulation.sparsify", "C": "Simulation.add_noise_and_sparsify"}[op]
        how = "success" if status == "ok" else f"{status} at {label}"
        causes = ["success"] if status == "ok" else (["injected_fault"] if status == "error:Injected" else ["natural_failure"])
        if sim.data is not self.d0:
            what = "the noisy data" if (sim.data is getattr(sim, "noisy_data", None) and sim.data is not None) else "another object"
            viol.append(dict(clause="data_restored", entry=entry, causes=causes + ["identity"],
                             msg=f"after {how}: simulator.data is {what}, not the clean data it held before"))
        elif _data_text(sim.data) != self.d0_text:
            viol.append(dict(clause="data_restored", entry=entry, causes=causes + ["values"],
                             msg=f"after {how}: the clean data were modified in place"))
        attrs1 = _other_attrs(sim)
        if attrs1 != self.attrs0:
            ch = sorted(k for k in set(attrs1) | set(self.attrs0) if attrs1.get(k, "<absent>") != self.attrs0.get(k, "<absent>"))
            viol.append(dict(clause="state_restored", entry=entry, causes=causes + ["hidden_attribute"],
                             msg=f"after {how}: the simulator attribute(s) {ch} are not what they were before the call (hidden state a later call may read)"))
        if self.n0 is not None and op == "S" and (getattr(sim, "noisy_data", None) is not self.n0 or _data_text(self.n0) != self.n0_text):
            viol.append(dict(clause="source_unchanged", entry=entry, causes=causes, msg=f"after {how}: sparsify changed noisy_data"))
        if op in ("S", "C") and self.d0 is not None:
            comps = _components(self.d0)
            two_d = bool(comps) and all(len(list(c.argvals.keys())) > 1 for c in comps)
            if two_d and status == "ok":
                viol.append(dict(clause="unsupported_2d_rejected", entry=entry, causes=["success"],
                                 msg="sparsification of data whose components are all 2-D is documented as unsupported but did not raise"))
        if status != "ok":
            # whatever the simulator EXPOSES after a failed call must still be what it claims to be: a new
            # noisy_data object is source + drawn noise, a new sparse_data object a sparsified version of its source
            # (no half-built attribute: e.g. a container created first and filled component by component)
            noisy, sparse = getattr(sim, "noisy_data", None), getattr(sim, "sparse_data", None)
            v0 = len(viol)
            if op in ("N", "C") and noisy is not None and noisy is not self.n0 and self.d0 is not None:
                _check_noise(viol, entry, self.d0, noisy, r, Zs, exact)
            if op in ("S", "C") and sparse is not None and sparse is not self.s0:
                src = self.d0 if op == "S" else noisy
                if src is not None:
                    _check_sparse(viol, entry, src, sparse)
            for v in viol[v0:]:
                v["msg"] = f"after {how} the simulator exposes a half-built result: " + v["msg"]
                v.setdefault("causes", []).append("exposed_after_failure")
            return
        noisy, sparse = getattr(sim, "noisy_data", None), getattr(sim, "sparse_data", None)
        if op in ("N", "C"):
            if noisy is None or noisy is self.n0:
                viol.append(dict(clause="noise_difference", entry=entry, msg="no new noisy_data after success"))
            else:
                _check_noise(viol, entry, self.d0, noisy, r, Zs, exact)
        if op in ("S", "C"):
            src = self.d0 if op == "S" else noisy
            if sparse is None or sparse is self.s0:
                viol.append(dict(clause="sparsify_subset", entry=entry, msg="no new sparse_data after success"))
            else:
                _check_sparse(viol, "Simulation.add_noise_and_sparsify" if op == "C" else entry, src, sparse)
                if op == "C":
                    pass


def _status(exc):
    if exc is None:
        return "ok"
    if isinstance(exc, Injected):
        return "error:Injected"
    return "error:" + err_class(exc)


def _run_scripted_once(case, fail_last):
    """Fresh simulator, replay the history; the last op runs under `fail_last`.  Returns the list of run records."""
    sim = _mk_sim()
    sim.data = _mk_data(case["data"])
    out, viol = [], []
    n_ops = len(case["ops"])
    for oi, op in enumerate(case["ops"] + list(case.get("tail", []))):
        fail = op["fail"]
        if oi == n_ops - 1:
            fail = fail_last
        elif fail == "all" or oi >= n_ops:
            fail = None
        ticker = Ticker(fail)
        src = ScriptSource()
        src.load(op["Z"], op["SS"])
        obs = _Obs(sim)
        exc = None
        with Instrument(sim, ticker, source=src, use_global=case.get("global_rng", False)):
            try:
                _call_op(sim, op)
            except Exception as e:  # noqa: BLE001
                exc = e
        st = _status(exc)
        if isinstance(exc, RuntimeError) and str(exc).startswith("script:"):
            st = "error:script"
        label = ticker.trace[-1] if ticker.trace else "-"
        r = float(F(op["r"]))
        Zs = [np.array([[float(F(x)) for x in row] for row in m]) for m in op["Z"]]
        v0 = len(viol)
        obs.after(viol, op["op"], st, label, r, Zs, exact=True)
        for v in viol[v0:]:
            v["op_index"] = oi
            v["fail"] = fail
        out.append(dict(status=st, ticks=ticker.n, trace=list(ticker.trace), label=label, state=_state_text(sim),
                        msg=(str(exc)[:120] if exc is not None else "")))
    return out, viol


def _real_sim(case):
    import warnings

    warnings.simplefilter("ignore")
    from FDApy.representation.argvals import DenseArgvals
    from FDApy.simulation.brownian import Brownian
    from FDApy.simulation.datasets import Datasets
    from FDApy.simulation.karhunen import KarhunenLoeve

    seed, n_obs, m = case["seed"], case["n_obs"], case["m"]
    kind = case["sim"]
    np.random.seed(case["gseed"])
    t = np.linspace(0, 1, m)
    if kind in ("kl", "kl_1pt", "kl_2pt"):
        mm = {"kl": m, "kl_1pt": 1, "kl_2pt": 2}[kind]
        s = KarhunenLoeve(n_functions=2, basis_name="fourier", argvals=DenseArgvals({"input_dim_0": np.linspace(0, 1, mm)}), random_state=seed)
        s.new(n_obs=n_obs)
    elif kind in ("kl_named", "kl_2d_named", "kl_multi_named"):
        # user-defined bases on argvals with user-chosen dimension names
        from FDApy.representation.basis import Basis, MultivariateBasis
        from FDApy.representation.values import DenseValues

        def given(names, grids, K=2):
            arg = DenseArgvals({nm: g for nm, g in zip(names, grids)})
            shape = [len(g) for g in grids]
            vals = np.stack([np.cos((k + 1) * np.add.outer(grids[0], grids[1]) if len(grids) == 2 else (k + 1) * np.pi * grids[0]) for k in range(K)]).reshape([K] + shape)
            return arg, DenseValues(vals)

        if kind == "kl_named":
            a, v = given(["time"], [t])
            basis = Basis(name="given", argvals=a, values=v)
        elif kind == "kl_2d_named":
            a, v = given(["y", "x"], [t, np.linspace(0, 1, 3)])
            basis = Basis(name="given", argvals=a, values=v)
        else:
            a1, v1 = given(["time"], [t])
            a2, v2 = given(["s"], [np.linspace(-1, 1, m + 1)])
            basis = MultivariateBasis(name="given", argvals=[a1, a2], values=[v1, v2])
        s = KarhunenLoeve(basis_name=None, basis=basis, random_state=seed)
        s.new(n_obs=n_obs)
    elif kind == "kl_multi":
        s = KarhunenLoeve(n_functions=[2, 2], basis_name=["fourier", "legendre"],
                          argvals=[DenseArgvals({"input_dim_0": t}), DenseArgvals({"input_dim_0": np.linspace(-1, 1, m + 1)})], random_state=seed)
        s.new(n_obs=n_obs)
    elif kind == "kl_2d":
        s = KarhunenLoeve(n_functions=(2, 2), basis_name=("fourier", "fourier"),
                          argvals=DenseArgvals({"input_dim_0": t, "input_dim_1": np.linspace(0, 1, 3)}), random_state=seed)
        s.new(n_obs=n_obs)
    elif kind == "kl_mixed":
        s = KarhunenLoeve(n_functions=[(2, 2), 4], basis_name=[("fourier", "fourier"), "legendre"],
                          argvals=[DenseArgvals({"input_dim_0": t, "input_dim_1": np.linspace(0, 1, 3)}), DenseArgvals({"input_dim_0": np.linspace(-1, 1, m)})],
                          random_state=seed)
        s.new(n_obs=n_obs)
    elif kind.startswith("brownian"):
        s = Brownian(name={"brownian": "standard", "brownian_geometric": "geometric", "brownian_fractional": "fractional"}[kind], random_state=seed)
        s.new(n_obs=n_obs, argvals=t)
    else:
        s = Datasets(basis_name="zhang_chen", random_state=seed)
        s.new(n_obs=n_obs, argvals=t)
    return s


def _run_real_once(case, fail, line_k=None, count_only=False):
    sim = _real_sim(case)
    op = dict(op=case["op"], r2=case["r2"], p=case["p"], e=case["e"])
    viol = []
    obs = _Obs(sim)
    rec = []
    exc = None
    ticker = Ticker(fail)
    if line_k is None and not count_only:
        with Instrument(sim, ticker, source=None, rec=rec):
            try:
                _call_op(sim, op)
            except Exception as e:  # noqa: BLE001
                exc = e
        label = ticker.trace[-1] if ticker.trace else "-"
        n = ticker.n
    else:
        cnt = [0]
        where = ["-"]
        scope_all = case.get("scope") == "fdapy"

        def tr(frame, event, arg):
            fn = frame.f_code.co_filename
            if not (fn.endswith(SIMFILE) or (scope_all and "/FDApy/" in fn)):
                return None

            ok_lines = _raisable_lines(fn)

            def loc(frame, event, arg):
                if event == "line" and (ok_lines is None or frame.f_lineno in ok_lines):
                    if cnt[0] == line_k:
                        cnt[0] += 1
                        where[0] = f"{frame.f_code.co_name}:{frame.f_lineno}"
                        raise Injected(where[0])
                    cnt[0] += 1
                return loc

            return loc

        old = sys.gettrace()
        sys.settrace(tr)
        try:
            _call_op(sim, op)
        except Exception as e:  # noqa: BLE001
            exc = e
        finally:
            sys.settrace(old)
        label = where[0]
        n = cnt[0]
    st = _status(exc)
    r = math.sqrt(case["r2"])
    Zs = [z for (lab, z) in rec if lab == "rnorm"] or None
    obs.after(viol, case["op"], st, label, r, Zs, exact=False)
    # the history continues: a plain sparsify after the (possibly failed) call must sparsify the CLEAN data
    obs2 = _Obs(sim)
    exc2 = None
    try:
        sim.sparsify(percentage=0.7, epsilon=0.1)
    except Exception as e2:  # noqa: BLE001
        exc2 = e2
    v0 = len(viol)
    obs2.after(viol, "S", _status(exc2), "sparsify (continued history)", 0.0, None, exact=False)
    for v in viol[v0:]:
        v["msg"] = f"history continued after {st} at {label}: " + v["msg"]
        v.setdefault("causes", []).append("after_failed_call" if st != "ok" else "after_success")
    for v in viol:
        v["fail"] = fail if line_k is None else f"line:{line_k}"
    return dict(status=st, ticks=n, label=label, msg=(str(exc)[:120] if exc is not None else "")), viol


def run_impl(case):
    kind = case["kind"]
    if kind == "scripted":
        base, viol = _run_scripted_once(case, None)
        T = base[len(case["ops"]) - 1]["ticks"]
        faults = []
        for k in range(T):
            recs, v = _run_scripted_once(case, k)
            n_ops = len(case["ops"])
            fr = {key: recs[n_ops - 1][key] for key in ("status", "ticks", "label", "state", "msg")}
            fr["tail"] = [{key: r[key] for key in ("status", "ticks", "label", "state", "msg")} for r in recs[n_ops:]]
            faults.append(fr)
            for x in v:
                if x.get("op_index", 0) >= n_ops:
                    x["msg"] = f"history continued after the failed call (fault point {k}), step {x['op_index'] - n_ops + 1}: " + x["msg"]
                    x.setdefault("causes", []).append("after_failed_call")
            viol += [x for x in v if x.get("op_index", 0) >= n_ops - 1]
        n_ops = len(case["ops"])
        T = base[n_ops - 1]["ticks"]
        for rcd in base:
            rcd["trace"] = ",".join(rcd["trace"])
        return dict(runs=base[:n_ops], base_tail=[{key: r[key] for key in ("status", "ticks", "label", "state", "msg")} for r in base[n_ops:]],
                    faults=faults, viol=_dedupe(viol))
    if kind == "real":
        base, viol = _run_real_once(case, None)
        T = base["ticks"]
        stats = {}
        for k in range(T):
            rcd, v = _run_real_once(case, k)
            stats[rcd["status"]] = stats.get(rcd["status"], 0) + 1
            viol += v
        return dict(base=base, n_faults=T, fault_status=stats, viol=_dedupe(viol))
    if kind == "line":
        base, viol = _run_real_once(case, None, line_k=-1)
        T = base["ticks"]
        krng = Rng(case["ks"])
        ks = list(range(T)) if T <= case.get("n_faults", 40) else sorted(krng.sample(range(T), case.get("n_faults", 40)))
        stats = {}
        for k in ks:
            rcd, v = _run_real_once(case, None, line_k=k)
            stats[rcd["status"]] = stats.get(rcd["status"], 0) + 1
            viol += v
        return dict(base=base, n_lines=T, n_faults=len(ks), fault_status=stats, viol=_dedupe(viol))
    raise ValueError(kind)


def _dedupe(viol):
    seen, out = set(), []
    for v in viol:
        key = (v["clause"], v["entry"], tuple(v.get("causes", [])))
        if key in seen:
            continue
        seen.add(key)
        out.append(v)
    return out


# --------------------------------------------------------------------------
# model side
# --------------------------------------------------------------------------

def _comp_tok(c):
    return ";".join(",".join(g) if g else "-" for g in c["grid"]) + "@" + (";".join(",".join(r) if r else "-" for r in c["vals"]) if c["vals"] else "-")


def _data_tok(d):
    if d is None:
        return "none"
    return ("M~" if d["multi"] else "U~") + "|".join(_comp_tok(c) for c in d["comps"])


def _z_tok(Z):
    return "|".join((";".join(",".join(r) if r else "-" for r in m) if m else "-") for m in Z) if Z else "-"


def _ss_tok(SS):
    if not SS:
        return "-"
    return "|".join((";".join(f"{c['u']}:{','.join(c['m']) if c['m'] else '-'}:{c['a']}:{c['b']}" for c in comp) if comp else "-") for comp in SS)


def _op_tok(op, last):
    f = op["fail"]
    f = "all" if last else ("-" if f in (None, "all") else str(f))
    if op["op"] == "N":
        return f"N~{op['r']}~{f}~{_z_tok(op['Z'])}"
    if op["op"] == "S":
        return f"S~{op['p']}~{op['e']}~{f}~{_ss_tok(op['SS'])}"
    return f"{op.get('variant', 'C')}~{op['r']}~{op['p']}~{op['e']}~{f}~{_z_tok(op['Z'])}~{_ss_tok(op['SS'])}"


def model_lines(case, impl):
    if case["kind"] != "scripted":
        return []
    n = len(case["ops"])
    toks = [_op_tok(op, i == n - 1) for i, op in enumerate(case["ops"])] + [_op_tok(op, False) for op in case.get("tail", [])]
    return [f"c20 {case.get('repl', 0)} {_data_tok(case['data'])} " + " ".join(toks)]


def parse_model(case, outs):
    o = outs[0]
    if o.startswith("bad"):
        return dict(error=o)
    segs = o.split(" ")
    runs = []
    for s in segs[:-1]:
        st, ticks, trace, state = s.split("!")
        runs.append(dict(status=st, ticks=int(ticks), trace=trace, state=state))
    parts = segs[-1].split("%")

    def tail_of(chunks):
        out = []
        for c in chunks:
            st, ticks, label, state = c.split("!")
            out.append(dict(status=st, ticks=int(ticks), label=label, state=state))
        return out

    first = parts[0].split("^")
    st, ticks, trace, state = first[0].split("!")
    runs.append(dict(status=st, ticks=int(ticks), trace=trace, state=state))
    faults = []
    for p in parts[1:]:
        chunks = p.split("^")
        st, ticks, label, state = chunks[0].split("!")
        faults.append(dict(status=st, ticks=int(ticks), label=label, state=state, tail=tail_of(chunks[1:])))
    return dict(runs=runs, faults=faults, base_tail=tail_of(first[1:]))


def _cls(status):
    return ":".join(status.split(":")[:2])


def compare(case, impl, model):
    if "__crash__" in impl:
        return [f"implementation harness crashed: {impl['__crash__']} {impl.get('msg')} {impl.get('tb', '')[-300:]}"]
    if "error" in model:
        return [f"model rejected the request: {model['error']}"]
    ds = []
    if len(impl["runs"]) != len(model["runs"]):
        return [f"{len(impl['runs'])} runs vs model {len(model['runs'])}"]
    # --- fault-free history: outcome and the three datasets after every operation (exact).  The internal call
    #     trace and the number of fault points are the SHAPE of the code, not its behaviour: they are not compared.
    for i, (a, b) in enumerate(zip(impl["runs"], model["runs"])):
        if a["state"] != b["state"]:
            ds.append(f"op {i} ({case['ops'][i]['op']}): state impl {str(a['state'])[:200]} vs model {str(b['state'])[:200]}")
        if _cls(a["status"]) != _cls(b["status"]):
            ds.append(f"op {i}: status impl {a['status']} ({a.get('msg')}) vs model {b['status']}")
    for j, (a, b) in enumerate(zip(impl.get("base_tail", []), model.get("base_tail", []))):
        if a["state"] != b["state"]:
            ds.append(f"history continued after the fault-free run, step {j + 1}: state impl {str(a['state'])[:200]} vs model {str(b['state'])[:200]}")
        if _cls(a["status"]) != _cls(b["status"]):
            ds.append(f"history continued after the fault-free run, step {j + 1}: status impl {a['status']} ({a.get('msg')}) vs model {b['status']}")
    # --- failures: whatever fault points the implementation has (their number and names are free), the observable
    #     outcome of each — exception class, data / noisy_data / sparse_data after the failure, and every step of the
    #     continued history — must be one of the outcomes the model allows for this operation (its abstract phases:
    #     nothing committed / noisy committed / everything committed, each with its continuation)
    allowed = {_outcome(b) for b in model["faults"]}
    for k, a in enumerate(impl["faults"]):
        if _outcome(a) not in allowed:
            ph = _phase(a, impl)
            ds.append(f"last op, implementation fault point {k} ({a['label']}): outcome {a['status']} / state {str(a['state'])[:160]} / continued history "
                      f"{[(t['status'], str(t['state'])[:60]) for t in a.get('tail', [])]} (phase: {ph}) is none of the {len(allowed)} outcomes the model allows")
            if len(ds) > 4:
                break
    return ds[:6]


def _outcome(r):
    return (_cls(r["status"]), r["state"], tuple((_cls(t["status"]), t["state"]) for t in r.get("tail", [])))


def _phase(fault, impl):
    """abstract phase of a failure, read off the observable state: which of the datasets the failed call committed"""
    n_ops = len(impl["runs"])
    before = impl["runs"][n_ops - 2]["state"].split("#") if n_ops >= 2 else None
    after_ok = impl["runs"][n_ops - 1]["state"].split("#")
    st = fault["state"].split("#")
    if st == after_ok:
        return "everything committed"
    if before is not None and st == before:
        return "nothing committed"
    names = ("data", "noisy_data", "sparse_data")
    return "committed: " + ",".join(n for n, x, y in zip(names, st, after_ok) if x == y and (before is None or x != before[names.index(n)])) if before is not None else "partly committed"


# --------------------------------------------------------------------------
# oracle / bookkeeping
# --------------------------------------------------------------------------

def oracle(case, impl):
    if "__crash__" in impl:
        return [dict(clause="runs", entry=case["kind"], msg=f"harness crash {impl['__crash__']}: {impl.get('msg')} {impl.get('tb', '')[-300:]}")]
    return [dict(clause=v["clause"], entry=v["entry"], msg=v["msg"] + f" [fail={v.get('fail')}]", causes=v.get("causes", [])) for v in impl.get("viol", [])]


def nontrivial(case, impl):
    if "__crash__" in impl:
        return None
    n = len(impl.get("faults", [])) if case["kind"] == "scripted" else impl.get("n_faults", 0)
    return digest(case) if n >= 1 else None


def classify(case, impl):
    tags = ["kind:" + case["kind"]]
    if "__crash__" in impl:
        return tags + ["crash"]
    if case["kind"] == "scripted":
        tags.append("shape:" + case["shape"])
        tags.append("rng:" + ("global" if case["global_rng"] else "own"))
        tags.append("last_op:" + case["ops"][-1]["op"])
        tags.append("history_len:" + str(len(case["ops"])))
        base = impl["runs"][-1]
        tags.append("nofault:" + _cls(base["status"]))
        n = len(impl["faults"])
        tags.append("fault_points:" + ("0" if n == 0 else "1-19" if n < 20 else "20-49" if n < 50 else "50+"))
        for ph in sorted({_phase(f, impl) for f in impl["faults"]}):
            tags.append("failure_phase:" + ph)
        if base["trace"].count("rchoice,") > sum(len(c) for c in case["ops"][-1]["SS"]):
            tags.append("fallback_taken")
        op = case["ops"][-1]
        if op["r"] == "0":
            tags.append("variance:0")
        if op["p"] == "0":
            tags.append("percentage:0")
        if op["e"] == "0":
            tags.append("epsilon:0")
    else:
        tags.append("sim:" + case["sim"])
        tags.append("seed:" + ("none" if case["seed"] is None else "set"))
        tags.append("op:" + case["op"])
        tags.append("nofault:" + _cls(impl["base"]["status"]))
        for k, v in impl.get("fault_status", {}).items():
            tags.append("faultrun:" + _cls(k))
    return tags


def extra_coverage(cases, impls, models):
    fp = sum(len(i.get("faults", [])) for i in impls if isinstance(i, dict))
    fr = sum(i.get("n_faults", 0) for i in impls if isinstance(i, dict))
    return dict(fault_runs_model_compared=fp, fault_runs_oracle_only=fr, translator=TRANSLATOR["note"])
