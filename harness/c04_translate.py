"""Translator for C04: the pure bookkeeping of `FDApy/preprocessing/dim_reduction/mfpca.py`
(`_fit_covariance_multivariate` Steps 2-4 and the scaling line of `MFPCA.inverse_transform`)
-> `lean/FDAModel/Generated/MfpcaBlocks.lean` (`FDA.MFPCA.BlockConsts`).

It maps SYNTAX only (names, numeric literals, `.T`, the order of `@` operands, subscripts, keyword
arguments); it does no arithmetic.  `C04.source_blocks` then proves that what the source says today is
what the hand-written model uses, `C04.coded_block_range` / `coded_blocks_tile` / `coded_bookkeeping`
that those constants give `off`, `solverMatrix`, `rhoSq` and `r² = weight`.

A source whose shape is not recognised raises `Shape`: no alarm; the caller falls back on the reference
translation stored beside this file (`c04_mfpcablocks_reference.lean`).
"""
import ast


class Shape(ValueError):
    pass


def _name(n, ident):
    return isinstance(n, ast.Name) and n.id == ident


def _np(n, attr):
    return (isinstance(n, ast.Call) and isinstance(n.func, ast.Attribute) and n.func.attr == attr
            and isinstance(n.func.value, ast.Name) and n.func.value.id in ("np", "numpy"))


def _int(n):
    if isinstance(n, ast.Constant) and isinstance(n.value, int) and not isinstance(n.value, bool) and n.value >= 0:
        return n.value
    raise Shape(f"non-negative integer literal expected: {ast.unparse(n)}")


def _is_T(n, ident=None):
    return isinstance(n, ast.Attribute) and n.attr == "T" and (ident is None or _name(n.value, ident))


def _func(tree, name, cls=None):
    scope = tree.body
    if cls:
        c = [n for n in tree.body if isinstance(n, ast.ClassDef) and n.name == cls]
        if len(c) != 1:
            raise Shape(f"class {cls}")
        scope = c[0].body
    f = [n for n in scope if isinstance(n, ast.FunctionDef) and n.name == name]
    if len(f) != 1:
        raise Shape(f"function {name}")
    return f[0]


def _assigns(body):
    """name -> list of assigned values (top level of `body`, in order)."""
    out = {}
    for st in body:
        if isinstance(st, ast.Assign) and len(st.targets) == 1 and isinstance(st.targets[0], ast.Name):
            out.setdefault(st.targets[0].id, []).append(st.value)
    return out


def _len_minus(n, ident):
    """`len(ident) - d` -> d"""
    if (isinstance(n, ast.BinOp) and isinstance(n.op, ast.Sub) and isinstance(n.left, ast.Call) and _name(n.left.func, "len")
            and len(n.left.args) == 1 and _name(n.left.args[0], ident)):
        return _int(n.right)
    raise Shape(f"len({ident}) - d expected: {ast.unparse(n)}")


def _inv_sqrt(n):
    """`1 / np.sqrt(x)` -> x"""
    if isinstance(n, ast.BinOp) and isinstance(n.op, ast.Div) and isinstance(n.left, ast.Constant) and n.left.value == 1 and _np(n.right, "sqrt"):
        return n.right.args[0]
    return None


def _factors(n):
    """flatten a product a * b * c into its factors"""
    if isinstance(n, ast.BinOp) and isinstance(n.op, ast.Mult):
        return _factors(n.left) + _factors(n.right)
    return [n]


def parse(path):
    tree = ast.parse(open(path).read())
    fit = _func(tree, "_fit_covariance_multivariate")
    A = _assigns(fit.body)
    out = {}

    def one(name):
        if name not in A or len(A[name]) != 1:
            raise Shape(f"single assignment to {name}")
        return A[name][0]

    # scores_normed = scores_univariate / np.sqrt(len(scores_univariate) - d)
    v = one("scores_normed")
    if not (isinstance(v, ast.BinOp) and isinstance(v.op, ast.Div) and _name(v.left, "scores_univariate") and _np(v.right, "sqrt")):
        raise Shape("scores_normed")
    out["ddof_normed"] = _len_minus(v.right.args[0], "scores_univariate")
    # cholesky_matrices = [np.linalg.cholesky(...)[.T] for basis in basis_univariate]
    v = one("cholesky_matrices")
    if not isinstance(v, ast.ListComp):
        raise Shape("cholesky_matrices")
    e = v.elt
    out["chol_transposed"] = _is_T(e)
    e = e.value if out["chol_transposed"] else e
    if not (isinstance(e, ast.Call) and isinstance(e.func, ast.Attribute) and e.func.attr == "cholesky"):
        raise Shape("cholesky call")
    # scores_cov = (C.T @ C) @ [np.atleast_2d(] np.cov(scores_univariate.T [, ddof=d]) [)]   (either order of the outer product)
    v = one("scores_cov")
    if not (isinstance(v, ast.BinOp) and isinstance(v.op, ast.MatMult)):
        raise Shape("scores_cov")

    def is_cov(n):
        while _np(n, "atleast_2d") and len(n.args) == 1:
            n = n.args[0]
        return n if _np(n, "cov") else None

    if is_cov(v.right) is not None:
        out["gram_times_cov"], g, c = True, v.left, is_cov(v.right)
    elif is_cov(v.left) is not None:
        out["gram_times_cov"], g, c = False, v.right, is_cov(v.left)
    else:
        raise Shape("np.cov factor of scores_cov")
    if not (len(c.args) == 1 and _is_T(c.args[0], "scores_univariate")):
        raise Shape("argument of np.cov")
    kw = {k.arg: k.value for k in c.keywords}
    if set(kw) - {"ddof"}:
        raise Shape("keywords of np.cov")
    out["ddof_cov"] = _int(kw["ddof"]) if "ddof" in kw else 1
    if not (isinstance(g, ast.BinOp) and isinstance(g.op, ast.MatMult)):
        raise Shape("Gram factor product")
    if _is_T(g.left, "cholesky_matrix") and _name(g.right, "cholesky_matrix"):
        out["gram_left_transposed"] = True
    elif _name(g.left, "cholesky_matrix") and _is_T(g.right, "cholesky_matrix"):
        out["gram_left_transposed"] = False
    else:
        raise Shape("Gram factor product operands")
    # nb_eigenfunction_uni = [c]; .extend(npc); nb_eigenfunction_uni_cum = np.cumsum(nb_eigenfunction_uni)
    v = one("nb_eigenfunction_uni")
    if not (isinstance(v, ast.List) and len(v.elts) == 1):
        raise Shape("nb_eigenfunction_uni")
    out["cum_init"] = _int(v.elts[0])
    ext = [st for st in fit.body if isinstance(st, ast.Expr) and isinstance(st.value, ast.Call) and isinstance(st.value.func, ast.Attribute)
           and st.value.func.attr == "extend" and _name(st.value.func.value, "nb_eigenfunction_uni")]
    if not (len(ext) == 1 and len(ext[0].value.args) == 1 and _name(ext[0].value.args[0], "npc")):
        raise Shape("extend(npc)")
    v = one("nb_eigenfunction_uni_cum")
    if not (_np(v, "cumsum") and len(v.args) == 1 and _name(v.args[0], "nb_eigenfunction_uni")):
        raise Shape("cumsum")
    v = one("npc")
    if not (isinstance(v, ast.ListComp) and isinstance(v.elt, ast.Subscript) and ast.unparse(v.elt) == "basis.coefficients.shape[1]"):
        raise Shape("npc")
    # the loop over the components
    loops = [st for st in fit.body if isinstance(st, ast.For) and isinstance(st.iter, ast.Call) and _name(st.iter.func, "enumerate")]
    if len(loops) != 1 or not (isinstance(loops[0].target, ast.Tuple) and isinstance(loops[0].target.elts[0], ast.Name)):
        raise Shape("loop over the components")
    idx = loops[0].target.elts[0].id
    L = _assigns(loops[0].body)

    def shift(name):
        if name not in L or len(L[name]) != 1:
            raise Shape(name)
        s = L[name][0]
        if not (isinstance(s, ast.Subscript) and _name(s.value, "nb_eigenfunction_uni_cum")):
            raise Shape(f"{name} = cum[…]")
        i = s.slice
        if _name(i, idx):
            return 0
        if isinstance(i, ast.BinOp) and isinstance(i.op, ast.Add) and _name(i.left, idx):
            return _int(i.right)
        if isinstance(i, ast.BinOp) and isinstance(i.op, ast.Add) and _name(i.right, idx):
            return _int(i.left)
        raise Shape(f"index of {name}")

    out["start_shift"], out["end_shift"] = shift("start"), shift("end")
    # values = 1 / np.sqrt(eigenvalues) * norm_factor * weights[start:end, :]
    if "values" not in L or len(L["values"]) != 1:
        raise Shape("values")
    fs = _factors(L["values"][0])
    out["eig_inv_sqrt"] = out["norm_factor"] = False
    sl = None
    for f in fs:
        x = _inv_sqrt(f)
        if x is not None and _name(x, "eigenvalues"):
            out["eig_inv_sqrt"] = True
        elif _name(f, "norm_factor"):
            out["norm_factor"] = True
        elif isinstance(f, ast.Subscript) and _name(f.value, "weights"):
            sl = f.slice
        else:
            raise Shape(f"factor of values: {ast.unparse(f)}")
    if not (isinstance(sl, ast.Tuple) and len(sl.elts) == 2):
        raise Shape("slice of weights")

    def is_range(s):
        return isinstance(s, ast.Slice) and _name(s.lower, "start") and _name(s.upper, "end") and s.step is None

    def is_full(s):
        return isinstance(s, ast.Slice) and s.lower is None and s.upper is None and s.step is None

    if is_range(sl.elts[0]) and is_full(sl.elts[1]):
        out["slice_rows"] = True
    elif is_full(sl.elts[0]) and is_range(sl.elts[1]):
        out["slice_rows"] = False
    else:
        raise Shape("slice of weights is not [start:end, :] / [:, start:end]")
    # norm_factor = 1 / np.sqrt(np.diag(…)) (its presence as an inverse square root)
    if out["norm_factor"]:
        x = _inv_sqrt(one("norm_factor"))
        if x is None or not _np(x, "diag"):
            raise Shape("norm_factor")
    # weights = scores_normed.T @ scores_normed @ eigenvectors
    if ast.unparse(one("weights")).replace(" ", "") != "scores_normed.T@scores_normed@eigenvectors":
        raise Shape("weights")
    # inverse_transform: (np.sqrt(weight) if self.normalize else 1.0) * values + mean.values
    inv = _func(tree, "inverse_transform", "MFPCA")
    cand = [n for n in ast.walk(inv) if isinstance(n, ast.IfExp)]
    if len(cand) != 1:
        raise Shape("scaling of inverse_transform")
    ie = cand[0]
    if not (isinstance(ie.test, ast.Attribute) and ie.test.attr == "normalize" and _name(ie.test.value, "self")):
        raise Shape("test of the scaling of inverse_transform")
    if _np(ie.body, "sqrt") and _name(ie.body.args[0], "weight"):
        out["weight_sqrt"] = True
    elif _name(ie.body, "weight"):
        out["weight_sqrt"] = False
    else:
        raise Shape("scale when normalising")
    out["plain_scale_one"] = isinstance(ie.orelse, ast.Constant) and ie.orelse.value in (1, 1.0) and not isinstance(ie.orelse.value, bool)
    if not out["plain_scale_one"] and not _name(ie.orelse, "weight"):
        raise Shape("scale without normalisation")
    return out


def lean_source(x):
    b = lambda v: "true" if v else "false"  # noqa: E731
    return f"""/- GENERATED by harness/c04_translate.py from FDApy/preprocessing/dim_reduction/mfpca.py (_fit_covariance_multivariate, MFPCA.inverse_transform) — do not edit. -/
import FDAModel.MFPCA
namespace FDA.Generated
/-- `ξ / np.sqrt(len(ξ) - {x['ddof_normed']})`; `np.cov(ξ.T)` (ddof {x['ddof_cov']}); `cholesky(…){'.T' if x['chol_transposed'] else ''}`; `{'(C.T @ C)' if x['gram_left_transposed'] else '(C @ C.T)'}{' @ cov' if x['gram_times_cov'] else ' after cov @'}`; cumsum of `[{x['cum_init']}] + npc`; `start = cum[idx + {x['start_shift']}]`, `end = cum[idx + {x['end_shift']}]`; `{'1 / np.sqrt(eigenvalues) * ' if x['eig_inv_sqrt'] else ''}{'norm_factor * ' if x['norm_factor'] else ''}weights[{'start:end, :' if x['slice_rows'] else ':, start:end'}]`; `{'np.sqrt(weight)' if x['weight_sqrt'] else 'weight'} if self.normalize else {'1' if x['plain_scale_one'] else 'weight'}`. -/
def mfpcaBlocks : FDA.MFPCA.BlockConsts :=
  {{ ddofNormed := {x['ddof_normed']}, ddofCov := {x['ddof_cov']}, cholTransposed := {b(x['chol_transposed'])}, gramLeftTransposed := {b(x['gram_left_transposed'])}, gramTimesCov := {b(x['gram_times_cov'])}, cumInit := {x['cum_init']}, startShift := {x['start_shift']}, endShift := {x['end_shift']}, sliceRows := {b(x['slice_rows'])}, eigInvSqrt := {b(x['eig_inv_sqrt'])}, normFactor := {b(x['norm_factor'])}, weightSqrt := {b(x['weight_sqrt'])}, plainScaleOne := {b(x['plain_scale_one'])} }}
end FDA.Generated
"""
