"""C10 — centring, normalising, standardising, rescaling achieve what they promise."""
import contextlib
import math
import warnings
from fractions import Fraction

import numpy as np

import common
from common import F, Rng, close, close_all, fl, pmat, pvec, rs

PROP = "C10"
MODULES = ["FDAProofs.Props.C10"]
DRIVER = "Drivers/C10.lean"
PARALLEL = True
RULE = (
    "seeded structured cases: dense 1-D / 2-D data (n_obs 2..10, non-uniform dyadic grids, offsets up to 1e4, scales, zero-variance "
    "grid points, constant and duplicated curves), basis expansions with an explicit basis matrix (1-D; 2-D = open finding), irregular data in "
    "both encodings (per-curve points / NaN on a common grid, complete and with missing samples, sub-selections with shifted labels) with the "
    "smoothing options fixed explicitly (LP bandwidth, PS, interpolation), multivariate data (dense+dense, dense+2-D, dense+irregular, dense+basis); "
    "options use_argvals_stand in {F,T}, method_integration in {trapz, simpson}, center in {T,F}, user weights; every operation is run on a fresh "
    "object, a second time on the same object after replacing its values (stale state), standardize additionally with NaN-initialised "
    "result buffers for np.divide(where=) calls lacking out=; a case is non-trivial when the curves are not all equal; distinct by content hash"
)
PARTIAL = [
    "square roots (norms, standard deviations, sqrt of the weight) are compared through signed squares v*|v|; the root of the smoothed variance in the irregular standardisation is taken from the implementation",
    "scipy.integrate.simpson is external: under method_integration='simpson' only the post-conditions (unit norm, unit re-estimated weight, component-wise) are sampled",
    "the smoothers behind the irregular mean / variance (LP, P-splines) are parameters (any function; linear ones for the rescaling theorem): their output is taken from the implementation; "
    "np.interp (the interpolant behind the irregular norm) IS modelled and compared",
    "uninitialised memory is not representable in the model: made observable by heap poisoning and by NaN-initialised buffers substituted from outside for np.divide(where=) without out=",
]
TRUSTED_EXTRA = [
    "translator harness/c09_translate.py (syntax only: which name is subtracted / divided, ddof and axis keywords, the guard of np.divide, "
    "the test of the weights, sqrt, the returned tuple, forwarded **kwargs of DenseFunctionalData.center / standardize / rescale / normalize "
    "-> Generated/StatsFormulas.lean; falls back on harness/c09_statsformulas_reference.lean when the source shape is not recognised)",
]


def translate():
    """Same translator as C09 (one generated file for both properties)."""
    import c09

    c09.translate()


def extra_coverage(cases, impls, models):
    import c09

    return dict(translator=dict({k: v for k, v in c09.TRANSLATOR.items() if k != "diffseq"}, files=["lean/FDAModel/Generated/StatsFormulas.lean"],
                                theorems="C10.source_transform_formulas, C10.coded_variance, C10.coded_standardize, C10.coded_center_rescale_normalize"))


# --------------------------------------------------------------------------
# helpers
# --------------------------------------------------------------------------

def _Fv(v):
    return [F(x) for x in v]


def _Fm(m):
    return [[F(x) for x in r] for r in m]


def _S(m):
    return [[rs(x) for x in r] for r in m]


def _M(m):
    return ";".join(",".join(r) if r else "-" for r in m) if m else "-"


def _dense(t_list, X):
    from FDApy.representation.argvals import DenseArgvals
    from FDApy.representation.functional_data import DenseFunctionalData
    from FDApy.representation.values import DenseValues

    arg = DenseArgvals({f"input_dim_{k}": np.array(fl(t)) for k, t in enumerate(t_list)})
    X = np.asarray(X)
    # an int64 / float64 array is handed over AS IT IS (no copy: its memory layout is part of the input)
    return DenseFunctionalData(arg, DenseValues(X if X.dtype in (np.int64, np.float64) else np.array(X, dtype=float)))


def _arr(comp):
    """Exact rationals -> array; integer dtype when the component asks for it (DenseValues keeps it)."""
    if comp.get("int"):
        A = np.array([[int(F(x)) for x in r] for r in comp["X"]], dtype=np.int64)
    else:
        A = np.array(fl(_Fm(comp["X"])))
    return A  # the memory layout is applied by `_build` (after the reshape of 2-D data)


def _irregular(pts, vals, labels=None, vorder=None):
    """Irregular data.  `vorder`: the VALUES dictionary is filled in another key order than the ARGVALS dictionary
    ("reversed" / "rotated"; same key sets — the constructor accepts this)."""
    from FDApy.representation.argvals import DenseArgvals, IrregularArgvals
    from FDApy.representation.functional_data import IrregularFunctionalData
    from FDApy.representation.values import IrregularValues

    labels = list(range(len(pts))) if labels is None else labels
    keep = lambda a: a if isinstance(a, np.ndarray) and a.dtype == np.float64 else np.array(a, dtype=float)  # noqa: E731
    arg = IrregularArgvals({l: DenseArgvals({"input_dim_0": keep(p)}) for l, p in zip(labels, pts)})
    pairs = list(zip(labels, vals))
    if vorder == "reversed":
        pairs = pairs[::-1]
    elif vorder == "rotated":
        pairs = pairs[1:] + pairs[:1]
    val = IrregularValues({l: keep(v) for l, v in pairs})
    return IrregularFunctionalData(arg, val)


def _basis(t_list, B, C, family=None, is_normalized=False):
    """Basis-expansion data: an explicit basis matrix (`name="given"`) or a NAMED family built by FDApy itself
    (`Basis(name=family, n_functions=K, is_normalized=...)`; its values are read back from the object for the model)."""
    from FDApy.representation.argvals import DenseArgvals
    from FDApy.representation.basis import Basis
    from FDApy.representation.functional_data import BasisFunctionalData
    from FDApy.representation.values import DenseValues

    arg = DenseArgvals({f"input_dim_{k}": np.array(fl(t)) for k, t in enumerate(t_list)})
    C = np.array(C, dtype=float)
    if family:
        basis = Basis(name=family, n_functions=C.shape[1], argvals=arg, is_normalized=bool(is_normalized))
    else:
        basis = Basis(name="given", argvals=arg, values=DenseValues(np.array(B, dtype=float)), is_normalized=bool(is_normalized))
    return BasisFunctionalData(basis, C)


def _scale_comp(comp, s):
    """The same data multiplied by the rational `s` (used for weights estimated on small-amplitude data)."""
    c = dict(comp)
    if "X" in c and not c["type"].startswith("basis"):
        c["X"] = [[rs(F(x) * s) for x in r] for r in c["X"]]
        c["int"] = False
    if c["type"].startswith("basis"):
        c["C"] = [[rs(F(x) * s) for x in r] for r in c["C"]]
    if c["type"] == "irreg":
        c["obs"] = [dict(o, y=[y if y == "nan" else rs(F(y) * s) for y in o["y"]]) for o in c["obs"]]
    return c


def _resolve(case, impl):
    """A case on a named basis family gets its basis matrix from the implementation's own object
    (exact rational value of every float); None when the basis is not usable (non-finite values)."""
    if not case.get("family"):
        return case
    B = impl.get("B") if isinstance(impl, dict) else None
    if not isinstance(B, list) or not all(math.isfinite(x) for r in B for x in r):
        return None
    return dict(case, B=[[rs(F(x)) for x in r] for r in B])


def _call(f):
    try:
        with warnings.catch_warnings():
            warnings.simplefilter("ignore")
            return f()
    except Exception as e:  # noqa: BLE001
        return {"error": common.err_class(e), "msg": str(e)[:200]}


def _err(x):
    return isinstance(x, dict) and "error" in x


def _call_strict(f):
    """The same call in a process that turns numeric errors into exceptions: np.errstate(all='raise') and warnings as errors."""
    try:
        with np.errstate(all="raise"), warnings.catch_warnings():
            warnings.simplefilter("error")
            return f()
    except Exception as e:  # noqa: BLE001
        return {"error": common.err_class(e), "msg": str(e)[:200]}


def _variants(build, ops, out):
    """Every operation (a) on objects left in some state by earlier, unrelated use (c09.STATES) and (b) under the strict numeric-error state."""
    from c09 import _in_states

    from c09 import _same, _snapshot

    out["states"] = _in_states(build, ops)
    # the operations leave their input as it was: snapshot (values, sampling points, coefficients, basis) before and after
    untouched = {}
    for nm, op in ops.items():
        def one(op=op):
            fd = build()
            before = _snapshot(fd)
            op(fd)
            return bool(_same(_snapshot(fd), before))
        untouched[nm] = _call(one)
    out["untouched"] = untouched
    strict = {}
    for nm, op in ops.items():
        fd = _call(build)
        strict[nm] = fd if _err(fd) else _call_strict(lambda op=op, fd=fd: op(fd))
    out["strict"] = strict


def _all_finite(x):
    if isinstance(x, dict):
        return False
    if isinstance(x, (list, tuple)):
        return all(_all_finite(y) for y in x)
    return isinstance(x, (int, float)) and math.isfinite(x)


# (class, operation) pairs that raise under the strict state on the UNCHANGED tree although they return finite values otherwise
# (recorded in docs/C10.md as an observation): sqrt of a negative smoothed variance in the irregular standardisation
STRICT_EXCLUDED = {("IrregularFunctionalData", "standardize"), ("MultivariateFunctionalData+irregular", "standardize")}


def _variant_violations(impl, bad, cls, strict_cls=None):
    from c09 import _same, _state_violations

    if "states" not in impl:
        return
    _state_violations(impl["states"], bad, lambda nm: cls + "." + nm.split("(")[0])
    for nm, ok in (impl.get("untouched") or {}).items():
        if ok is False:
            bad("data_untouched", f"{nm} changed its input: values / sampling points / coefficients / basis differ from the snapshot taken before the call",
                cls + "." + nm.split("(")[0], ["operation-mutates-data"])
    for nm, b in impl["states"]["base"].items():
        op = nm.split("(")[0]
        if (strict_cls or cls, op) in STRICT_EXCLUDED or not _all_finite(b):
            continue  # judged only where the default state returns finite values
        st = impl["strict"][nm]
        if not _same(st, b):
            bad("strict_state", f"{nm} returns finite values by default but under np.errstate(all='raise') + warnings-as-errors "
                f"gives {str(st)[:120]}", cls + "." + op, ["numeric-error-state"])


class _AdversarialDivide:
    """Stand-in for `np.divide` that gives calls with `where=` but no `out=` a
    NaN-initialised result buffer: NumPy leaves the masked entries of a fresh buffer
    uninitialised, NaN is one value they may hold."""

    def __init__(self, real):
        self.real = real
        self.hits = 0

    def __call__(self, *args, **kw):
        where = kw.get("where", True)
        if where is not True and kw.get("out") is None and len(args) == 2:
            shape = np.broadcast_shapes(np.shape(args[0]), np.shape(args[1]), np.shape(where))
            kw = dict(kw)
            buf = np.full(shape, np.nan)
            if isinstance(args[0], np.ndarray) and type(args[0]) is not np.ndarray:
                buf = buf.view(type(args[0]))  # a fresh result would have the operand's array class
            kw["out"] = buf
            self.hits += 1
        return self.real(*args, **kw)

    def __getattr__(self, name):
        return getattr(self.real, name)


@contextlib.contextmanager
def adversarial_divide():
    real = np.divide
    adv = _AdversarialDivide(real)
    np.divide = adv
    np.true_divide = adv
    try:
        yield adv
    finally:
        np.divide = real
        np.true_divide = real


def _vals(fd):
    """Values of a dense / irregular result as nested lists (irregular: BY LABEL, in increasing label order,
    whatever the insertion order of the dictionary)."""
    v = fd.values
    if hasattr(v, "keys"):
        return [np.asarray(v[k], dtype=float).tolist() for k in sorted(v)]
    return np.asarray(v, dtype=float).reshape(len(v), -1).tolist()


# --------------------------------------------------------------------------
# generation
# --------------------------------------------------------------------------

def _curves(rng: Rng, N, m, kind=None):
    kind = kind or rng.choice(["rand", "rand", "zerocol", "zerocol", "smooth", "const", "lowrank", "dup"])
    if kind == "const":
        row = rng.dyadics(m, -4, 4, 3)
        return [list(row) for _ in range(N)], kind
    if kind == "smooth":
        out = []
        for _ in range(N):
            a, b, c = rng.dyadic(-2, 2, 3), rng.dyadic(-2, 2, 3), rng.dyadic(-2, 2, 3)
            out.append([a + b * Fraction(j, m) + c * Fraction(j * j, m * m) for j in range(m)])
        return out, kind
    if kind == "lowrank":
        base = rng.dyadics(m, -3, 3, 3)
        return [[rng.dyadic(-2, 2, 2) * x for x in base] for _ in range(N)], kind
    X = [rng.dyadics(m, -8, 8, 4) for _ in range(N)]
    if kind == "dup" and N >= 2:
        X[-1] = list(X[0])
    if kind == "zerocol":
        for j in rng.sample(range(m), rng.randint(1, max(1, m // 3))):
            for r in X:
                r[j] = X[0][j]
    return X, kind


def _grid(rng: Rng, m, uniform=None):
    lo = rng.choice([0, 0, -1, 1, 100, Fraction(-7, 2)])
    scale = rng.choice([1, 1, 2, 364, Fraction(1, 8)])
    return rng.grid(m, lo=lo, scale=scale, uniform=uniform)


def _affine(rng: Rng, X):
    if rng.random() < 0.2:
        # offset >> spread (2^20 .. 2^27 times): a one-pass variance E[X^2] - E[X]^2 cancels catastrophically here,
        # the two-pass estimators of the code do not (all values stay exactly representable)
        a = rng.choice([Fraction(1), Fraction(1, 16), Fraction(4)])
        off = Fraction(2 ** rng.randint(20, 27)) * rng.choice([1, -1])
        # quantised to 1/64 first, so that every value is exactly a float64 (the model and NumPy see the same numbers)
        return [[a * Fraction(round(x * 64), 64) + off for x in r] for r in X]
    a = rng.choice([Fraction(1), Fraction(1), Fraction(-3), Fraction(1, 16), Fraction(50)])
    off = rng.choice([0, 0, 1, Fraction(-5, 2), 100, 10000])
    return [[a * x + off for x in r] for r in X]


def _dynrange(rng: Rng, N, m, zero_col=True):
    """Dynamic range INSIDE one data set: values = c_j * z_ij with c_j = 2^-k_j spanning 2^-50 .. 2^0 and z_ij small integers.
    Every value is an exact float64, the exact standard deviation at point j is c_j * std(z_.j): positive at every scale
    (guards that are exact in the code -- == 0, != 0, > 0 -- are probed just on the positive side), and the standardised
    values are exactly the z-standardised ones at every j."""
    ks = sorted(rng.sample(range(1, 50), max(m - 2, 0)) + [0, 50][: min(m, 2)])
    rng.shuffle(ks)
    Z = [[rng.randint(-8, 8) for _ in range(m)] for _ in range(N)]
    for j in range(m):
        if len({r[j] for r in Z}) == 1:
            Z[0][j] += 1
            Z[-1][j] -= 2
    if zero_col and m >= 4:
        j = rng.randrange(m)
        for r in Z:
            r[j] = Z[0][j]  # one grid point where all curves coincide: exact zero variance
    return [[Fraction(Z[i][j], 2 ** ks[j]) for j in range(m)] for i in range(N)]


def _maybe_int(rng: Rng, X):
    """With probability 0.15: integer-valued curves, stored with an integer dtype."""
    if rng.random() < 0.15:
        return [[Fraction(round(x)) for x in r] for r in X], True
    return X, False


def _opts(rng: Rng):
    return dict(stand=rng.random() < 0.4, integ=rng.choice(["trapz", "trapz", "simpson"]), center=rng.random() < 0.7,
                # user weights over many decades (2^-40 .. 2^40, also 3*2^k): any w > 0 must be taken as given
                w=rs(rng.choice([Fraction(4), Fraction(1, 4), Fraction(10), Fraction(2) ** rng.randint(-40, 40), 3 * Fraction(2) ** rng.randint(-40, 40),
                                 Fraction(2) ** rng.randint(-40, -27)])))


def _dense_comp(rng: Rng, N, two_d=False, uniform=None):
    if two_d:
        m1, m2 = rng.randint(2 if not uniform else 3, 5), rng.randint(2 if not uniform else 3, 5)
        X, ck = _curves(rng, N, m1 * m2)
        X, integer = _maybe_int(rng, _affine(rng, X))
        return dict(type="dense2", t1=[rs(x) for x in _grid(rng, m1, uniform)], t2=[rs(x) for x in _grid(rng, m2, uniform)], X=_S(X), ck=ck, int=integer, layout=rng.choice(["C", "C", "F", "T", "strided", "neg"]))
    m = rng.randint(3, 10)
    X, ck = _curves(rng, N, m)
    X, integer = _maybe_int(rng, _affine(rng, X))
    return dict(type="dense1", t=[rs(x) for x in _grid(rng, m, uniform)], X=_S(X), ck=ck, int=integer, layout=rng.choice(["C", "C", "F", "T", "strided", "neg"]))


def _irr_comp(rng: Rng, N, enc=None, lp_only=False):
    enc = enc or rng.choice(["points", "nan", "complete"])
    m = rng.randint(6, 10)
    U = rng.grid(m, lo=rng.choice([0, 0, -1]), scale=rng.choice([1, 1, 2]))
    X, ck = _curves(rng, N, m, rng.choice(["rand", "smooth", "zerocol"]))
    amp = rng.choice([Fraction(1), Fraction(1), Fraction(1, 2 ** 6), Fraction(1, 2 ** 20), Fraction(2 ** 10)])  # amplitude over many decades
    X = [[amp * Fraction(round(x * 64), 64) for x in r] for r in X] if amp != 1 else X
    keep = []
    for _ in range(N):
        k = [True] * m if enc == "complete" else [rng.random() < 0.7 for _ in range(m)]
        if sum(k) < 3:
            for j in rng.sample(range(m), 3):
                k[j] = True
        keep.append(k)
    # every union point observed at least once; first and last point kept by someone
    for j in range(m):
        if not any(k[j] for k in keep):
            keep[rng.randrange(N)][j] = True
    if enc == "nan":
        obs = [dict(t=[rs(u) for u in U], y=[rs(x) if kp else "nan" for x, kp in zip(r, k)]) for r, k in zip(X, keep)]
    else:
        obs = [dict(t=[rs(u) for u, kp in zip(U, k) if kp], y=[rs(x) for x, kp in zip(r, k) if kp]) for r, k in zip(X, keep)]
    smooth = rng.choice([dict(method="LP", bw=rs(rng.choice([Fraction(1, 2), Fraction(3, 4), Fraction(1)]))),
                         dict(method="LP", bw=rs(Fraction(1, 2))),
                         dict(method="LP", bw=rs(Fraction(1, 2))) if lp_only else dict(method="interpolation"),
                         dict(method="LP", bw=rs(Fraction(3, 4))) if lp_only else dict(method="PS", nseg=rng.randint(3, 6))])
    return dict(type="irreg", enc=enc, obs=obs, smooth=smooth, ck=ck, vorder=rng.choice([None, "reversed", "rotated"]))


def _basis_comp(rng: Rng, N, two_d=False, uniform=None, named=True):
    if two_d:
        m1, m2 = rng.randint(2 if not uniform else 3, 4), rng.randint(2 if not uniform else 3, 4)
        K = rng.randint(1, 3)
        B, _ = _curves(rng, K, m1 * m2, "rand")
        C, ck = _curves(rng, N, K, "rand")
        return dict(type="basis2", t1=[rs(x) for x in _grid(rng, m1, uniform)], t2=[rs(x) for x in _grid(rng, m2, uniform)], B=_S(B), C=_S(C), ck=ck,
                    isn=rng.random() < 0.3)
    if named and rng.random() < 0.4:
        # a NAMED family built by FDApy (normalised or not), on domains other than [0, 1]; uniform grid (the normalisation uses Simpson's rule)
        family = rng.choice(["bsplines", "legendre", "fourier", "wiener"])
        K = rng.randint(4, 6) if family == "bsplines" else rng.randint(1, 5)
        m = rng.randint(max(5, K + 1), 12)
        C, ck = _curves(rng, N, K, rng.choice(["rand", "rand", "lowrank", "dup"]))
        return dict(type="basis1", t=[rs(x) for x in _grid(rng, m, True)], B=None, C=_S(C), ck=ck, family=family, isn=rng.random() < 0.6)
    m = rng.randint(4, 10)
    K = rng.randint(1, min(4, m - 1))
    B, _ = _curves(rng, K, m, "rand")
    C, ck = _curves(rng, N, K, rng.choice(["rand", "rand", "lowrank", "dup"]))
    if rng.random() < 0.5:
        # a grid point where all curves coincide: only basis function 0 is non-zero there and its coefficient is common
        j = rng.randrange(m)
        for k in range(K):
            B[k][j] = Fraction(0) if k else rng.choice([Fraction(1), Fraction(-2)])
        c0 = C[0][0]
        for r in C:
            r[0] = c0
        ck = "zerocol"
    if rng.random() < 0.3:
        off = rng.choice([Fraction(100), Fraction(-7)])
        for r in C:
            r[0] += off
    # the flag `is_normalized` only records how the basis was built: a given (non-orthonormal) matrix may carry it too
    return dict(type="basis1", t=[rs(x) for x in _grid(rng, m, uniform)], B=_S(B), C=_S(C), ck=ck, family=None, isn=rng.random() < 0.3)


def gen_cases(rng: Rng, tier):
    n = dict(quick=200, thorough=2600)[tier]
    # sizes just around typical block sizes / fast-path thresholds: many curves on a tiny grid (exact model stays cheap)
    sizes = [33, 65, 129, 201, 251, 257, 513, 1025]
    for N in (sizes if tier == "thorough" else [rng.choice([257, 513]), rng.choice([33, 65, 129, 201, 251, 1025])]):
        opts = _opts(rng)
        opts["integ"] = "trapz"
        m = rng.randint(3, 4)
        X, ck = _curves(rng, N, m, rng.choice(["rand", "zerocol"]))
        X[-1] = [8 * x + 3 if x != X[0][j] else x for j, x in enumerate(X[-1])]  # an atypical last curve
        X2, _ = _curves(rng, N, m)
        yield dict(kind="dense1", type="dense1", t=[rs(x) for x in _grid(rng, m)], X=_S(X), ck=ck, int=False, layout="C", X2=_S(X2), sized=True, **opts)
    # structured, in every run: pointwise standard deviations spanning 2^-50 .. 1 within ONE data set (dense 1-D / 2-D, basis, multivariate)
    for flavour in (["dense1", "dense1", "dense2", "basis1", "multi", "dense1", "basis1", "multi"] if tier == "thorough" else ["dense1", "dense1", "dense2", "basis1", "multi"]):
        opts = _opts(rng)
        opts["integ"] = "trapz"
        N = rng.randint(3, 7)
        if flavour == "dense1":
            m = rng.randint(5, 9)
            X2, _ = _curves(rng, N, m)
            yield dict(kind="dense1", type="dense1", t=[rs(x) for x in _grid(rng, m)], X=_S(_dynrange(rng, N, m)), ck="dynrange", int=False,
                       layout=rng.choice(["C", "F"]), X2=_S(X2), **opts)
        elif flavour == "dense2":
            m1, m2 = rng.randint(2, 3), rng.randint(3, 4)
            yield dict(kind="dense2", type="dense2", t1=[rs(x) for x in _grid(rng, m1)], t2=[rs(x) for x in _grid(rng, m2)],
                       X=_S(_dynrange(rng, N, m1 * m2)), ck="dynrange", int=False, **opts)
        elif flavour == "basis1":
            m, K = rng.randint(5, 8), rng.randint(2, 3)
            Bz = _dynrange(rng, K, m, zero_col=False)  # basis functions b_k(t_j) = c_j * integer
            C = [[Fraction(rng.randint(-6, 6)) for _ in range(K)] for _ in range(N)]
            yield dict(kind="basis1", type="basis1", t=[rs(x) for x in _grid(rng, m)], B=_S(Bz), C=_S(C), ck="dynrange", family=None, isn=False, **opts)
        else:
            m = rng.randint(5, 8)
            comps = [dict(type="dense1", t=[rs(x) for x in _grid(rng, m)], X=_S(_dynrange(rng, N, m)), ck="dynrange", int=False, layout="C"),
                     _dense_comp(rng, N)]
            yield dict(kind="multi", mix="dd", comps=comps, **opts, ck="dynrange", uw_form="float-array", uw=["0", "4"])
    # structured, in the head of every run: multivariate data with a dense component and an irregular component given with OWN sampling
    # points whose curves have DIFFERENT SUPPORTS (partial curves, every second point): the multivariate norm takes the irregular
    # component on the union grid, and normalize() must give unit multivariate norm
    for rep in range(2):
        opts = _opts(rng)
        opts["integ"], opts["stand"] = "trapz", bool(rep)
        N, m = 4, 9
        U = rng.grid(m, lo=0, scale=1, uniform=True)
        supports = [range(0, m, 2), range(0, 5), range(4, m), range(1, m, 2)]  # every second point / left part / right part / the other points
        obs = [dict(t=[rs(U[j]) for j in sup], y=[rs(rng.dyadic(-4, 4, 3) + 2) for _ in sup]) for sup in supports]
        ci = dict(type="irreg", enc="points", obs=obs, smooth=dict(method="LP", bw=rs(Fraction(1, 2))), ck="rand", vorder=None)
        cd = _dense_comp(rng, N)
        yield dict(kind="multi", mix="di", comps=[cd, ci], **opts, ck="partial-supports", uw_form="float-array", uw=["0", "4"])
    # structured, in every run: AMPLITUDE of the whole data set: a X for a = 2^-60 .. 2^60 (exact), mean level comparable to the spread;
    # every operation must be exactly homogeneous (degree 1: center, norm; 2: rescale weight; 0: normalised / standardised / rescaled values)
    for flavour in ("dense1", "dense2", "basis1", "irregular-points", "irregular-nan", "multivariate"):
        N, m = rng.randint(3, 6), rng.randint(6, 9)
        X = [[Fraction(rng.randint(-6, 6) + 3 + (j % 3)) for j in range(m)] for _ in range(N)]
        keep = [[(j + i) % 4 != 1 or j in (0, m - 1) for j in range(m)] for i in range(N)]
        B = [[Fraction(rng.randint(-4, 4)) for _ in range(m)] for _ in range(2)]
        B[0] = [b if b != 0 else Fraction(1) for b in B[0]]
        yield dict(kind="scale", flavour=flavour, t=[rs(x) for x in rng.grid(m, uniform=True)], X=_S(X), keep=keep, B=_S(B),
                   C=_S([[Fraction(rng.randint(-5, 5) + 2) for _ in range(2)] for _ in range(N)]), ck="rand", stand=rng.random() < 0.5)
    # structured, in every run: MEMORY LAYOUT of the values (column-major, transposed table, strided slice of a finer table, negative strides):
    # dense 1-D / 2-D and every observation of irregular data
    for lay in ("F", "T", "strided", "neg"):
        opts = _opts(rng)
        opts["integ"] = "trapz"
        N = rng.randint(3, 6)
        c1 = _dense_comp(rng, N)
        c1["layout"] = lay
        X2, _ = _curves(rng, N, len(c1["t"]))
        yield dict(kind="dense1", **c1, **opts, X2=_S(X2))
        c2 = _dense_comp(rng, N, True)
        c2["layout"] = lay
        yield dict(kind="dense2", **c2, **_opts(rng) | dict(integ="trapz"))
        if lay in ("strided", "neg"):
            ci = _irr_comp(rng, N)
            ci["layout"] = lay
            yield dict(kind="irreg", **ci, **opts, sub=False)
    # structured, in every run: SIZE THRESHOLDS of the union grid of irregular data (curves with their own sampling points):
    # 300, 511, 512, 513, 700, 1400 union points, few curves, explicit smoothing options
    for S in (300, 511, 512, 513, 700, 1400):
        opts = _opts(rng)
        opts["integ"] = "trapz"
        N = 4
        U = rng.grid(S, lo=0, scale=1, uniform=False)
        own = [set() for _ in range(N)]
        for j in range(S):
            own[rng.randrange(N)].add(j)
            if rng.random() < 0.25:
                own[rng.randrange(N)].add(j)
        a, b_, c_ = rng.dyadic(-2, 2, 3), rng.dyadic(-2, 2, 3), rng.dyadic(1, 3, 2)
        obs = []
        for i in range(N):
            idx = sorted(own[i] | {0, S - 1})
            obs.append(dict(t=[rs(U[j]) for j in idx],
                            y=[rs(Fraction(round((a + (i + 1) * b_ * U[j] + c_ * U[j] * U[j] * (i - 1) + rng.dyadic(-1, 1, 3) / 4) * 64), 64)) for j in idx]))
        yield dict(kind="irreg", type="irreg", enc="points", obs=obs, smooth=dict(method="LP", bw=rs(Fraction(1, 4))), ck="rand",
                   vorder=None, sub=False, big_union=True, **opts)
    # structured, in every run: irregular data whose VALUES dictionary is filled in another key order than the ARGVALS dictionary
    for enc, vo in (("points", "reversed"), ("nan", "rotated"), ("points", "rotated")):
        opts = _opts(rng)
        opts["integ"] = "trapz"
        comp = _irr_comp(rng, rng.randint(3, 5), enc=enc)
        comp["vorder"] = vo
        yield dict(kind="irreg", **comp, **opts, sub=False)
    kinds = ["dense1", "basis1", "irreg", "multi", "dense2", "dense1", "irreg", "basis1", "multi", "basis2"]
    for k in range(n):
        kind = kinds[k % len(kinds)]
        N = rng.randint(2, 10 if tier == "thorough" else 7)
        opts = _opts(rng)
        # scipy's Simpson rule has negative weights on strongly non-uniform grids: used on uniform grids only
        uni = True if opts["integ"] == "simpson" else None
        if kind == "dense1":
            comp = _dense_comp(rng, N, uniform=uni)
            X2, _ = _curves(rng, N, len(comp["t"]))
            yield dict(kind=kind, **comp, **opts, X2=_S(X2))
        elif kind == "dense2":
            yield dict(kind=kind, **_dense_comp(rng, N, True, uniform=uni), **opts)
        elif kind == "basis1":
            yield dict(kind=kind, **_basis_comp(rng, N, uniform=uni), **opts)
        elif kind == "basis2":
            yield dict(kind=kind, **_basis_comp(rng, N, True, uniform=uni), **opts)
        elif kind == "irreg":
            opts["integ"] = "trapz"
            yield dict(kind=kind, **_irr_comp(rng, N), **opts, sub=rng.random() < 0.3)
        elif kind == "multi":
            mix = rng.choice(["dd", "dd", "d2", "di", "db"])
            if mix == "di":
                opts["integ"], uni = "trapz", None
            comps = [_dense_comp(rng, N, uniform=uni)]
            comps.append(_dense_comp(rng, N, uniform=uni) if mix == "dd" else _dense_comp(rng, N, True, uniform=uni) if mix == "d2"
                         else _irr_comp(rng, N, lp_only=True) if mix == "di" else _basis_comp(rng, N, uniform=uni, named=False))
            if mix == "dd" and rng.random() < 0.4:
                comps.append(_dense_comp(rng, N, uniform=uni))
            form = rng.choice(["float-array", "float-array", "int-list", "int-array", "mixed-list"])
            if form != "float-array":
                # integer user weights, a given weight next to a 0 (= estimate) entry: [4, 0], np.array([4, 0]), [4, 0.0]
                iw = [rng.choice([0, 0, 4, 9, 1, 16]) for _ in comps]
                if all(x == 0 for x in iw) or all(x != 0 for x in iw):
                    iw[0], iw[-1] = rng.choice([4, 9]), 0
                yield dict(kind=kind, mix=mix, comps=comps, **opts, ck=comps[0]["ck"], uw=[rs(Fraction(x)) for x in iw], uw_form=form)
                continue
            yield dict(kind=kind, mix=mix, comps=comps, **opts, ck=comps[0]["ck"], uw_form=form,
                       uw=[rs(rng.choice([Fraction(0), Fraction(4), Fraction(9), Fraction(2) ** rng.randint(-40, 40), Fraction(2) ** rng.randint(-40, -27)]))
                           for _ in comps])


def search_cases(rng, tier):
    yield from gen_cases(rng, "quick")


def witness_cases():
    """The witnesses of the open findings (known_findings.d/C10.json), replayed on every run."""
    import json
    import os

    path = os.path.join(common.VERIF, "known_findings.d", "C10.json")
    if not os.path.exists(path):
        return []
    return [dict(f["witness"]) for f in json.load(open(path)).get("open", []) if f.get("property") == PROP and f.get("witness")]


# --------------------------------------------------------------------------
# implementation side
# --------------------------------------------------------------------------

def _build(comp):
    t = comp["type"]
    from c09 import _layout

    if t == "dense1":
        return _dense([_Fv(comp["t"])], _layout(_arr(comp), comp.get("layout")))
    if t == "dense2":
        t1, t2 = _Fv(comp["t1"]), _Fv(comp["t2"])
        return _dense([t1, t2], _layout(_arr(comp).reshape(-1, len(t1), len(t2)), comp.get("layout")))
    if t == "basis1":
        return _basis([_Fv(comp["t"])], None if comp.get("family") else fl(_Fm(comp["B"])), fl(_Fm(comp["C"])), comp.get("family"), comp.get("isn"))
    if t == "basis2":
        t1, t2 = _Fv(comp["t1"]), _Fv(comp["t2"])
        return _basis([t1, t2], np.array(fl(_Fm(comp["B"]))).reshape(-1, len(t1), len(t2)), fl(_Fm(comp["C"])), None, comp.get("isn"))
    if t == "irreg":
        pts = [[float(F(x)) for x in o["t"]] for o in comp["obs"]]
        vals = [[float("nan") if y == "nan" else float(F(y)) for y in o["y"]] for o in comp["obs"]]
        lay = comp.get("layout")
        if lay:  # every observation's samples (and points) as a strided / reversed view
            pts = [_layout(np.array(p, dtype=float), lay) for p in pts]
            vals = [_layout(np.array(v, dtype=float), lay) for v in vals]
        return _irregular(pts, vals, vorder=comp.get("vorder"))
    raise ValueError(t)


def _grid_vals(fd):
    """Dense view of a dense / basis object as (n_obs, flattened grid)."""
    if hasattr(fd, "to_grid") and hasattr(fd, "coefficients"):
        fd = fd.to_grid()
    return np.asarray(fd.values, dtype=float).reshape(fd.n_obs, -1)


def _smooth_kw(sm):
    """Explicit smoothing options of an irregular component: (center/mean kwargs, rescale/standardize kwargs).
    `interpolation` exists for the mean only; the variance-based operations then use LP with bandwidth 1/2."""
    if sm["method"] == "LP":
        bw = float(F(sm["bw"]))
        return dict(method_smoothing="LP", bandwidth=bw), dict(method_smoothing="LP", bandwidth=bw)
    if sm["method"] == "PS":
        return dict(method_smoothing="PS", n_segments=sm["nseg"]), dict(method_smoothing="LP", bandwidth=0.5)
    return dict(method_smoothing=sm["method"]), dict(method_smoothing="LP", bandwidth=0.5)


def _impl_grid(case, build, out):
    """dense1 / dense2 / basis1 / basis2: all four operations on fresh objects, plus options and a history."""
    opts = dict(use_argvals_stand=case["stand"], method_integration=case["integ"])
    w = float(F(case["w"]))
    is_basis = case["type"].startswith("basis")
    shape = _grid_vals(build()).shape

    def center():
        c = build().center()
        o = dict(v=_grid_vals(c).tolist(), again=_grid_vals(c.center()).tolist())
        if is_basis:
            o["coef_mean"] = np.abs(np.mean(c.coefficients, axis=0)).max()
        return o

    out["center"] = _call(center)

    if is_basis:
        out["B"] = _call(lambda: np.asarray(build().basis.values, dtype=float).reshape(build().basis.n_obs, -1).tolist())

    def normalize():
        nz = build().normalize(**opts)
        o = dict(v=_grid_vals(nz).tolist(), norm_after=np.asarray(nz.norm(**opts), dtype=float).tolist(),
                 norm_before=np.asarray(build().norm(**opts), dtype=float).tolist())
        if is_basis:
            # the same norm through the evaluated curves (BasisFunctionalData.norm ignores use_argvals_stand)
            o["norm_after_grid"] = np.asarray(nz.to_grid().norm(method_integration=case["integ"]), dtype=float).tolist()
        return o

    out["normalize"] = _call(normalize)

    def standardize(adv):
        fd = build()
        common.poison_heap()
        common.poison_like(shape, reps=12)
        if adv:
            with adversarial_divide() as a:
                r = fd.standardize(center=case["center"])
            return dict(v=_grid_vals(r).tolist(), hits=a.hits)
        return dict(v=_grid_vals(fd.standardize(center=case["center"])).tolist())

    out["standardize"] = _call(lambda: standardize(False))
    out["standardize_adv"] = _call(lambda: standardize(True))

    def rescale():
        r, wt = build().rescale(**opts)
        _, wt2 = r.rescale(**opts)
        return dict(v=_grid_vals(r).tolist(), w=float(wt), w_again=float(wt2))

    out["rescale"] = _call(rescale)

    def rescale_user():
        r, wt = build().rescale(weights=w, **opts)
        return dict(v=_grid_vals(r).tolist(), w=float(wt))

    out["rescale_user"] = _call(rescale_user)

    def rescale_transfer():
        # a weight estimated on small-amplitude data (x 2^-17) applied to other data (the FPCA transform pattern)
        ws = float(_build(_scale_comp(case, Fraction(1, 2 ** 17))).rescale(**opts)[1])
        r, wt = build().rescale(weights=ws, **opts)
        return dict(v=_grid_vals(r).tolist(), w=float(wt), ws=ws)

    out["rescale_transfer"] = _call(rescale_transfer)

    def history():
        # one object through every operation, then again: results must equal those of fresh objects
        fd = build()
        if case["type"] == "dense1":
            # first with OTHER options (smoothed mean), then with the options of the case
            fd.mean(method_smoothing="LP", bandwidth=0.5)
            fd.center(method_smoothing="LP", bandwidth=0.5)
        fd.center(); fd.normalize(**opts); fd.standardize(center=case["center"]); fd.rescale(**opts); fd.rescale(weights=w)  # noqa: E702
        fd.rescale(use_argvals_stand=not case["stand"]); fd.standardize(center=not case["center"])  # noqa: E702
        o = dict(center=_grid_vals(fd.center()).tolist(), standardize=_grid_vals(fd.standardize(center=case["center"])).tolist(),
                 w=float(fd.rescale(**opts)[1]), norm=np.asarray(fd.norm(**opts), dtype=float).tolist())
        if "X2" in case and not is_basis:
            X2 = np.array(fl(_Fm(case["X2"])))
            from FDApy.representation.values import DenseValues

            fd.values = DenseValues(X2)
            fresh = _dense([_Fv(case["t"])], X2)
            o["set_center"] = _grid_vals(fd.center()).tolist()
            o["set_center_fresh"] = _grid_vals(fresh.center()).tolist()
            o["set_w"] = float(fd.rescale(**opts)[1])
            o["set_w_fresh"] = float(fresh.rescale(**opts)[1])
            o["set_std"] = _grid_vals(fd.standardize()).tolist()
            o["set_std_fresh"] = _grid_vals(fresh.standardize()).tolist()
        return o

    out["history"] = _call(history)
    out["grid"] = _call(lambda: _grid_vals(build()).tolist())
    if case["type"] == "dense1" and "X2" in case and (case.get("sized") or case.get("ck") == "dynrange" or case.get("layout") not in (None, "C")
                                                      or int(common.digest(case), 16) % 3 == 0):
        # on the structured dense cases of every run and on a third of the random ones (48 extra operation calls per case)
        out["reassigned"] = _call(lambda: _impl_reassigned(case, build))
    if case["type"] == "dense1" and not case.get("sized"):
        # the operations on DERIVED objects (results of other operations) against freshly built twins with the same values
        deriv = {"center()": lambda fd: fd.center(), "center(method_smoothing='LP')": lambda fd: fd.center(method_smoothing="LP", bandwidth=0.5),
                 "standardize()": lambda fd: fd.standardize(), "rescale()[0]": lambda fd: fd.rescale()[0], "normalize()": lambda fd: fd.normalize(),
                 "fd * 2": lambda fd: fd * 2.0, "fd[1:]": lambda fd: fd[1:]}
        dops = {"center": lambda f: _grid_vals(f.center()).tolist(), "standardize": lambda f: _grid_vals(f.standardize(center=case["center"])).tolist(),
                "rescale": lambda f: float(f.rescale(**opts)[1]), "norm": lambda f: np.asarray(f.norm(**opts), dtype=float).tolist()}
        res = {}
        for dn, mk in deriv.items():
            def one(mk=mk):
                d = mk(build())
                twin = _dense([_Fv(case["t"])], np.array(d.values, dtype=float, copy=True))
                amp = float(np.abs(np.asarray(d.values, dtype=float)).max())
                return {nm: [_call(lambda: op(d)), _call(lambda: op(twin)), amp] for nm, op in dops.items()}
            res[dn] = _call(one)
        out["derived"] = res
    _variants(build, {
        "center": lambda fd: _grid_vals(fd.center()).tolist(),
        "normalize": lambda fd: _grid_vals(fd.normalize(**opts)).tolist(),
        "standardize": lambda fd: _grid_vals(fd.standardize(center=case["center"])).tolist(),
        "rescale": lambda fd: (lambda r: [_grid_vals(r[0]).tolist(), float(r[1])])(fd.rescale(**opts)),
        "rescale(weights=w)": lambda fd: (lambda r: [_grid_vals(r[0]).tolist(), float(r[1])])(fd.rescale(weights=w, **opts)),
        "norm": lambda fd: np.asarray(fd.norm(**opts), dtype=float).tolist(),
    }, out)


def _impl_reassigned(case, build):
    """Objects whose attributes were reassigned through the public setters BEFORE the operation: a new grid of the same size with another
    spacing, new values, a user-supplied argvals_stand followed by a new grid.  Every result is given next to that of a freshly built
    object with the final grid and values; the standardised grid is reported for the independent check against (t - min)/(max - min)."""
    from FDApy.representation.argvals import DenseArgvals
    from FDApy.representation.functional_data import MultivariateFunctionalData
    from FDApy.representation.values import DenseValues

    t = _Fv(case["t"])
    m = len(t)
    span = t[-1] - t[0]
    t2 = [float(t[0] + span * Fraction(j * j, (m - 1) ** 2)) for j in range(m)]  # same size, same ends, another spacing
    t_mid = [float(t[0] + span * Fraction(j * j * j, (m - 1) ** 3)) for j in range(m)]
    X = np.array(_grid_vals(build()))
    X2 = np.array(fl(_Fm(case["X2"])))
    integ = case["integ"]
    ops = {}
    for st in (True, False):
        o = dict(use_argvals_stand=st, method_integration=integ)
        ops[f"norm(stand={st})"] = lambda f, o=o: np.asarray(f.norm(**o), dtype=float).tolist()
        ops[f"normalize.norm(stand={st})"] = lambda f, o=o: np.asarray(f.normalize(**o).norm(**o), dtype=float).tolist()
        ops[f"rescale weight(stand={st})"] = lambda f, o=o: float(f.rescale(**o)[1])
        ops[f"rescale re-estimate(stand={st})"] = lambda f, o=o: float(f.rescale(**o)[0].rescale(**o)[1])
    res = {"t2": t2}
    for seq in ("argvals", "values+argvals", "argvals+argvals_stand+argvals"):
        fd = build()
        vals = X
        if seq.startswith("values"):
            fd.values = DenseValues(X2.copy())
            vals = X2
        if "argvals_stand" in seq:
            fd.argvals = DenseArgvals({"input_dim_0": np.array(t_mid)})
            fd.argvals_stand = DenseArgvals({"input_dim_0": np.linspace(0.0, 1.0, m) ** 3})
        fd.argvals = DenseArgvals({"input_dim_0": np.array(t2)})
        from c09 import _layout

        twin = _dense([t2], _layout(vals.copy(), case.get("layout")))  # same numbers, same memory layout
        r = {nm: [_call(lambda: op(fd)), _call(lambda: op(twin))] for nm, op in ops.items()}
        r["stand"] = np.asarray(fd.argvals_stand["input_dim_0"], dtype=float).tolist()
        r["vals"] = vals.tolist()
        if seq == "argvals":
            o = dict(use_argvals_stand=True, method_integration=integ)
            other = lambda: _dense([_Fv(case["t"])], X.copy())  # noqa: E731
            r["multivariate rescale weights(stand=True)"] = [
                _call(lambda: np.asarray(MultivariateFunctionalData([fd, other()]).rescale(**o)[1], dtype=float).tolist()),
                _call(lambda: np.asarray(MultivariateFunctionalData([twin, other()]).rescale(**o)[1], dtype=float).tolist())]
        res[seq] = r
    return res


def _impl_irreg(case, out, comp=None):
    comp = comp or case
    ckw, rkw = _smooth_kw(comp["smooth"])
    opts = dict(use_argvals_stand=case["stand"], method_integration=case["integ"])
    w = float(F(case["w"]))
    big = bool(case.get("big_union"))  # union grid of hundreds of points: only the operations that stay cheap (no covariance smoothing)

    def build():
        fd = _build(comp)
        if case.get("sub"):
            # the same curves as a sub-selection of a larger data set (labels 1..N)
            pts = [fd.argvals[k]["input_dim_0"] for k in sorted(fd.argvals)]
            vals = [fd.values[k] for k in sorted(fd.argvals)]
            fd = _irregular([pts[0]] + pts, [vals[0]] + vals)[1:]
        return fd

    out["vals"] = _call(lambda: _vals(build()))

    def interp():
        sm = build().smooth(method="interpolation")
        return dict(U=np.asarray(sm.argvals["input_dim_0"], dtype=float).tolist(), v=np.asarray(sm.values, dtype=float).tolist())

    out["interp"] = _call(interp)

    def std_parts():
        # what IrregularFunctionalData.standardize divides: the centred samples and the root of the smoothed variance at the own points
        cen = build().center(**rkw)
        cov = cen.covariance(**rkw)
        var = np.diag(cov.values.squeeze())
        U = np.asarray(cov.argvals["input_dim_0"], dtype=float)
        sds = []
        for k in sorted(cen.values):
            pts = np.asarray(cen.argvals[k]["input_dim_0"], dtype=float)
            sds.append(np.sqrt(var[np.isin(U, pts)]).tolist())
        return dict(v=_vals(cen), sd=sds)

    if not big:
        out["std_parts"] = _call(std_parts)

    def center():
        fd = build()
        c = fd.center(**ckw)
        fresh = build()
        mean = fresh.mean(points=fresh.argvals.to_dense(), **ckw)
        return dict(v=_vals(c), labels=sorted(int(k) for k in c.values), in_labels=sorted(int(k) for k in fd.values),
                    U=np.asarray(mean.argvals["input_dim_0"], dtype=float).tolist(), mean=np.asarray(mean.values[0], dtype=float).tolist())

    out["center"] = _call(center)

    def ragged():
        """The same content in the ragged encoding (missing samples dropped instead of NaN)."""
        fd = build()
        keys = sorted(fd.argvals)
        pts = [np.asarray(fd.argvals[k]["input_dim_0"], dtype=float) for k in keys]
        vals = [np.asarray(fd.values[k], dtype=float) for k in keys]
        return _irregular([p[~np.isnan(v)] for p, v in zip(pts, vals)], [v[~np.isnan(v)] for v in vals], labels=[int(k) for k in keys])

    def normalize():
        nz = build().normalize(**opts)
        return dict(v=_vals(nz), norm_after=np.asarray(nz.norm(**opts), dtype=float).tolist(),
                    norm_before=np.asarray(build().norm(**opts), dtype=float).tolist(),
                    norm_ragged=np.asarray(ragged().norm(**opts), dtype=float).tolist())

    out["normalize"] = _call(normalize)

    def standardize(adv):
        fd = build()
        common.poison_heap()
        if adv:
            with adversarial_divide() as a:
                r = fd.standardize(**rkw)
            return dict(v=_vals(r), hits=a.hits)
        return dict(v=_vals(fd.standardize(**rkw)))

    if not big:
        out["standardize"] = _call(lambda: standardize(False))
        out["standardize_adv"] = _call(lambda: standardize(True))

    def rescale():
        ro = dict(use_argvals_stand=case["stand"], method_integration=case["integ"], **rkw)
        r, wt = build().rescale(**ro)
        _, wt2 = r.rescale(**ro)
        return dict(v=_vals(r), w=float(wt), w_again=float(wt2))

    out["rescale"] = _call(rescale)

    def rescale_user():
        r, wt = build().rescale(weights=w)
        return dict(v=_vals(r), w=float(wt))

    out["rescale_user"] = _call(rescale_user)

    def rescale_transfer():
        ro = dict(use_argvals_stand=case["stand"], method_integration=case["integ"], **rkw)
        small = _build(_scale_comp(comp, Fraction(1, 2 ** 17)))
        ws = float(small.rescale(**ro)[1])
        r, wt = build().rescale(weights=ws, **ro)
        return dict(v=_vals(r), w=float(wt), ws=ws)

    out["rescale_transfer"] = _call(rescale_transfer) if not (case.get("sub") or big) else None

    def history():
        # ONE object: mean / center / standardize with OTHER smoothing options first, then the options of the case
        alt = _alt_kw(comp["smooth"], len(comp["obs"]))
        ro = dict(use_argvals_stand=case["stand"], method_integration=case["integ"], **rkw)
        fd = build()
        fd.mean(**alt)
        o = dict(after_mean=_vals(fd.center(**ckw)))
        fd.center(**alt)
        fd.standardize(**(alt if alt["method_smoothing"] == "LP" else dict(method_smoothing="LP", bandwidth=0.75)))
        fd.rescale(weights=w)
        o["center"] = _vals(fd.center(**ckw))
        o["w"] = float(fd.rescale(**ro)[1])
        o["norm"] = np.asarray(fd.norm(**opts), dtype=float).tolist()
        o["standardize"] = _vals(fd.standardize(**rkw))
        return o

    if big:
        return
    out["history"] = _call(history)
    ro_ = dict(use_argvals_stand=case["stand"], method_integration=case["integ"], **rkw)
    _variants(build, {
        "center": lambda fd: _vals(fd.center(**ckw)),
        "normalize": lambda fd: _vals(fd.normalize(**opts)),
        "standardize": lambda fd: _vals(fd.standardize(**rkw)),
        "rescale": lambda fd: (lambda r: [_vals(r[0]), float(r[1])])(fd.rescale(**ro_)),
        "rescale(weights=w)": lambda fd: (lambda r: [_vals(r[0]), float(r[1])])(fd.rescale(weights=w)),
        "norm": lambda fd: np.asarray(fd.norm(**opts), dtype=float).tolist(),
    }, out)


def _alt_kw(sm, parity):
    """Smoothing options that differ from the case's own (for the first calls of a history)."""
    if sm["method"] == "LP":
        if parity % 2:
            return dict(method_smoothing="PS", n_segments=4)
        return dict(method_smoothing="LP", bandwidth=2 * float(F(sm["bw"])))
    if sm["method"] == "PS":
        return dict(method_smoothing="PS", n_segments=sm["nseg"] + 3) if parity % 2 else dict(method_smoothing="LP", bandwidth=0.5)
    return dict(method_smoothing="LP", bandwidth=0.5)


def _impl_multi(case, out):
    from FDApy.representation.functional_data import MultivariateFunctionalData

    comps = case["comps"]
    opts = dict(use_argvals_stand=case["stand"], method_integration=case["integ"])
    irr = [c for c in comps if c["type"] == "irreg"]
    ckw, rkw = _smooth_kw(irr[0]["smooth"]) if irr else ({}, {})

    def build():
        return MultivariateFunctionalData([_build(c) for c in comps])

    def cv(fd):
        return _vals(fd) if hasattr(getattr(fd, "values", None), "keys") else _grid_vals(fd).tolist()

    def center():
        m = build().center(**ckw)
        single = [_build(c).center(**ckw) for c in comps]
        o = dict(v=[cv(x) for x in m.data], single=[cv(x) for x in single])
        if irr:
            # ONE multivariate object: centred with other smoothing options first
            alt = dict(method_smoothing="LP", bandwidth=2 * ckw["bandwidth"])
            mm = build()
            mm.center(**alt)
            o["hist"] = [cv(x) for x in mm.center(**ckw).data]
        return o

    out["center"] = _call(center)

    def normalize():
        fd = build()
        nz = fd.normalize(**opts)
        return dict(v=[cv(x) for x in nz.data], norm_after=np.asarray(nz.norm(**opts), dtype=float).tolist(),
                    norm_before=np.asarray(fd.norm(**opts), dtype=float).tolist(),
                    comp_norms=[np.asarray(x.norm(**opts), dtype=float).tolist() for x in build().data],
                    raw=[cv(x) for x in build().data],
                    comp_norms_after=[np.asarray(x.norm(**opts), dtype=float).tolist() for x in nz.data])

    out["normalize"] = _call(normalize)

    def standardize(adv):
        fd = build()
        common.poison_heap()
        if adv:
            with adversarial_divide() as a:
                r = fd.standardize(center=case["center"], **ckw)
            return dict(v=[cv(x) for x in r.data], hits=a.hits)
        r = fd.standardize(center=case["center"], **ckw)
        base = fd.center(**ckw) if case["center"] else fd
        single = [x.standardize(center=False, **ckw) for x in base.data]
        return dict(v=[cv(x) for x in r.data], single=[cv(x) for x in single])

    out["standardize"] = _call(lambda: standardize(False))
    out["standardize_adv"] = _call(lambda: standardize(True))

    def rescale():
        ro = dict(opts, **rkw)
        r, wt = build().rescale(**ro)
        _, wt2 = r.rescale(**ro)
        single = [x.rescale(**ro) for x in build().data]
        return dict(v=[cv(x) for x in r.data], w=np.asarray(wt, dtype=float).tolist(), w_again=np.asarray(wt2, dtype=float).tolist(),
                    single_w=[float(s[1]) for s in single], single_v=[cv(s[0]) for s in single])

    out["rescale"] = _call(rescale)

    def user_weights():
        """The user's weights in the form the case asks for (float array, Python ints, integer array, mixed list)."""
        form = case.get("uw_form", "float-array")
        q = [F(x) for x in case["uw"]]
        if form == "int-list":
            return [int(x) for x in q]
        if form == "int-array":
            return np.array([int(x) for x in q], dtype=np.int64)
        if form == "mixed-list":
            return [int(x) if k % 2 == 0 else float(x) for k, x in enumerate(q)]
        return np.array([float(x) for x in q])

    def rescale_user():
        uw = user_weights()
        ro = dict(opts, **rkw)
        r, wt = build().rescale(weights=uw, **ro)
        return dict(v=[cv(x) for x in r.data], w=np.asarray(wt, dtype=float).tolist(), raw=[cv(x) for x in build().data])

    out["rescale_user"] = _call(rescale_user)
    ro_ = dict(opts, **rkw)
    _variants(build, {
        "center": lambda fd: [cv(x) for x in fd.center(**ckw).data],
        "normalize": lambda fd: [cv(x) for x in fd.normalize(**opts).data],
        "standardize": lambda fd: [cv(x) for x in fd.standardize(center=case["center"], **ckw).data],
        "rescale": lambda fd: (lambda r: [[cv(x) for x in r[0].data], np.asarray(r[1], dtype=float).tolist()])(fd.rescale(**ro_)),
        "norm": lambda fd: np.asarray(fd.norm(**opts), dtype=float).tolist(),
    }, out)


def _impl_scale(case):
    from c09 import _sweep
    from FDApy.representation.functional_data import MultivariateFunctionalData

    t = _Fv(case["t"])
    tf = fl(t)
    X0 = np.array(fl(_Fm(case["X"])))
    B0, C0 = np.array(fl(_Fm(case["B"]))), np.array(fl(_Fm(case["C"])))
    keep = case["keep"]
    fl_ = case["flavour"]
    st = dict(use_argvals_stand=case["stand"])
    irr = fl_.startswith("irregular")
    lp = dict(method_smoothing="LP", bandwidth=0.5) if irr else {}

    def build(a):
        X = X0 * float(a)  # exact: a is a power of two
        if fl_ == "dense1":
            return _dense([t], X)
        if fl_ == "dense2":
            m1 = 2 if X.shape[1] % 2 == 0 else 3
            X = X[:, : X.shape[1] - X.shape[1] % m1]
            return _dense([t[:m1], t[: X.shape[1] // m1]], X.reshape(len(X), m1, -1))
        if fl_ == "basis1":
            return _basis([t], B0, C0 * float(a))
        if fl_ == "irregular-nan":
            return _irregular([tf] * len(X), [[x if kp else float("nan") for x, kp in zip(r, k)] for r, k in zip(X.tolist(), keep)])
        if fl_ == "irregular-points":
            return _irregular([[u for u, kp in zip(tf, k) if kp] for k in keep], [[x for x, kp in zip(r, k) if kp] for r, k in zip(X.tolist(), keep)])
        return MultivariateFunctionalData([_dense([t], X), _dense([t], (X[::-1] + float(a)).copy())])

    def vv(f):
        if hasattr(f, "data") and isinstance(f.data, list):
            return [vv(c) for c in f.data]
        return _vals(f) if hasattr(getattr(f, "values", None), "keys") else _grid_vals(f).tolist()

    ops = {"center": (lambda f: vv(f.center(**lp)), 1),
           "normalize": (lambda f: vv(f.normalize(**st)), 0),
           "norm": (lambda f: np.asarray(f.norm(**st), dtype=float).tolist(), 1),
           "standardize": (lambda f: vv(f.standardize(**lp)), 0),
           "standardize(center=False)": (lambda f: vv(f.standardize(center=False, **lp)), 0),
           "rescale weight": (lambda f: np.asarray(f.rescale(**st, **lp)[1], dtype=float).tolist(), 2),
           "rescale values": (lambda f: vv(f.rescale(**st, **lp)[0]), 0)}
    if fl_ == "basis1":
        ops.pop("normalize")  # compared through to_grid below: the normalised COEFFICIENTS are what is scale-free
        ops["normalize"] = (lambda f: _grid_vals(f.normalize()).tolist(), 0)
    return _sweep(build, ops)


def run_impl(case):
    kind = case["kind"]
    out = {}
    if kind == "scale":
        return _call(lambda: _impl_scale(case))
    if kind in ("dense1", "dense2", "basis1", "basis2"):
        _impl_grid(case, lambda: _build(case), out)
    elif kind == "irreg":
        _impl_irreg(case, out)
    elif kind == "multi":
        _impl_multi(case, out)
    return out


# --------------------------------------------------------------------------
# model side
# --------------------------------------------------------------------------

def _exact_grid(case):
    """Exact values on the (flattened) grid: dense data as given, basis data C·B."""
    if case["type"].startswith("basis"):
        B, C = _Fm(case["B"]), _Fm(case["C"])
        return [[sum(c[k] * B[k][j] for k in range(len(B))) for j in range(len(B[0]))] for c in C]
    return _Fm(case["X"])


def model_lines(case, impl):
    case = _resolve(case, impl)
    if case is None:
        return []
    kind = case["kind"]
    if kind in ("dense1", "basis1"):
        X = _M(_S(_exact_grid(case)))
        t = ",".join(case["t"])
        s = "1" if case["stand"] else "0"
        sn = "0" if kind == "basis1" else s  # BasisFunctionalData.norm accepts use_argvals_stand and ignores it
        ls = [f"center {X}", f"std {X} {'1' if case['center'] else '0'}", f"weight {t} {X} {s}", f"normalize {t} {X} {sn}",
              f"normsq {t} {X} {sn}", f"scale {X} {case['w']}", "bvar 1"]
        if kind == "basis1":
            ls.append(f"grid {_M(case['C'])} {_M(case['B'])}")
        return ls
    if kind in ("dense2", "basis2"):
        X = _M(_S(_exact_grid(case)))
        t1, t2 = ",".join(case["t1"]), ",".join(case["t2"])
        return [f"center {X}", f"std {X} {'1' if case['center'] else '0'}", f"weight2 {t1} {t2} {X}", f"normsq2 {t1} {t2} {X}",
                f"scale {X} {case['w']}", "bvar " + ("2" if kind == "basis2" else "1")]
    if kind == "irreg":
        ls = []
        for part in _irreg_parts(case, impl):
            if part == "isin":
                c = impl["center"]
                U, Mv = common.vec(c["U"]), common.vec(c["mean"])
                ls += [f"isin {U} {Mv} {','.join(o['t'])} {','.join(o['y'])}" for o in case["obs"]]
            elif part == "interp":
                U = common.vec(impl["interp"]["U"])
                for o in case["obs"]:
                    tp = [t for t, y in zip(o["t"], o["y"]) if y != "nan"]
                    fp = [y for y in o["y"] if y != "nan"]
                    ls.append(f"interp {','.join(tp)} {','.join(fp)} {U}")
            elif part == "stdthr":
                sp = impl["std_parts"]
                for v, sd in zip(sp["v"], sp["sd"]):
                    ls.append("stdthr " + common.vec(v) + " " + ",".join("nan" if math.isnan(x) else rs(F(x)) for x in sd))
        return ls
    if kind == "multi":
        ls = ["mnorm " + ",".join("b" if c["type"].startswith("basis") else "g" for c in case["comps"])]
        s = "1" if case["stand"] else "0"
        for c in case["comps"]:
            if c["type"] in ("dense1", "basis1"):
                X = _M(_S(_exact_grid(c)))
                sn = "0" if c["type"] == "basis1" else s
                ls += [f"normsq {','.join(c['t'])} {X} {sn}", f"weight {','.join(c['t'])} {X} {s}"]
            elif c["type"] == "dense2":
                X = _M(_S(_exact_grid(c)))
                ls += [f"normsq2 {','.join(c['t1'])} {','.join(c['t2'])} {X}", f"weight2 {','.join(c['t1'])} {','.join(c['t2'])} {X}"]
        return ls
    return []


def _irreg_parts(case, impl):
    """Which groups of model requests an irregular case has (each group: one line per curve)."""
    parts = []
    c = impl.get("center") if isinstance(impl, dict) else None
    if c is not None and not _err(c) and all(math.isfinite(x) for x in c["mean"]):
        parts.append("isin")
    ip = impl.get("interp") if isinstance(impl, dict) else None
    if ip is not None and not _err(ip):
        parts.append("interp")
    sp = impl.get("std_parts") if isinstance(impl, dict) else None
    if sp is not None and not _err(sp) and not _err(impl.get("standardize")) and case["enc"] != "nan" \
            and all(len(v) == len(sd) and all(math.isfinite(x) for x in v) and not any(math.isinf(x) for x in sd) for v, sd in zip(sp["v"], sp["sd"])):
        parts.append("stdthr")
    return parts


def parse_model(case, outs):
    return dict(outs=outs)


def _sq(v):
    return v * abs(v)


def _cmp_vec(name, fs, qs, scale=None, rtol=1e-9):
    i = close_all(fs, qs, scale, rtol)
    if i is None:
        return []
    if i == -1:
        return [f"{name}: length {len(list(fs))} vs model {len(list(qs))}"]
    return [f"{name}[{i}]: impl {list(fs)[i]!r} vs exact {float(list(qs)[i])!r}"]


def _cmp_mat(name, A, Q, scale, rtol=1e-9, sq=False):
    if len(A) != len(Q):
        return [f"{name}: {len(A)} rows vs model {len(Q)}"]
    for i, (ar, qr) in enumerate(zip(A, Q)):
        if sq:
            ar = [_sq(x) for x in ar]
        d = _cmp_vec(f"{name}[{i}]", ar, qr, scale, rtol)
        if d:
            return d
    return []


def _scales(Xf):
    """(max |x|, max |x - mean|) of exact data."""
    N, m = len(Xf), len(Xf[0])
    mean = [sum(r[j] for r in Xf) / N for j in range(m)]
    big = float(max(abs(x) for r in Xf for x in r)) + 1e-300
    dev = float(max(abs(r[j] - mean[j]) for r in Xf for j in range(m)))
    return big, dev


def _col_scales(Xf):
    """Per grid point: (max |x_ij|, exact population variance)."""
    N, m = len(Xf), len(Xf[0])
    cb, cv = [], []
    for j in range(m):
        mu = sum(r[j] for r in Xf) / N
        cb.append(float(max(abs(r[j]) for r in Xf)))
        cv.append(float(sum((r[j] - mu) ** 2 for r in Xf) / N))
    return cb, cv


def _min_pos_var(Xf):
    N, m = len(Xf), len(Xf[0])
    vs = []
    for j in range(m):
        mu = sum(r[j] for r in Xf) / N
        v = sum((r[j] - mu) ** 2 for r in Xf) / N
        if v > 0:
            vs.append(v)
    return float(min(vs)) if vs else 1.0


def compare(case, impl, model):
    return [d for d in _compare(case, impl, model) if "ModuleNotFoundError" not in d]


def _compare(case, impl, model):
    if "__crash__" in impl:
        return [f"implementation crashed: {impl['__crash__']} {impl.get('msg')}"]
    case = _resolve(case, impl)
    if case is None:
        return []
    kind = case["kind"]
    outs = model["outs"]
    ds = []
    if kind in ("dense1", "basis1", "dense2", "basis2"):
        Xf = _exact_grid(case)
        N = len(Xf)
        big, dev = _scales(Xf)
        one = kind in ("dense1", "basis1")
        trapz = case["integ"] == "trapz"
        ix = dict(center=0, std=1, weight=2)
        if one:
            ix.update(normalize=3, normsq=4, scale=5, bvar=6)
        else:
            ix.update(normsq=3, scale=4, bvar=5)
        if kind == "basis1" and not _err(impl["grid"]):
            ds += _cmp_mat("to_grid", impl["grid"], pmat(outs[7]), big)
        c = impl["center"]
        if _err(c):
            ds.append(f"center raised {c['error']}: {c.get('msg')}")
        else:
            ds += _cmp_mat("center", c["v"], pmat(outs[ix["center"]]), big)
        bvar_err = outs[ix["bvar"]].startswith("error:")
        # operations that need the pointwise variance of basis data follow `basisVarianceImpl`
        for op in ("standardize", "rescale"):
            r = impl[op]
            if bvar_err:
                # Impl model: ValueError.  A tree in which the finding is repaired returns numbers: those are compared with the Spec below.
                if _err(r):
                    if r["error"] != outs[ix["bvar"]].split(":", 1)[1]:
                        ds.append(f"{op}: implementation raised {r['error']}, model {outs[ix['bvar']]}")
                    continue
            if _err(r):
                ds.append(f"{op} raised {r['error']}: {r.get('msg')}")
                continue
            if op == "standardize":
                # signed squares of standardised values are <= N; rounding of the centring enters relative to the smallest sd
                # signed squares of standardised values are <= N; the rounding of the centring enters relative to the sd OF THAT GRID POINT
                Q = pmat(outs[ix["std"]])
                cb, cv = _col_scales(Xf)
                if len(r["v"]) != len(Q):
                    ds.append(f"standardize: {len(r['v'])} rows vs model {len(Q)}")
                else:
                    for j in range(len(Xf[0])):
                        if cv[j] == 0:
                            sc = 1.0
                        else:
                            sc = N * (1 + 1e-6 * cb[j] / math.sqrt(cv[j])) if case["center"] else cb[j] * cb[j] / cv[j]
                        d = _cmp_vec(f"standardize[:, {j}]", [_sq(row[j]) for row in r["v"]], [q[j] for q in Q], sc)
                        if d:
                            ds += d
                            break
            elif (trapz and one) or (not one and trapz and not case["stand"]):
                wq = F(outs[ix["weight"]]) if outs[ix["weight"]] not in ("error", "bad") else None
                if wq is None:
                    ds.append(f"rescale: model rejects the grid ({outs[ix['weight']]})")
                elif wq > 0:
                    wsc = float(wq) * (1 + 1e-6 * big / (dev + 1e-300)) + 1e-300
                    if not close(r["w"], wq, wsc, 1e-9):
                        ds.append(f"rescale weight: impl {r['w']!r} vs exact {float(wq)!r}")
                    Q = [[_sq(x) / wq for x in row] for row in Xf]
                    ds += _cmp_mat("rescale values", r["v"], Q, big * big / float(wq) * (1 + 1e-6 * big / (dev + 1e-300)), sq=True)
        ru = impl["rescale_user"]
        if _err(ru):
            ds.append(f"rescale(weights=w) raised {ru['error']}: {ru.get('msg')}")
        else:
            ds += _cmp_mat("rescale(weights=w) values", ru["v"], pmat(outs[ix["scale"]]), big * big / float(F(case["w"])), sq=True)
            if ru["w"] != float(F(case["w"])):
                ds.append(f"rescale(weights=w) returned weight {ru['w']}")
        nz = impl["normalize"]
        if one and trapz and not _err(nz):
            rows = outs[ix["normalize"]].split(";")
            nsq = pvec(outs[ix["normsq"]])
            for i, row in enumerate(rows):
                if row == "zero-norm":
                    if all(math.isfinite(x) for x in nz["v"][i]):
                        ds.append(f"normalize: curve {i} has norm zero but the implementation returned finite values")
                    continue
                q = pvec(row)
                sc = big * big / float(nsq[i])
                d = _cmp_vec(f"normalize[{i}]", [_sq(x) for x in nz["v"][i]], q, sc)
                if d:
                    ds += d
                    break
            ds += _cmp_vec("norm^2", [x * x for x in nz["norm_before"]], nsq, None)
        elif not one and trapz and not case["stand"] and not _err(nz):
            ds += _cmp_vec("norm^2 (2-D)", [x * x for x in nz["norm_before"]], pvec(outs[ix["normsq"]]), None)
    elif kind == "irreg":
        n = len(case["obs"])
        groups = {part: outs[k * n:(k + 1) * n] for k, part in enumerate(_irreg_parts(case, impl))}
        if "interp" in groups:
            # np.interp on the union grid (the interpolant behind .norm) and its squared norm
            ip = impl["interp"]
            nz = impl["normalize"]
            for i, (line, v) in enumerate(zip(groups["interp"], ip["v"])):
                if line in ("error", "bad"):
                    ds.append(f"interpolant of curve {i}: model rejects ({line})")
                    continue
                vals_, nsq = line.split(" ")
                d = _cmp_vec(f"interpolant of curve {i}", v, pvec(vals_), None, 1e-12)
                if d:
                    ds += d
                    break
                if not _err(nz) and not case["stand"] and not close(nz["norm_before"][i] ** 2, F(nsq), max(float(F(nsq)), 1e-300), 1e-9):
                    ds.append(f"norm^2 of irregular curve {i}: impl {nz['norm_before'][i] ** 2!r} vs norm of the interpolant {float(F(nsq))!r}")
                    break
        if "stdthr" in groups:
            s0 = impl["standardize"]
            for i, (line, v) in enumerate(zip(groups["stdthr"], s0["v"])):
                d = _cmp_vec(f"standardize curve {i}", v, pvec(line), None, 1e-12)
                if d:
                    ds += d
                    break
        c = impl["center"]
        if _err(c) or "isin" not in groups:
            return ds
        for i, (line, v) in enumerate(zip(groups["isin"], c["v"])):
            if line.startswith("error:"):
                ds.append(f"center curve {i}: model raises {line} (selection has another length than the curve)")
                continue
            toks = line.split(" ", 1)[1].split(",") if " " in line else []
            if len(toks) != len(v):
                ds.append(f"center curve {i}: {len(v)} values vs model {len(toks)}")
                continue
            for k, (tok, x) in enumerate(zip(toks, v)):
                if tok == "nan":
                    if not math.isnan(x):
                        ds.append(f"center curve {i}[{k}]: missing sample became {x}")
                        break
                elif not close(x, F(tok), max(abs(float(F(tok))), abs(x), 1.0), 1e-13):
                    ds.append(f"center curve {i}[{k}]: impl {x!r} vs value - mean = {float(F(tok))!r}")
                    break
    elif kind == "multi":
        # multivariate norm / weights against the per-component model values
        nz0 = impl["normalize"]
        if outs[0].startswith("error:"):
            # Impl model: TypeError.  A tree in which the finding is repaired returns numbers (judged by the oracle).
            if _err(nz0) and nz0["error"] != outs[0].split(":", 1)[1]:
                ds.append(f"multivariate normalize: implementation raised {nz0['error']}, model {outs[0]}")
        elif _err(nz0):
            ds.append(f"multivariate normalize raised {nz0['error']}: {nz0.get('msg')}, model carries it out")
        k = 1
        nsqs, ws, ok = [], [], True
        for cmp_ in case["comps"]:
            if cmp_["type"] == "irreg" or (cmp_["type"] == "dense2" and case["stand"]):
                ok = False
                if cmp_["type"] != "irreg":
                    k += 2
                continue
            nsqs.append(pvec(outs[k]) if outs[k] not in ("error", "bad") else None)
            ws.append(F(outs[k + 1]) if outs[k + 1] not in ("error", "bad") else None)
            k += 2
        if ok and case["integ"] == "trapz" and all(x is not None for x in nsqs):
            nz = impl["normalize"]
            if not _err(nz):
                N = len(nsqs[0])
                tot = [sum(math.sqrt(float(q[i])) for q in nsqs) for i in range(N)]
                for i, (a, b) in enumerate(zip(nz["norm_before"], tot)):
                    if abs(a - b) > 1e-9 * max(b, 1e-300):
                        ds.append(f"multivariate norm[{i}]: impl {a!r} vs sum of component norms {b!r}")
                        break
            r = impl["rescale"]
            if not _err(r) and all(w is not None for w in ws):
                Xs = [_exact_grid(c) for c in case["comps"]]
                for p, (a, b) in enumerate(zip(r["w"], ws)):
                    big, dev = _scales(Xs[p])
                    if not close(a, b, float(b) * (1 + 1e-6 * big / (dev + 1e-300)) + 1e-300, 1e-9):
                        ds.append(f"multivariate rescale weight[{p}]: impl {a!r} vs exact {float(b)!r}")
    return ds


# --------------------------------------------------------------------------
# the property's own predicate, evaluated on the implementation
# --------------------------------------------------------------------------

def _finite(M):
    return all(math.isfinite(x) for r in M for x in r)


def _entry(case, op, comp=None):
    t = (comp or case).get("type", case["kind"])
    cls = dict(dense1="DenseFunctionalData", dense2="DenseFunctionalData", basis1="BasisFunctionalData", basis2="BasisFunctionalData",
               irreg="IrregularFunctionalData", multi="MultivariateFunctionalData")[t if comp else case["kind"]]
    return f"{cls}.{op}"


def _trapz_exact(t, y):
    return sum((t[j + 1] - t[j]) * (y[j + 1] + y[j]) / 2 for j in range(len(t) - 1))


def _exact_weight(case, var):
    """Integrated pointwise variance in exact arithmetic (trapezoid rule only), independent of the Lean model."""
    if case["integ"] != "trapz":
        return None
    if "t" in case:
        t = _Fv(case["t"])
        if case["stand"]:
            t = [(x - t[0]) / (t[-1] - t[0]) for x in t]
        return _trapz_exact(t, var)
    t1, t2 = _Fv(case["t1"]), _Fv(case["t2"])
    if case["stand"]:
        t1 = [(x - t1[0]) / (t1[-1] - t1[0]) for x in t1]
        t2 = [(x - t2[0]) / (t2[-1] - t2[0]) for x in t2]
    n2 = len(t2)
    inner = [_trapz_exact(t1, [var[a * n2 + b] for a in range(len(t1))]) for b in range(n2)]
    return _trapz_exact(t2, inner)


def _oracle_grid(case, impl, bad):
    kind = case["kind"]
    Xf = _exact_grid(case)
    N, m = len(Xf), len(Xf[0])
    big, dev = _scales(Xf)
    X = np.array([[float(x) for x in r] for r in Xf])
    var_exact = [sum((r[j] - sum(q[j] for q in Xf) / N) ** 2 for r in Xf) / N for j in range(m)]
    causes_b2 = ["basis-2d"] if kind == "basis2" else []
    pos_var = [float(v) for v in var_exact if v > 0]
    # conditioning of the two-pass estimators: rounding of x (relative eps) against the spread; enters linearly
    cond = big / math.sqrt(sum(pos_var) / len(pos_var)) if pos_var else 1.0
    lin = 4e-15 * cond
    # ---- centring
    c = impl["center"]
    if _err(c):
        bad("runs", f"center raised {c['error']}: {c.get('msg')}", _entry(case, "center"))
    else:
        V = np.array(c["v"])
        if np.abs(V.mean(axis=0)).max() > 1e-9 * big:
            bad("center_mean_zero", f"pointwise mean after centring is {np.abs(V.mean(axis=0)).max()}", _entry(case, "center"))
        if np.abs(np.array(c["again"]) - V).max() > 1e-9 * big:
            bad("center_idempotent", f"centring again changes the values by {np.abs(np.array(c['again']) - V).max()}", _entry(case, "center"))
    # ---- normalising
    nz = impl["normalize"]
    if _err(nz):
        bad("runs", f"normalize raised {nz['error']}: {nz.get('msg')}", _entry(case, "normalize"))
    else:
        if not all(math.isfinite(x) for x in nz["norm_before"]):
            bad("norm_finite", f"norm of finite data is not finite: {nz['norm_before']}", _entry(case, "norm"))
        for i, (nb, na) in enumerate(zip(nz["norm_before"], nz["norm_after"])):
            if (nb > 1e-9 * big or not math.isfinite(nb)) and not abs(na - 1) <= 1e-8:
                bad("normalize_unit", f"observation {i} has norm {na} after normalising (options stand={case['stand']}, {case['integ']}"
                    + (f", basis {case.get('family') or 'given'}, is_normalized={case.get('isn')}" if kind.startswith("basis") else "") + ")", _entry(case, "normalize"))
                break
            if nb > 1e-7 * big and "norm_after_grid" in nz and not abs(nz["norm_after_grid"][i] - 1) <= 1e-6:
                bad("normalize_unit", f"observation {i}: the evaluated curves have norm {nz['norm_after_grid'][i]} after normalising "
                    f"(basis {case.get('family') or 'given'}, is_normalized={case.get('isn')}, {case['integ']})", _entry(case, "normalize"))
                break
    # ---- standardising
    for key, cause in (("standardize", "natural-heap"), ("standardize_adv", "nan-initialised-buffer")):
        s = impl[key]
        if _err(s):
            if key == "standardize" or not _err(impl["standardize"]):
                bad("runs", f"standardize raised {s['error']}: {s.get('msg')} ({cause})", _entry(case, "standardize"), causes_b2)
            continue
        V = np.array(s["v"])
        if not np.all(np.isfinite(V)):
            zero = [j for j in range(m) if var_exact[j] == 0]
            bad("standardize_finite", f"standardize returns non-finite values (zero-variance grid points {zero[:6]}; {cause})",
                _entry(case, "standardize"), [cause, "uninitialised"])
            continue
        pv = V.var(axis=0)
        colbig = [float(max(abs(r[j]) for r in Xf)) for j in range(m)]
        for j in range(m):
            # conditioning of THIS grid point (its own offset against its own spread), whatever the scale of the other points
            if var_exact[j] > 0 and not abs(pv[j] - 1) <= 1e-8 + 1e-13 * colbig[j] / math.sqrt(float(var_exact[j])):
                bad("standardize_unit_var", f"pointwise variance after standardising is {pv[j]} at grid point {j} (input variance {float(var_exact[j])})",
                    _entry(case, "standardize"))
                break
            if var_exact[j] == 0 and np.abs(V[:, j]).max() != 0:
                bad("standardize_zero_var", f"zero-variance grid point {j} got values {V[:, j].tolist()} ({cause})", _entry(case, "standardize"), [cause, "uninitialised"])
                break
        if case["center"]:
            mv = np.abs(V.mean(axis=0))
            for j in range(m):
                if var_exact[j] > 0 and not mv[j] <= 1e-7 * (1 + colbig[j] / math.sqrt(float(var_exact[j]))):
                    bad("standardize_mean_zero", f"pointwise mean after standardising is {mv[j]} at grid point {j}", _entry(case, "standardize"))
                    break
    # ---- rescaling
    r = impl["rescale"]
    if _err(r):
        bad("runs", f"rescale raised {r['error']}: {r.get('msg')}", _entry(case, "rescale"), causes_b2)
    elif r["w"] > 0 and math.isfinite(r["w"]):
        wx = _exact_weight(case, var_exact)
        if wx is not None and abs(r["w"] - float(wx)) > float(wx) * (1e-9 + lin):
            bad("rescale_weight_value", f"returned weight {r['w']} is not the integrated pointwise variance {float(wx)} of the input (stand={case['stand']})", _entry(case, "rescale"))
        if not abs(r["w_again"] - 1) <= 1e-8 + 10 * lin:
            bad("rescale_reestimate_one", f"re-estimated weight after rescaling is {r['w_again']} (weight {r['w']}, stand={case['stand']}, {case['integ']})", _entry(case, "rescale"))
        V = np.array(r["v"])
        if np.abs(V * math.sqrt(r["w"]) - X).max() > 1e-9 * big:
            bad("rescale_divides", "rescaled values are not values / sqrt(weight)", _entry(case, "rescale"))
    elif dev > 0 and case["integ"] == "trapz" and not (r["w"] >= 0):
        bad("rescale_weight", f"weight {r['w']}", _entry(case, "rescale"))
    ru = impl["rescale_user"]
    if _err(ru):
        bad("runs", f"rescale(weights=w) raised {ru['error']}: {ru.get('msg')}", _entry(case, "rescale"))
    else:
        w = float(F(case["w"]))
        if np.abs(np.array(ru["v"]) * math.sqrt(w) - X).max() > 1e-9 * big or ru["w"] != w:
            bad("rescale_user_weight", f"rescale(weights={w}) does not divide the values by sqrt(w)", _entry(case, "rescale"))
    rt = impl.get("rescale_transfer")
    if rt is not None and not _err(rt) and rt["ws"] > 0 and math.isfinite(rt["ws"]):
        if rt["w"] != rt["ws"] or np.abs(np.array(rt["v"]) * math.sqrt(rt["ws"]) - X).max() > 1e-9 * big:
            bad("rescale_user_weight", f"a weight {rt['ws']} estimated on small-amplitude data and passed as weights= is not used as given "
                f"(returned {rt['w']}; values / sqrt(w) expected)", _entry(case, "rescale"), ["transfer"])
    elif rt is not None and _err(rt) and not _err(r):
        bad("runs", f"rescale with a transferred weight raised {rt['error']}: {rt.get('msg')}", _entry(case, "rescale"), causes_b2)
    # ---- history: the same object again, and after replacing its values
    h = impl["history"]
    if not _err(h):
        def same(a, b, tol):
            a, b = np.array(a, dtype=float), np.array(b, dtype=float)
            return a.shape == b.shape and np.all((np.abs(a - b) <= tol) | (np.isnan(a) & np.isnan(b)))

        if not _err(c) and not same(h["center"], c["v"], 1e-12 * big):
            bad("stale_state", "center() on an object that went through the other operations differs from a fresh object", _entry(case, "center"), ["history"])
        s0 = impl["standardize"]
        if not _err(s0) and not same(h["standardize"], s0["v"], 1e-9 * N):
            bad("stale_state", "standardize() on an object that went through the other operations differs from a fresh object "
                "(the first call changed the object)", _entry(case, "standardize"), ["history"])
        if not _err(r) and not (abs(h["w"] - r["w"]) <= 1e-12 * abs(r["w"]) or (math.isnan(h["w"]) and math.isnan(r["w"]))):
            bad("stale_state", f"rescale() weight on a used object {h['w']} vs fresh {r['w']}", _entry(case, "rescale"), ["history"])
        if "set_center" in h:
            if not same(h["set_center"], h["set_center_fresh"], 0) or not same(h["set_std"], h["set_std_fresh"], 0) or h["set_w"] != h["set_w_fresh"]:
                bad("stale_state", "after replacing .values the operations do not match a fresh object", _entry(case, "center"), ["history"])
    elif not (_err(impl["standardize"]) or _err(impl["rescale"])):
        bad("runs", f"sequence of operations on one object raised {h['error']}: {h.get('msg')}", _entry(case, "standardize"), ["history"])


def _oracle_irreg(case, impl, bad, comp=None):
    comp = comp or case
    vals = impl["vals"]
    if _err(vals):
        bad("runs", f"building the data raised {vals['error']}", _entry(case, "center"))
        return
    sub = ["subset-labels"] if case.get("sub") else []
    big = max([abs(a) for x in vals for a in x if math.isfinite(a)] + [1e-300])  # amplitude of the data: thresholds are relative to it
    c = impl["center"]
    if _err(c):
        bad("runs", f"center raised {c['error']}: {c.get('msg')}" + (" on a sub-selection" if sub else ""), _entry(case, "center"), sub)
    else:
        if c["labels"] != c["in_labels"]:
            bad("center_labels", f"centred data have labels {c['labels']}, input {c['in_labels']}", _entry(case, "center"), sub)
        U = c["U"]
        pos = {u: k for k, u in enumerate(U)}
        for i, (o, v, x) in enumerate(zip(comp["obs"], c["v"], vals)):
            pts = [float(F(p)) for p in o["t"]]
            if len(v) != len(x):
                bad("center_irregular", f"curve {i}: {len(v)} centred values for {len(x)} samples", _entry(case, "center"))
                break
            for k, p in enumerate(pts):
                if math.isnan(x[k]):
                    continue
                exp = x[k] - c["mean"][pos[p]]
                if not abs(v[k] - exp) <= 1e-12 * max(big, abs(x[k]), abs(exp)):
                    bad("center_irregular", f"curve {i}, sample {k} (t = {p}): centred value {v[k]} but value - mean(t) = {exp}", _entry(case, "center"))
                    break
            else:
                continue
            break
    nz = impl["normalize"]
    if _err(nz):
        bad("runs", f"normalize raised {nz['error']}: {nz.get('msg')}", _entry(case, "normalize"), sub)
    else:
        enc = f"{comp['enc']} encoding, stand={case['stand']}"
        if not all(math.isfinite(x) for x in nz["norm_before"]):
            bad("norm_finite", f"norm of irregular data ({enc}) is not finite: {nz['norm_before']} although every curve has finite samples",
                _entry(case, "norm"), sub)
        nr = nz["norm_ragged"]
        if not all(abs(a - b) <= 1e-9 * max(abs(b), 1e-9 * big) for a, b in zip(nz["norm_before"], nr)):
            bad("norm_encoding", f"norm of irregular data ({enc}) {nz['norm_before']} differs from the norm {nr} of the same curves with the missing samples dropped",
                _entry(case, "norm"), sub)
        for i, (v, x) in enumerate(zip(nz["v"], vals)):
            if len(v) != len(x) or any(math.isfinite(a) and not math.isfinite(b) for a, b in zip(x, v)):
                bad("normalize_finite", f"irregular observation {i} ({enc}): normalised samples are not finite where the input is: {v}", _entry(case, "normalize"), sub)
                break
        for i, (nb, na) in enumerate(zip(nz["norm_before"], nz["norm_after"])):
            if (nb > 1e-9 * big or not math.isfinite(nb)) and not abs(na - 1) <= 1e-8:
                bad("normalize_unit", f"irregular observation {i} ({enc}) has norm {na} after normalising", _entry(case, "normalize"), sub)
                break
    for key, cause in (("standardize", "natural-heap"), ("standardize_adv", "nan-initialised-buffer")):
        s = impl.get(key)
        if s is None:
            continue  # not run on the large-union cases (covariance smoothing over union x union)
        if _err(s):
            if key == "standardize" or not _err(impl.get("standardize")):
                bad("runs", f"standardize raised {s['error']}: {s.get('msg')} ({cause})", _entry(case, "standardize"), sub)
            continue
        for i, (v, x) in enumerate(zip(s["v"], vals)):
            badk = [k for k in range(len(x)) if math.isfinite(x[k]) and not math.isfinite(v[k])]
            if len(v) != len(x) or badk:
                bad("standardize_finite", f"irregular standardize: curve {i} has non-finite output at samples {badk[:5]} where the input is a number ({cause})",
                    _entry(case, "standardize"), [cause, "uninitialised"])
                break
    r = impl["rescale"]
    h = impl.get("history")
    if h is not None and not _err(h):
        if not _err(c):
            for key, what in (("after_mean", "mean() with other smoothing options"), ("center", "mean/center/standardize/rescale with other smoothing options")):
                if not _flat_close(h[key], c["v"], 1e-12):
                    bad("stale_state", f"center(options of the case) on an object that had already run {what} differs from a fresh object "
                        "(an earlier estimate is reused)", _entry(case, "center"), ["history"] + sub)
                    break
        if not _err(r) and not (abs(h["w"] - r["w"]) <= 1e-12 * abs(r["w"]) or (math.isnan(h["w"]) and math.isnan(r["w"]))):
            bad("stale_state", f"rescale() weight on a used irregular object {h['w']} vs fresh {r['w']}", _entry(case, "rescale"), ["history"] + sub)
        s0 = impl.get("standardize")
        if s0 is not None and not _err(s0) and not _flat_close(h["standardize"], s0["v"], 1e-12):
            bad("stale_state", "standardize() on a used irregular object differs from a fresh object", _entry(case, "standardize"), ["history"] + sub)
    elif h is not None and not any(_err(impl.get(k)) for k in ("center", "standardize", "rescale", "normalize")):
        bad("runs", f"sequence of operations on one irregular object raised {h['error']}: {h.get('msg')}", _entry(case, "center"), ["history"] + sub)
    if _err(r):
        bad("runs", f"rescale raised {r['error']}: {r.get('msg')}", _entry(case, "rescale"), sub)
    elif r["w"] > 1e-12 * big * big and math.isfinite(r["w"]):
        if not abs(r["w_again"] - 1) <= 1e-7:
            bad("rescale_reestimate_one", f"irregular data: re-estimated weight {r['w_again']} (weight {r['w']})", _entry(case, "rescale"))
    elif not r["w"] >= 0:
        bad("rescale_weight", f"irregular rescale weight {r['w']}", _entry(case, "rescale"), ["nan-weight"])
    rt = impl.get("rescale_transfer")
    if rt is not None and not _err(rt) and rt["ws"] > 0 and math.isfinite(rt["ws"]):
        okv = all(not math.isfinite(a) or abs(b * math.sqrt(rt["ws"]) - a) <= 1e-9 * max(big, abs(a)) for x, v in zip(vals, rt["v"]) for a, b in zip(x, v))
        if rt["w"] != rt["ws"] or not okv:
            bad("rescale_user_weight", f"irregular data: a weight {rt['ws']} estimated on small-amplitude data and passed as weights= is not used as given "
                f"(returned {rt['w']})", _entry(case, "rescale"), ["transfer"])
    ru = impl["rescale_user"]
    if _err(ru):
        bad("runs", f"rescale(weights=w) raised {ru['error']}: {ru.get('msg')}", _entry(case, "rescale"), sub)
    else:
        w = float(F(case["w"]))
        for v, x in zip(ru["v"], vals):
            if any(math.isfinite(a) and abs(b * math.sqrt(w) - a) > 1e-12 * max(big, abs(a)) for a, b in zip(x, v)) or ru["w"] != w:
                bad("rescale_user_weight", f"irregular rescale(weights={w}) does not divide the values by sqrt(w)", _entry(case, "rescale"))
                break


def _flat_close(A, B, tol):
    try:
        a = np.array([x for r in A for x in r], dtype=float)
        b = np.array([x for r in B for x in r], dtype=float)
    except (TypeError, ValueError):
        return False
    return a.shape == b.shape and bool(np.all((np.abs(a - b) <= tol * np.maximum(1.0, np.abs(b))) | (np.isnan(a) & np.isnan(b))))


def _oracle_multi(case, impl, bad):
    E = "MultivariateFunctionalData."
    irr = any(c["type"] == "irreg" for c in case["comps"])
    c = impl["center"]
    if _err(c):
        bad("runs", f"center raised {c['error']}: {c.get('msg')}", E + "center")
    else:
        for p, (a, b) in enumerate(zip(c["v"], c["single"])):
            if not _flat_close(a, b, 1e-12):
                bad("multivariate_componentwise", f"center: component {p} differs from centring the component alone", E + "center")
                break
        if "hist" in c:
            for p, (a, b) in enumerate(zip(c["hist"], c["v"])):
                if not _flat_close(a, b, 1e-12):
                    bad("stale_state", f"center on a multivariate object already centred with other smoothing options: component {p} differs from a fresh object",
                        E + "center", ["history"])
                    break
    nz = impl["normalize"]
    if _err(nz):
        bad("runs", f"normalize raised {nz['error']}: {nz.get('msg')}", E + "normalize",
            (["irregular-component"] if irr else []) + (["basis-component"] if any(c["type"].startswith("basis") for c in case["comps"]) else []))
    else:
        tot = np.sum(np.array(nz["comp_norms"]), axis=0)
        if not np.all(np.isfinite(np.array(nz["norm_before"], dtype=float))) or not np.all(np.isfinite(tot)):
            bad("norm_finite", f"multivariate norm {nz['norm_before']} / component norms {nz['comp_norms']} are not finite "
                f"(components: {[c['type'] + (':' + c['enc'] if c['type'] == 'irreg' else '') for c in case['comps']]}, stand={case['stand']})", E + "norm")
        for p, (a, b) in enumerate(zip(nz["v"], nz["raw"])):
            fa = [x for r in a for x in r]
            fb = [x for r in b for x in r]
            if len(fa) != len(fb) or any(math.isfinite(y) and not math.isfinite(x) for x, y in zip(fa, fb)):
                bad("normalize_finite", f"multivariate normalize: component {p} has non-finite samples where the input is finite", E + "normalize")
                break
        if not (np.abs(np.array(nz["norm_before"]) - tot).max() <= 1e-9 * max(np.nanmax(tot), 1e-300)):
            bad("multivariate_norm", f"multivariate norm is not the sum of the component norms under options stand={case['stand']}, {case['integ']}", E + "norm")
        for i, (nb, na) in enumerate(zip(nz["norm_before"], nz["norm_after"])):
            if (nb > 1e-9 or not math.isfinite(nb)) and not abs(na - 1) <= 1e-8:
                bad("normalize_unit", f"multivariate observation {i} has norm {na} after normalising (stand={case['stand']}, {case['integ']})", E + "normalize")
                break
        for p, (a, b) in enumerate(zip(nz["comp_norms_after"], nz["comp_norms"])):
            exp = np.array(b) / np.where(tot > 0, tot, 1.0)
            if np.abs(np.array(a) - exp)[tot > 1e-9].max(initial=0) > 1e-8:
                bad("normalize_unit", f"component {p} does not have norm r_p / sum(r) after normalising", E + "normalize")
                break
    s = impl["standardize"]
    if _err(s):
        bad("runs", f"standardize raised {s['error']}: {s.get('msg')}", E + "standardize")
    else:
        for p, (a, b) in enumerate(zip(s["v"], s["single"])):
            if not _flat_close(a, b, 1e-12):
                bad("multivariate_componentwise", f"standardize: component {p} differs from standardising the (centred) component alone", E + "standardize")
                break
        # every dense / basis component has unit pointwise variance wherever its curves genuinely differ (the mean may be smoothed away
        # with the irregular components' options, the variance of the output does not depend on it)
        for p, (comp, v) in enumerate(zip(case["comps"], s["v"])):
            if comp["type"] == "irreg" or (comp["type"].startswith("basis") and comp.get("family")):
                continue
            Xp = _exact_grid(comp)
            cb, cv = _col_scales(Xp)
            V = np.array(v, dtype=float)
            if V.shape != (len(Xp), len(Xp[0])) or not np.all(np.isfinite(V)):
                continue
            pv = V.var(axis=0)
            for j in range(V.shape[1]):
                if cv[j] > 0 and not abs(pv[j] - 1) <= 1e-8 + 1e-13 * cb[j] / math.sqrt(cv[j]):
                    bad("standardize_unit_var", f"multivariate standardize: component {p} has pointwise variance {pv[j]} at grid point {j} "
                        f"(input variance {cv[j]}, largest variance of the component {max(cv)})", E + "standardize")
                    break
            else:
                continue
            break
    for key, cause in (("standardize", "natural-heap"), ("standardize_adv", "nan-initialised-buffer")):
        s = impl[key]
        if _err(s):
            continue
        for p, (comp, v) in enumerate(zip(case["comps"], s["v"])):
            if comp["type"] != "irreg" and not _finite(v):
                bad("standardize_finite", f"multivariate standardize: component {p} has non-finite values ({cause})", E + "standardize", [cause, "uninitialised"])
                break
    r = impl["rescale"]
    if _err(r):
        bad("runs", f"rescale raised {r['error']}: {r.get('msg')}", E + "rescale")
    else:
        for p, (a, b) in enumerate(zip(r["w"], r["single_w"])):
            if not (abs(a - b) <= 1e-12 * abs(b) or (math.isnan(a) and math.isnan(b))):
                bad("multivariate_componentwise", f"rescale: weight of component {p} is {a}, the component alone gives {b} (stand={case['stand']}, {case['integ']})", E + "rescale")
                break
        for p, (a, w) in enumerate(zip(r["w_again"], r["w"])):
            comp = case["comps"][p]
            cond = 1.0
            if comp["type"] != "irreg" and w > 0:
                cond = _scales(_exact_grid(comp))[0] / math.sqrt(w)  # offset against the (integrated) spread
            if w > 1e-12 and not abs(a - 1) <= 1e-7 + 1e-13 * cond:
                bad("rescale_reestimate_one", f"component {p}: re-estimated weight {a}", E + "rescale")
                break
    ru = impl["rescale_user"]
    if _err(ru):
        bad("runs", f"rescale(weights=...) raised {ru['error']}: {ru.get('msg')}", E + "rescale")
    else:
        for p, (uw, w) in enumerate(zip(case["uw"], ru["w"])):
            uw = float(F(uw))
            if uw > 0:
                if w != uw or not _flat_close([[x * math.sqrt(uw) for x in row] for row in ru["v"][p]], ru["raw"][p], 1e-12):
                    bad("rescale_user_weight", f"component {p}: user weight {uw} does not divide the values by sqrt(w) (returned {w})", E + "rescale")
                    break
            elif not _err(r) and not (abs(w - r["w"][p]) <= 1e-12 * abs(r["w"][p]) or (math.isnan(w) and math.isnan(r["w"][p]))):
                bad("multivariate_componentwise", f"component {p}: weight 0 means 'estimate', got {w} vs {r['w'][p]} "
                    f"(weights given as {case.get('uw_form')}: {case['uw']})", E + "rescale", ["weights-form:" + str(case.get("uw_form"))])
                break
            elif not _err(r) and r["w"][p] > 0 and math.isfinite(r["w"][p]) and not _flat_close(ru["v"][p], r["v"][p], 1e-12):
                bad("multivariate_componentwise", f"component {p}: with weight 0 (= estimate) next to given weights the values differ from rescale() without weights "
                    f"(weights given as {case.get('uw_form')})", E + "rescale", ["weights-form:" + str(case.get("uw_form"))])
                break


def oracle(case, impl):
    if "__crash__" in impl:
        return [dict(clause="runs", entry=case["kind"], msg=f"crash {impl['__crash__']}: {impl.get('msg')}")]
    vs = []

    def bad(clause, msg, entry, causes=()):
        if "ModuleNotFoundError" in msg:
            return  # Basis.inner_product's Cholesky fallback needs statsmodels (absent here, DESIGN A.7): case skipped, counted in classify
        vs.append(dict(clause=clause, entry=entry, msg=msg, causes=list(causes)))

    kind = case["kind"]
    if kind == "scale":
        from c09 import _sweep_violations

        cls = {"dense1": "DenseFunctionalData", "dense2": "DenseFunctionalData", "basis1": "BasisFunctionalData", "irregular-points": "IrregularFunctionalData",
               "irregular-nan": "IrregularFunctionalData", "multivariate": "MultivariateFunctionalData"}[case["flavour"]]
        if _err(impl):
            bad("runs", f"amplitude sweep on {case['flavour']} data raised {impl['error']}: {impl.get('msg')}", cls)
            return vs
        # irregular standardize compares the smoothed sd with the ABSOLUTE threshold 1e-12 (mirrored; only finiteness is required there)
        excl = ("standardize", "standardize(center=False)") if case["flavour"].startswith("irregular") else ()
        _sweep_violations(impl, bad, lambda nm: cls + "." + nm.split("(")[0].split(" ")[0], excl)
        return vs
    case = _resolve(case, impl)
    if case is None:
        return vs  # named basis with non-finite values (e.g. too few functions for the B-spline degree): C18's matter, counted in classify
    if kind in ("dense1", "dense2", "basis1", "basis2"):
        _oracle_grid(case, impl, bad)
        from c09 import _same

        ra = impl.get("reassigned")
        if ra is not None and not _err(ra):
            t2 = [F(x) for x in ra["t2"]]
            for seq, r in ra.items():
                if seq == "t2":
                    continue
                exp_stand = [float((x - t2[0]) / (t2[-1] - t2[0])) for x in t2]
                if not _same(r["stand"], exp_stand, 1.0):
                    bad("argvals_stand_current", f"after assigning through the setters ({seq}) argvals_stand is {str(r['stand'])[:70]} but (t - min)/(max - min) of the CURRENT "
                        f"argvals is {str(exp_stand)[:70]}", "DenseFunctionalData.argvals", ["reassigned:" + seq])
                Xr = np.array(r["vals"], dtype=float)
                sdm = float(np.sqrt(np.mean(Xr.var(axis=0)))) if Xr.size else 0.0
                cond_r = float(np.abs(Xr).max()) / sdm if sdm > 0 else 1.0  # offset against spread: two summation orders may differ by eps * cond
                for nm, pair in r.items():
                    if nm in ("stand", "vals"):
                        continue
                    a, b = pair
                    if _all_finite(b) and not _same(a, b, rtol=1e-12 + 1e-13 * cond_r):
                        bad("stale_state", f"{nm} on an object whose attributes were reassigned through the setters ({seq}) gives {str(a)[:70]}, a freshly built object "
                            f"with the same grid and values {str(b)[:70]}", "DenseFunctionalData." + nm.split("(")[0].split(".")[0].split(" ")[0], ["reassigned:" + seq])
                        break
                # independent of any FDApy object: weight = integral of the pointwise variance on the standardised CURRENT grid
                if case["integ"] == "trapz":
                    Xv = [[F(x) for x in row] for row in r["vals"]]
                    Nn = len(Xv)
                    var = [sum((row[j] - sum(q[j] for q in Xv) / Nn) ** 2 for row in Xv) / Nn for j in range(len(t2))]
                    wx = _trapz_exact([(x - t2[0]) / (t2[-1] - t2[0]) for x in t2], var)
                    wa = r["rescale weight(stand=True)"][0]
                    if wx > 0 and not _err(wa) and not abs(wa - float(wx)) <= 1e-9 * float(wx) * (1 + 1e-3 * (max(abs(x) for row in Xv for x in row) ** 2) / float(wx)):
                        bad("rescale_weight_value", f"after reassigning ({seq}) the weight with use_argvals_stand=True is {wa}, the integrated pointwise variance on the "
                            f"standardised current grid is {float(wx)}", "DenseFunctionalData.rescale", ["reassigned:" + seq])
                    na = r["normalize.norm(stand=True)"][0]
                    nb = r["norm(stand=True)"][1]
                    if not _err(na) and not _err(nb) and any(b > 0 and not abs(a - 1) <= 1e-8 for a, b in zip(na, nb)):
                        bad("normalize_unit", f"after reassigning ({seq}) the norms after normalize(use_argvals_stand=True) are {str(na)[:80]}",
                            "DenseFunctionalData.normalize", ["reassigned:" + seq])
        elif ra is not None:
            bad("runs", f"operations after reassigning attributes raised {ra['error']}: {ra.get('msg')}", "DenseFunctionalData.argvals", ["reassigned"])
        bg_, dv_ = _scales(_exact_grid(case))
        cond = bg_ / (dv_ + 1e-300) if dv_ > 0 else 1.0
        for dn, r in (impl.get("derived") or {}).items():
            if _err(r):
                continue
            for nm, (a, b, amp) in r.items():
                fin = _all_finite(b)
                if fin and not _same(a, b, amp * amp if nm == "rescale" else amp, rtol=1e-12 + 1e-13 * cond):
                    bad("derived_object", f"{nm} of the object returned by {dn} gives {str(a)[:90]}, a freshly built object with the same values {str(b)[:90]}",
                        "DenseFunctionalData." + nm, ["derived:" + dn])
                    break
        _variant_violations(impl, bad, "BasisFunctionalData" if kind.startswith("basis") else "DenseFunctionalData")
    elif kind == "irreg":
        _oracle_irreg(case, impl, bad)
        _variant_violations(impl, bad, "IrregularFunctionalData")
    elif kind == "multi":
        _oracle_multi(case, impl, bad)
        irr = any(c["type"] == "irreg" for c in case["comps"])
        _variant_violations(impl, bad, "MultivariateFunctionalData", "MultivariateFunctionalData+irregular" if irr else None)
    return vs


def nontrivial(case, impl):
    if case.get("ck") == "const":
        return None
    return common.digest(case)


def classify(case, impl):
    if case["kind"] == "scale":
        return ["kind:scale", "amplitude-sweep:" + case["flavour"]]
    tags = ["kind:" + case["kind"], "content:" + str(case.get("ck")), "stand:" + str(case.get("stand")), "integ:" + str(case.get("integ")),
            "center:" + str(case.get("center"))]
    if case["kind"] == "irreg":
        tags += ["irregular:" + case["enc"], "smooth:" + case["smooth"]["method"]]
        if case.get("sub"):
            tags.append("irregular:subselection")
        if case.get("vorder"):
            tags.append("irregular:values-dict-in-another-key-order")
        if case.get("big_union"):
            tags.append("irregular:union-grid-size:" + str(len({t for o in case["obs"] for t in o["t"]})))
        tags += ["irregular:model:" + part for part in _irreg_parts(case, impl)]
    if case["kind"] == "multi":
        tags.append("multi:" + case["mix"])
        tags.append("user-weights-form:" + str(case.get("uw_form")))
    for c in [case] + list(case.get("comps", [])):
        if c.get("type", "").startswith("dense") and any(abs(F(x)) >= 2 ** 19 for x in c["X"][0][:1]):
            tags.append("offset>>spread")
            break
    if case.get("int") or any(c.get("int") for c in case.get("comps", [])):
        tags.append("dtype:int64")
    for c in [case] + list(case.get("comps", [])):
        if c.get("layout") not in (None, "C"):
            tags.append("layout:" + c["layout"])
    if case.get("sized"):
        tags.append("size-threshold:" + str(len(case["X"])))
    if case["kind"].startswith("basis"):
        tags.append("basis:" + str(case.get("family") or "given") + (":is_normalized" if case.get("isn") else ""))
        if case.get("family") and _resolve(case, impl) is None:
            tags.append("skipped:named-basis-not-finite")
    if "w" in case:
        lw = math.log2(float(F(case["w"])))
        tags.append("user-weight:" + ("<2^-27" if lw < -27 else "<1" if lw < 0 else "<2^27" if lw < 27 else ">=2^27"))
    if isinstance(impl, dict):
        s = impl.get("standardize_adv")
        if isinstance(s, dict) and s.get("hits"):
            tags.append("np.divide(where=) without out= seen")
        if "ModuleNotFoundError" in str(impl.get("normalize")) or "ModuleNotFoundError" in str(impl.get("history")):
            tags.append("skipped:cholesky-fallback-needs-statsmodels")
    return tags
